(** Properties/C11.v — context conversions apply the declared rules along a shortest chain.
    Only statements, each closed by [exact] of a lemma proved in Proofs/ContextProofs.v.

    Model: Model/Context.v.  [q_oldest = true] is pint as it is (finding F5), [false] the
    repaired reading; everything that does not mention [q_oldest] holds for both. *)
From stdpp Require Import gmap strings list.
From PintV Require Import Model.UC Model.Eval Model.Registry Model.Context
  Proofs.RegistryProofs Proofs.RootProofs Proofs.FactorProofs Proofs.ContextProofs Proofs.ContextRedefProofs.
Close Scope string_scope.
Local Open Scope nat_scope.

(** * 1. Path search ([pint.util.find_shortest_path])
    [edge] is the graph; [pick node visited] is ANY enumeration of the Python set
    [graph[node] - visited] ([pick_ok]): the statements hold for every such order, every node
    type, every graph, every fuel. *)
Theorem C11_bfs_sound {N} `{EqDecision N} (edge : N → N → Prop) pick fuel src dst p :
  pick_ok edge pick → bfs pick fuel src dst = Some p → walk edge src dst p.
Proof. intros H. exact (bfs_sound edge pick H fuel src dst p). Qed.

Theorem C11_bfs_shortest {N} `{EqDecision N} (edge : N → N → Prop) pick fuel src dst p :
  pick_ok edge pick → bfs pick fuel src dst = Some p →
  ∀ q, walk edge src dst q → length p ≤ length q.
Proof. intros H. exact (bfs_shortest edge pick H fuel src dst p). Qed.

(** explicit fuel: [bfs_bound n = 2 + n + n^2 + … + n^n] loop iterations suffice when the nodes lie
    in a list of [n] nodes.  (A node is enqueued once per parent popped before it is first
    visited, so the number of iterations is not polynomial; DESIGN's guess |V|·(|E|+1) is not a
    valid bound and is not claimed.) *)
Theorem C11_bfs_terminates {N} `{EqDecision N} (edge : N → N → Prop) pick (V : list N) fuel src dst :
  pick_ok edge pick → closed_in edge V → pick_nodup pick → src ∈ V →
  bfs_bound (length V) ≤ fuel → bfs_run pick fuel src dst ≠ BFuel.
Proof. intros H1 H2 H3. exact (bfs_terminates edge pick H1 V H2 H3 fuel src dst). Qed.

(** [None] exactly when the target is unreachable *)
Theorem C11_bfs_complete {N} `{EqDecision N} (edge : N → N → Prop) pick (V : list N) fuel src dst :
  pick_ok edge pick → closed_in edge V → pick_nodup pick → src ∈ V →
  bfs_bound (length V) ≤ fuel →
  (bfs pick fuel src dst = None ↔ ∀ q, ¬ walk edge src dst q).
Proof. intros H1 H2 H3. exact (bfs_complete edge pick H1 V H2 H3 fuel src dst). Qed.

(** the executable search of the model runs with fuel [2^k] that is never materialised *)
Theorem C11_bfs_run2_is_bfs_run {N} `{EqDecision N} (pick : N → list N → list N) k src dst :
  bfs_run2 pick k src dst = bfs_run pick (2 ^ k) src dst.
Proof. exact (bfs_run2_spec pick k src dst). Qed.
Theorem C11_bfs_logfuel_sufficient n : bfs_bound n ≤ 2 ^ bfs_logfuel n.
Proof. exact (logfuel_ok n). Qed.

(** whatever the neighbour order, the path found is one of the shortest paths the model
    enumerates ([all_shortest]) — and everything enumerated is a shortest path.  This is what
    the correspondence relies on when several shortest chains exist. *)
Theorem C11_bfs_in_all_shortest {N} `{EqDecision N} (adj : N → list N) pick (V : list N) fuel src dst p :
  pick_ok (aedge adj) pick → closed_in (aedge adj) V → src ∈ V →
  bfs pick fuel src dst = Some p → p ∈ all_shortest adj (length V) src dst.
Proof. exact (bfs_in_all_shortest adj pick V fuel src dst p). Qed.
Theorem C11_all_shortest_sound {N} `{EqDecision N} (adj : N → list N) (V : list N) src dst p :
  (∀ v, NoDup (adj v)) → closed_in (aedge adj) V → src ∈ V →
  p ∈ all_shortest adj (length V) src dst →
  walk (aedge adj) src dst p ∧ ∀ q, walk (aedge adj) src dst q → length p ≤ length q.
Proof. exact (all_shortest_sound adj V src dst p). Qed.

(** * 2. The most recently enabled context wins *)
(** [insert_contexts cs chain] puts the contexts of one activation in front, last one first: the
    rule of an edge is that of the LAST context of [cs] declaring it, else that of the older chain *)
Theorem C11_newest_wins {E} (cs : list (pctx E)) (chain : list (pctx E)) e :
  lookup_rule (insert_contexts cs chain) e =
  match last_declaring cs e with Some r => Some r | None => lookup_rule chain e end.
Proof. exact (newest_wins cs chain e). Qed.
(** and that is the rule a conversion step applies, with that context's parameters *)
Theorem C11_step_applies_newest_rule {E} apply_eq r (cs chain : list (pctx E)) a b q :
  transform apply_eq r (insert_contexts cs chain) a b q =
  match last_declaring cs (a, b) with
  | Some (pc, f) => apply_eq r f (pc_env pc) q
  | None => transform apply_eq r chain a b q
  end.
Proof. exact (transform_newest apply_eq r cs chain a b q). Qed.

(** * 3. Parameters: keyword arguments, else the enclosing context, else the declared defaults *)
(** what an activation builds, for both readings of "inherited" *)
Theorem C11_enable_shape {E} q r (cs : list (ctx E)) kw (c c' : list (pctx E)) :
  enable q r cs kw c = Ok c' →
  ∃ ns, Forall2 (λ x x', normalise r x = Ok x') cs ns ∧
        c' = insert_contexts (map (λ x, from_context x (env_over kw (inherited q c))) ns) c.
Proof. exact (enable_shape q r cs kw c c'). Qed.
Theorem C11_param_resolution {E} (x : ctx E) kw inh p :
  pc_env (from_context x (env_over kw inh)) !! p =
  match kw !! p with
  | Some v => Some v
  | None => match inh !! p with Some v => Some v | None => cx_defaults x !! p end
  end.
Proof. exact (param_resolution x kw inh p). Qed.
(** full for one enclosing level: what is inherited is the enclosing context's parameters *)
Theorem C11_param_precedence_one_level {E} q (c : list (pctx E)) :
  one_level c → inherited q c = newest_defaults c.
Proof. exact (inherited_one_level q c). Qed.
(** FULL STATEMENT (any depth): [inherited true c = newest_defaults c] — refuted by pint as it is
    (F5): with [with context(c1, n=10): with context(c2, n=20): with context(c3):] the third
    context gets n = 10 although its enclosing context has n = 20 *)
Theorem C11_param_precedence_refuted :
  ∃ (r : reg) (c : list (pctx nat)) (x : ctx nat) (c' : list (pctx nat)) (p : string),
    enable true r [x] ∅ c = Ok c' ∧
    (pc ← c' !! 0; pc_env pc !! p) ≠ newest_defaults c !! p.
Proof. exact param_precedence_refuted. Qed.
Theorem C11_param_precedence_witness :
  w_param true 0 = Some (number_param (mkq 10 1)) ∧ w_param true 1 = Some (number_param (mkq 20 1)) ∧
  w_param false 0 = Some (number_param (mkq 20 1)).
Proof. exact (conj (proj1 nested_as_coded) (conj (proj1 (proj2 nested_as_coded)) nested_repaired)). Qed.
(** any depth under the explicit guard; and for the repaired reading without any guard *)
Theorem C11_param_precedence_guarded {E} `{EqDecision E} q (c : list (pctx E)) :
  inherit_guard c = true → inherited q c = newest_defaults c.
Proof. exact (inherited_guarded q c). Qed.
Theorem C11_param_precedence_repaired {E} (c : list (pctx E)) : inherited false c = newest_defaults c.
Proof. reflexivity. Qed.

(** * 4. Conversion while a chain is active *)
(** different dimensionalities linked by the rules: the composition of the rule equations along
    a shortest chain, then the plain conversion — for every neighbour order *)
Theorem C11_ctx_convert_along_shortest {E} apply_eq pick r0 r (c : list (pctx E)) x src dst sd dd :
  pick_ok (cedge c) pick → pick_nodup pick →
  overlay r0 c = Ok r → chain_active c = true →
  dim_of r src = Ok sd → dim_of r dst = Ok dd → sd ≠ dd →
  (∃ q, walk (cedge c) sd dd q) →
  ∃ p, walk (cedge c) sd dd p ∧ (∀ q, walk (cedge c) sd dd q → length p ≤ length q) ∧
       ctx_convert_with apply_eq pick r0 c x src dst
       = (q ←r along apply_eq r c p (quantity x src); finish r q dst).
Proof. exact (ctx_convert_along_shortest apply_eq pick r0 r c x src dst sd dd). Qed.
(** the model's own neighbour order qualifies *)
Theorem C11_model_pick_ok {E} (c : list (pctx E)) :
  pick_ok (cedge c) (pick_adj (chain_adj c)) ∧ pick_nodup (pick_adj (chain_adj c)).
Proof. exact (conj (pick_adj_chain_ok c) (pick_adj_chain_nodup c)). Qed.
(** the result is always among those along the enumerated shortest chains *)
Theorem C11_ctx_convert_in_all {E} apply_eq pick r0 (c : list (pctx E)) x src dst :
  pick_ok (cedge c) pick → pick_nodup pick →
  ctx_convert_with apply_eq pick r0 c x src dst ∈ ctx_convert_all apply_eq r0 c x src dst.
Proof. exact (ctx_convert_in_all apply_eq pick r0 c x src dst). Qed.

Theorem C11_same_dim_unchanged {E} apply_eq pick r0 (c : list (pctx E)) x src dst d :
  (∀ pc, pc ∈ c → cx_redefs (pc_ctx pc) = []) → dim_of r0 src = Ok d → dim_of r0 dst = Ok d →
  ctx_convert_with apply_eq pick r0 c x src dst = ctx_convert_with apply_eq pick r0 [] x src dst.
Proof. exact (same_dim_unchanged_no_redefs apply_eq pick r0 c x src dst d). Qed.
(** with redefinitions: the plain conversion in the overlaid registry *)
Theorem C11_same_dim_overlay {E} apply_eq pick r0 r (c : list (pctx E)) x src dst d :
  overlay r0 c = Ok r → dim_of r src = Ok d → dim_of r dst = Ok d →
  ctx_convert_with apply_eq pick r0 c x src dst = ctx_convert_with apply_eq pick r [] x src dst.
Proof. exact (same_dim_unchanged apply_eq pick r0 r c x src dst d). Qed.

Theorem C11_unreachable_raises {E} apply_eq pick r0 r (c : list (pctx E)) x src dst sd dd :
  pick_ok (cedge c) pick → pick_nodup pick →
  overlay r0 c = Ok r → dim_of r src = Ok sd → dim_of r dst = Ok dd → sd ≠ dd →
  (∀ q, ¬ walk (cedge c) sd dd q) →
  ctx_convert_with apply_eq pick r0 c x src dst = Err EDim.
Proof. exact (unreachable_raises apply_eq pick r0 r c x src dst sd dd). Qed.

(** * 5. Redefinitions reach the dependent units and nothing else
    FULL STATEMENT: under the overlay of a context redefining [u], the root units of a unit change
    iff its reference chain reaches [u], and then as the new definition says.
    PROVED (partial): (a) the overlay writes the new definition under the canonical name, symbol
    and aliases of [u] and nothing else; (b) the frame half for arbitrary registries: every
    container whose expansion never reads a spelling of [u] in the unit table (the string itself,
    the unit of its first candidate, the composed name prefix+unit) keeps root units and factor —
    first relative to any set [K] of affected spellings, then for [redefine] itself, with
    decidable hypotheses checked on a concrete registry below.  CLOSED FORM: see [C11_redefinition_transitive] / [_closed_form] / [_value] below.  Still missing:
    the product formula value'(a) = value(a) * (value'(n) / value(n))^deg as ONE rational identity
    (needs [mprod] compared under two scale functions and [pw (s*t) z = pw s z * pw t z]); the value
    is given as [mprod (gscale r') F'] with [gscale r'] characterised; the same for [dim_of]
    (a redefinition cannot change dimensionality, [redefine] refuses it); [redefinition_scoped] is C12's. *)
Theorem C11_redefinition_transitive_partial (K : string → Prop) (r r' : reg) (a : uc) :
  (∀ s, ¬ K s → resolve r' s = resolve r s) →
  reach_free K (reg_fuel r) r (map_to_list a) → root_of r' a = root_of r a.
Proof. intros H. exact (root_of_frame K r r' H a). Qed.
Theorem C11_redefine_writes_spellings_only (r : reg) (nd : udef) k :
  r_units (r_over r nd) !! k = if decide (k ∈ spellings nd) then Some nd else r_units r !! k.
Proof. exact (over_lookup r nd k). Qed.
Theorem C11_redefinition_frame (r r' : reg) (d : redef) :
  redefine r d = Ok r' →
  ∃ nd, r' = r_over r nd ∧
    (ownb r nd = true → ∀ a, reach_freeb (reg_fuel r) r nd (map_to_list a) = true → root_of r' a = root_of r a).
Proof. exact (redefinition_frame_dec r r' d). Qed.
Example C11_redefinition_hypotheses :
  rd_reg' = r_over rd_reg rd_nd ∧ ownb rd_reg rd_nd = true ∧
  reach_freeb (reg_fuel rd_reg) rd_reg rd_nd (map_to_list (u1 "hour")) = true ∧
  reach_freeb (reg_fuel rd_reg) rd_reg rd_nd (map_to_list (u1 "yard")) = false.
Proof. exact redefinition_hypotheses. Qed.
(** FULL STATEMENT of the transitivity clause (the [_partial] theorem above is kept: evidence refers to it).
    Two registries that differ by the definition of ONE unit [n] ([differ_at]: every string resolves
    alike, except that the strings denoting [n] resolve to [dn1] / [dn2]).  For EVERY container [a]:
    the root units of [a] in the second registry are those in the first, times
    (root units of [n] in the second / in the first) to the power [degc r1 n a] — the exponent with
    which the expansion of [a] reaches [n] (sum over all reference chains; 0 when it never does).
    [(F, B)] = (symbolic factor: generators with exponents, base units), as [root_sym] computes them. *)
Theorem C11_redefinition_transitive (r1 r2 : reg) (n : string) (dn1 dn2 : udef)
    (k1 k2 : string) (f1 f2 : nat) (Fn1 Bn1 Fn2 Bn2 : uc) (a F1 B1 F2 B2 : uc) :
  differ_at r1 r2 n dn1 dn2 →
  resolve r1 k1 = Ok dn1 → resolve r2 k2 = Ok dn2 →
  root_row f1 r1 k1 = Some (Fn1, Bn1) → root_row f2 r2 k2 = Some (Fn2, Bn2) →
  rsem r1 a = Some (F1, B1) → rsem r2 a = Some (F2, B2) →
  F2 = uc_mul F1 (uc_pow (uc_div Fn2 Fn1) (degc r1 n a)) ∧
  B2 = uc_mul B1 (uc_pow (uc_div Bn2 Bn1) (degc r1 n a)).
Proof.
  intros HA H1 H2 H3 H4.
  exact (rsem_subst r1 r2 n dn1 dn2 HA k1 k2 f1 f2 Fn1 Bn1 Fn2 Bn2 H1 H2 H3 H4 a F1 B1 F2 B2).
Qed.
(** ... and [redefine] produces such a pair, for every registry in which every spelling of the unit
    denotes it and no other table entry bears its name (both decidable: [own_strictb], [uniqb]) *)
Theorem C11_redefinition_closed_form (r r' : reg) (d : redef) :
  redefine r d = Ok r' →
  ∃ base nd, r' = r_over r nd ∧ u_name nd = u_name base ∧
    (own_strictb r nd base = true → uniqb r nd = true →
     ∀ Fn Bn Fn' Bn', rrow r (u_name nd) = Some (Fn, Bn) → rrow r' (u_name nd) = Some (Fn', Bn') →
     ∀ a F B F' B', rsem r a = Some (F, B) → rsem r' a = Some (F', B') →
       F' = uc_mul F (uc_pow (uc_div Fn' Fn) (degc r (u_name nd) a)) ∧
       B' = uc_mul B (uc_pow (uc_div Bn' Bn) (degc r (u_name nd) a))).
Proof. exact (redefinition_closed_form r r' d). Qed.
(** the value [root_of] returns afterwards: the product of the generator scales of that factor, the
    scales being those of [r] except for the redefined unit ([gscale_over_other], [gscale_over_unit]) *)
Theorem C11_redefinition_value (r r' : reg) (d : redef) :
  redefine r d = Ok r' →
  ∃ base nd, r' = r_over r nd ∧
    (own_strictb r nd base = true → uniqb r nd = true →
     ∀ Fn Bn Fn' Bn', rrow r (u_name nd) = Some (Fn, Bn) → rrow r' (u_name nd) = Some (Fn', Bn') →
     ∀ a F B, rsem r a = Some (F, B) → is_Some (rsem r' a) →
       let F' := uc_mul F (uc_pow (uc_div Fn' Fn) (degc r (u_name nd) a)) in
       reg_nz r' → gens_ok r' F' → integral F' →
       ∃ ex, root_of r' a = Ok (Some (mprod (gscale r') F'),
                                uc_mul B (uc_pow (uc_div Bn' Bn) (degc r (u_name nd) a)), ex)).
Proof. exact (redefinition_value r r' d). Qed.
Theorem C11_redefinition_scales (r : reg) (nd : udef) g :
  (∀ k, k ∈ spellings nd → ∃ b, r_units r !! k = Some b ∧ u_name b = u_name nd ∧ u_symbol b = u_symbol nd) →
  (¬ touched r nd g → gscale (r_over r nd) g = gscale r g) ∧
  gscale (r_over r nd) (u_name nd) = if u_float nd then 1%Qc else u_scale nd.
Proof. intros own. split; [exact (gscale_over_other r nd g own) | exact (gscale_over_unit r nd)]. Qed.
(** degree 0 (the expansion never reaches the unit): nothing moves *)
Theorem C11_redefinition_degree_zero (r r' : reg) (d : redef) :
  redefine r d = Ok r' →
  ∃ base nd, r' = r_over r nd ∧
    (own_strictb r nd base = true → uniqb r nd = true →
     ∀ Fn Bn Fn' Bn', rrow r (u_name nd) = Some (Fn, Bn) → rrow r' (u_name nd) = Some (Fn', Bn') →
     ∀ a F B F' B', rsem r a = Some (F, B) → rsem r' a = Some (F', B') →
       degc r (u_name nd) a = 0%Qc → F' = F ∧ B' = B).
Proof. exact (redefinition_degree_zero r r' d). Qed.
Example C11_closed_form_example :
  rd_reg' = r_over rd_reg rd_nd ∧ own_strictb rd_reg rd_nd rd_base = true ∧ uniqb rd_reg rd_nd = true ∧
  degc rd_reg "foot"%string (u1 "yard") = 1%Qc ∧ degc rd_reg "foot"%string (u1 "hour") = 0%Qc ∧
  degc rd_reg "foot"%string (mkuc [("yard"%string, mkq 2 1); ("hour"%string, mkq (-1) 1)]) = mkq 2 1 ∧
  rrow rd_reg "foot"%string = Some ({[ "foot"%string := 1%Qc ]}, {[ "inch"%string := 1%Qc ]}) ∧
  rsem rd_reg' (u1 "yard") = Some (mkuc [("yard"%string, mkq 1 1); ("foot"%string, mkq 1 1)], mkuc [("inch"%string, mkq 1 1)]).
Proof. exact closed_form_example. Qed.
(** colliding redefinitions: the newest context's redefinitions are applied last, and a redefinition
    is in force under every spelling of the unit whatever was written before (by whatever spelling) *)
Theorem C11_newest_redefinitions_applied_last {E} r (pc : pctx E) (c : list (pctx E)) :
  overlay r (pc :: c) = (r1 ←r overlay r c; foldM redefine (cx_redefs (pc_ctx pc)) r1).
Proof. exact (overlay_cons r pc c). Qed.
Theorem C11_redefinition_in_force (r r' : reg) (d : redef) :
  redefine r d = Ok r' →
  ∃ nd, r' = r_over r nd ∧ ∀ k, k ∈ spellings nd → r_units r' !! k = Some nd.
Proof. exact (redefine_in_force r r' d). Qed.
Example C11_colliding_redefinitions :
  yard_under [rd_ctx "new" [("ft"%string, "7"%string)]; rd_ctx "old" [("foot"%string, "10"%string)]] = Some (mkq 21 1) ∧
  yard_under [rd_ctx "new" [("foot"%string, "10"%string)]; rd_ctx "old" [("ft"%string, "7"%string)]] = Some (mkq 30 1) ∧
  yard_under [rd_ctx "both" [("foot"%string, "10"%string); ("ft"%string, "7"%string)]] = Some (mkq 21 1) ∧
  yard_under [] = Some (mkq 36 1).
Proof. exact colliding_redefinitions. Qed.
Example C11_redefinition_example :
  root_factor rd_reg "yard" = Some (mkq 36 1) ∧ root_factor rd_reg' "yard" = Some (mkq 30 1) ∧
  root_factor rd_reg' "foot" = Some (mkq 10 1) ∧ root_factor rd_reg' "hour" = root_factor rd_reg "hour" ∧
  root_factor rd_reg "hour" = Some (mkq 3600 1).
Proof. exact redefinition_example. Qed.

(** * 6. Non-vacuity *)
(** the spectroscopy context: [length] <-> [frequency] <-> [energy] *)
Example C11_spectroscopy :
  ctx_convert eval_eq sp_reg (sp_chain ∅) (mkq 500 1) (u1 "nanometer") (u1 "terahertz")
    = Ok (Some (mkq 149896229 250000)) ∧
  ctx_convert eval_eq sp_reg (sp_chain ∅) (mkq 500 1) (u1 "nanometer") (u1 "electron_volt")
    = Ok (Some (mkq 6621486190496429 2670294390000000)) ∧
  ctx_convert eval_eq sp_reg (sp_chain {[ "n"%string := number_param (mkq 3 2) ]}) (mkq 500 1) (u1 "nanometer") (u1 "terahertz")
    = Ok (Some (mkq 149896229 375000)) ∧
  ctx_convert eval_eq sp_reg (sp_chain ∅) (mkq 500 1) (u1 "nanometer") (u1 "gram") = Err EDim ∧
  bfs (pick_adj (chain_adj (sp_chain ∅))) (bfs_bound 4) {[ "[length]"%string := 1%Qc ]}
      {[ "[length]"%string := 2%Qc; "[mass]"%string := 1%Qc; "[time]"%string := (-2)%Qc ]}
    = Some [{[ "[length]"%string := 1%Qc ]}; {[ "[time]"%string := (-1)%Qc ]};
            {[ "[length]"%string := 2%Qc; "[mass]"%string := 1%Qc; "[time]"%string := (-2)%Qc ]}] ∧
  chain_active (sp_chain ∅) = true.
Proof. exact sp_examples. Qed.
(** two shortest paths: two neighbour orders, two results, both enumerated; unreachable; fuel *)
Example C11_two_shortest_paths :
  bfs (pick_adj dia) 10 0 4 = Some [0; 1; 3; 4] ∧ bfs (pick_adj dia') 10 0 4 = Some [0; 2; 3; 4] ∧
  all_shortest dia 5 0 4 = [[0; 1; 3; 4]; [0; 2; 3; 4]] ∧ bfs (pick_adj dia) 10 4 0 = None ∧
  bfs_run (pick_adj dia) 2 0 4 = BFuel.
Proof. exact dia_examples. Qed.
(** the guard of [C11_param_precedence_guarded] is met by a two-level chain *)
Example C11_guard_satisfiable : length g_chain = 2 ∧ inherit_guard g_chain = true.
Proof. exact guard_example. Qed.
