(** Properties/C11.v — context conversions apply the declared rules along a shortest chain.
    Only statements, each closed by [exact] of a lemma proved in Proofs/ContextProofs.v. *)
From stdpp Require Import gmap strings list.
From PintV Require Import Model.UC Model.Eval Model.Registry Model.Context Proofs.ContextProofs.
Close Scope string_scope.
Local Open Scope nat_scope.

(** * Path search.  [edge] is the graph, [pick node visited] ANY enumeration of the Python set
    [graph[node] - visited] ([pick_ok]); the statements hold for every such order, every node
    type and every graph. *)
Theorem C11_bfs_sound {N} `{EqDecision N} (edge : N → N → Prop) pick fuel src dst p :
  pick_ok edge pick → bfs pick fuel src dst = Some p → walk edge src dst p.
Proof. intros H. exact (bfs_sound edge pick H fuel src dst p). Qed.

Theorem C11_bfs_shortest {N} `{EqDecision N} (edge : N → N → Prop) pick fuel src dst p :
  pick_ok edge pick → bfs pick fuel src dst = Some p →
  ∀ q, walk edge src dst q → length p ≤ length q.
Proof. intros H. exact (bfs_shortest edge pick H fuel src dst p). Qed.

(** explicit fuel: [bfs_bound n = 1 + Σ_{i≤n} n^i] iterations suffice for a graph whose nodes lie
    in a list of [n] nodes (a node can be enqueued once per path reaching it, hence no
    polynomial bound) *)
Theorem C11_bfs_terminates {N} `{EqDecision N} (edge : N → N → Prop) pick (V : list N) fuel src dst :
  pick_ok edge pick → closed_in edge V → pick_nodup pick → src ∈ V →
  bfs_bound (length V) ≤ fuel → bfs_run pick fuel src dst ≠ BFuel.
Proof. intros H1 H2 H3. exact (bfs_terminates edge pick H1 V H2 H3 fuel src dst). Qed.

Theorem C11_bfs_complete {N} `{EqDecision N} (edge : N → N → Prop) pick (V : list N) fuel src dst :
  pick_ok edge pick → closed_in edge V → pick_nodup pick → src ∈ V →
  bfs_bound (length V) ≤ fuel →
  (bfs pick fuel src dst = None ↔ ∀ q, ¬ walk edge src dst q).
Proof. intros H1 H2 H3. exact (bfs_complete edge pick H1 V H2 H3 fuel src dst). Qed.
