(** Properties/C12.v — context activation is scoped, stack-like, atomic and leaves no residue.
    Only statements, each closed by a lemma of Proofs/CtxStateProofs.v.  [quirks] are the defect
    switches of Model/CtxState.v: [faithful] is pint as it is, [repaired] has every deviation off;
    a theorem that needs a switch off says so in its hypotheses (the guard), and the matching
    [_refuted] theorem exhibits a witness with the switch on. *)
From stdpp Require Import gmap strings list.
From PintV Require Import Model.UC Model.CtxState Proofs.CtxStateProofs.

(** ** The active contexts are exactly the stack the operations imply.
    For EVERY quirk setting, registry, pool of Context objects, start state and operation sequence
    (no length bound) in which no operation fails: the names of the active chain and the open
    with-blocks are those of the reference stack machine [spec_run]. *)
Theorem C12_active_is_stack qk cfg st ops :
  run_ok qk cfg st ops = true →
  (active_names (run qk cfg st ops).2, rs_frames (run qk cfg st ops).2)
  = spec_run (active_names st.2, rs_frames st.2) ops.
Proof. exact (active_is_stack qk cfg st ops). Qed.

(** ** Once a context has been left every answer equals what it was before entry.
    Full statement (property text): for every reachable state [st] (any history [ops], including
    defines and failed activations), every with-block [OWithEnter cs kw :: body ++ [closer]] whose
    body is balanced (nested blocks left normally or through an exception, enable/disable pairs,
    probes) and in which nothing fails, and EVERY probe [q]:
        answer after the block = answer before the block.
    It is proved under the guard [q_rebuild_on_hit = false] (F110) for conversions, root units and
    parsing, and additionally [q_base_cache_ctx_blind = false] (F7) for get_base_units; both
    guards are necessary ([C12_exit_restores_refuted], [C12_exit_restores_base_refuted]). *)
Theorem C12_exit_restores qk cfg os base ops cs kw body closer q :
  q_rebuild_on_hit qk = false → balanced body → is_closer closer = true →
  let st := run qk cfg (os, init_state base) ops in
  let blk := OWithEnter cs kw :: body ++ [closer] in
  run_ok qk cfg st blk = true →
  q_base_cache_ctx_blind qk = false ∨ is_pbase q = false →
  answer_of qk cfg (run qk cfg st blk).2 q = answer_of qk cfg st.2 q.
Proof. exact (exit_restores qk cfg os base ops cs kw body closer q). Qed.

(** the same for the repaired model, every probe *)
Theorem C12_exit_restores_repaired cfg os base ops cs kw body closer q :
  balanced body → is_closer closer = true →
  let st := run repaired cfg (os, init_state base) ops in
  let blk := OWithEnter cs kw :: body ++ [closer] in
  run_ok repaired cfg st blk = true →
  answer_of repaired cfg (run repaired cfg st blk).2 q = answer_of repaired cfg st.2 q.
Proof.
  intros Hb Hc st blk Hok.
  exact (exit_restores repaired cfg os base ops cs kw body closer q eq_refl Hb Hc Hok (or_introl eq_refl)).
Qed.

(** any balanced block (also enable ... disable(len)) from any state satisfying the invariant *)
Theorem C12_block_restores qk cfg st blk q :
  q_rebuild_on_hit qk = false → inv st.2 → balanced blk → run_ok qk cfg st blk = true →
  q_base_cache_ctx_blind qk = false ∨ is_pbase q = false →
  answer_of qk cfg (run qk cfg st blk).2 q = answer_of qk cfg st.2 q.
Proof. exact (block_restores qk cfg st blk q). Qed.

(** pint as it is: get_base_units is not restored (F7) *)
Theorem C12_exit_restores_base_refuted :
  ∃ cfg st blk q,
    balanced blk ∧ run_ok (QK false true false false false) cfg st blk = true ∧ run_ok faithful cfg st blk = true ∧
    answer_of (QK false true false false false) cfg (run (QK false true false false false) cfg st blk).2 q
      ≠ answer_of (QK false true false false false) cfg st.2 q ∧
    answer_of faithful cfg (run faithful cfg st blk).2 q ≠ answer_of faithful cfg st.2 q.
Proof. exact exit_restores_base_refuted. Qed.

(** pint as it is: a unit defined inside an overlay is lost when an inner block is left (F110) *)
Theorem C12_exit_restores_refuted :
  ∃ cfg st0 ops blk q,
    let qk := QK false false false true false in
    balanced blk ∧ run_ok qk cfg (run qk cfg st0 ops) blk = true ∧ run_ok faithful cfg (run faithful cfg st0 ops) blk = true ∧
    answer_of qk cfg (run qk cfg (run qk cfg st0 ops) blk).2 q ≠ answer_of qk cfg (run qk cfg st0 ops).2 q ∧
    answer_of faithful cfg (run faithful cfg (run faithful cfg st0 ops) blk).2 q
      ≠ answer_of faithful cfg (run faithful cfg st0 ops).2 q.
Proof. exact exit_restores_refuted. Qed.

(** ** Every answer depends only on the current stack, not on which combinations of contexts the
    registry has seen before (nor in which order).  Guard [q_rebuild_on_hit = false]; histories
    without [define] (a unit defined inside an overlay legitimately belongs to that combination);
    get_base_units additionally needs [q_base_cache_ctx_blind = false]. *)
Theorem C12_answers_determined_by_stack qk cfg os base ops1 ops2 q :
  q_rebuild_on_hit qk = false →
  forallb not_define ops1 = true → forallb not_define ops2 = true →
  rs_active (run qk cfg (os, init_state base) ops1).2 = rs_active (run qk cfg (os, init_state base) ops2).2 →
  q_base_cache_ctx_blind qk = false ∨ is_pbase q = false →
  answer_of qk cfg (run qk cfg (os, init_state base) ops1).2 q
  = answer_of qk cfg (run qk cfg (os, init_state base) ops2).2 q.
Proof. exact (answers_determined_by_stack qk cfg os base ops1 ops2 q). Qed.

(** ** A failed activation changes nothing.
    Guarded by [q_partial_activation = false] (F6) and [q_rebuild_on_hit = false]: the registry
    state after the failed [enable_contexts] / [with] entry IS the state before it, and with
    [q_rewrite_shared = false] so are the shared Context objects. *)
Theorem C12_failed_activation_atomic qk cfg os base ops cs kw os' s' e :
  q_partial_activation qk = false → q_rebuild_on_hit qk = false →
  let st := run qk cfg (os, init_state base) ops in
  do_enable qk cfg st.1 st.2 cs kw = (os', s', Some e) →
  s' = st.2 ∧ (q_rewrite_shared qk = false → os' = st.1).
Proof. exact (failed_activation_atomic_reachable qk cfg os base ops cs kw os' s' e). Qed.
(** as a statement about operations of the repaired model *)
Theorem C12_failed_activation_atomic_repaired cfg os base ops o e :
  let st := run repaired cfg (os, init_state base) ops in
  (∃ cs kw, o = OEnable cs kw ∨ o = OWithEnter cs kw) →
  (step repaired cfg st o).2 = OFailed e → (step repaired cfg st o).1 = st.
Proof. exact (failed_activation_atomic_repaired cfg os base ops o e). Qed.
(** pint as it is (F6) *)
Theorem C12_failed_activation_atomic_refuted :
  ∃ cfg st cs kw,
    let r := step faithful cfg st (OEnable cs kw) in
    is_failed r.2 = true ∧ active_names r.1.2 ≠ active_names st.2 ∧ n_layers r.1.2 ≠ n_layers st.2
    ∧ answer_of faithful cfg r.1.2 p_yard_inch ≠ answer_of faithful cfg st.2 p_yard_inch.
Proof. exact failed_activation_atomic_refuted. Qed.

(** ** Context objects are not modified by being activated.
    Parameterisation never writes to its argument: under every quirk setting the defaults and the
    redefinitions of every Context object are the same after any operation sequence. *)
Theorem C12_activation_pure_on_context qk cfg st ops name :
  (co_defaults <$> (run qk cfg st ops).1 !! name) = (co_defaults <$> st.1 !! name) ∧
  (co_redefs <$> (run qk cfg st ops).1 !! name) = (co_redefs <$> st.1 !! name).
Proof. exact (activation_pure_on_context qk cfg st ops name). Qed.
(** guarded by [q_rewrite_shared = false] (F8) nothing at all is written ... *)
Theorem C12_shared_context_unmodified qk cfg st ops :
  q_rewrite_shared qk = false → (run qk cfg st ops).1 = st.1.
Proof. exact (shared_context_unmodified qk cfg st ops). Qed.
(** ... and a second registry sharing the objects is not influenced *)
Theorem C12_other_registry_unaffected qk cfgs w ops :
  q_rewrite_shared qk = false → Forall (λ io : bool * op, io.1 = false) ops →
  w_r2 (wrun qk cfgs w ops) = w_r2 w ∧ w_objs (wrun qk cfgs w ops) = w_objs w.
Proof. exact (other_registry_unaffected qk cfgs w ops). Qed.
(** pint as it is (F8) *)
Theorem C12_shared_context_unmodified_refuted :
  ∃ cfg st ops, (run faithful cfg st ops).1 ≠ st.1 ∧
    (map rule_key ∘ co_rules <$> (run faithful cfg st ops).1 !! "rc") ≠ (map rule_key ∘ co_rules <$> st.1 !! "rc").
Proof. exact shared_context_unmodified_refuted. Qed.
Theorem C12_other_registry_refuted :
  ∃ cfgs w ops1 ops2 q,
    Forall (λ io : bool * op, io.1 = false) ops1 ∧ Forall (λ io : bool * op, io.1 = true) ops2 ∧
    answer_of faithful cfgs.2 (w_r2 (wrun faithful cfgs w (ops1 ++ ops2))) q
      ≠ answer_of faithful cfgs.2 (w_r2 (wrun faithful cfgs w ops2)) q.
Proof. exact other_registry_refuted. Qed.

(** ** Non-vacuity: the hypotheses are met by concrete, non-trivial histories *)
Example C12_active_is_stack_nonvacuous :
  run_ok faithful ex_cfg ex_st ex_ops = true ∧ run_ok repaired ex_cfg ex_st ex_ops = true ∧
  spec_run ([], []) ex_ops = (["rc"; "rb"; "ra"; "rc"], [2%nat]) ∧
  active_names (run faithful ex_cfg ex_st ex_ops).2 = ["rc"; "rb"; "ra"; "rc"].
Proof. exact active_is_stack_nonvacuous. Qed.
Example C12_exit_restores_nonvacuous :
  balanced ex_body ∧
  run_ok repaired ex_cfg (run repaired ex_cfg ex_st ex_prefix) (OWithEnter ["ra"] ∅ :: ex_body ++ [OWithExit]) = true ∧
  answer_of repaired ex_cfg (run repaired ex_cfg (run repaired ex_cfg ex_st ex_prefix) [OWithEnter ["ra"] ∅]).2 p_m_s
    ≠ answer_of repaired ex_cfg (run repaired ex_cfg ex_st ex_prefix).2 p_m_s ∧
  outs repaired ex_cfg ex_st ex_prefix = [ODone; ODone; ODone; ODone; OFailed EValue].
Proof. exact exit_restores_nonvacuous. Qed.
Example C12_failed_activation_nonvacuous :
  let st := run repaired ex_cfg ex_st [OEnable ["rb"] ∅; OEnable ["ra"] ∅] in
  (step repaired ex_cfg st (OEnable ["rc"; "rd"] ∅)).2 = OFailed EValue ∧
  (step repaired ex_cfg st (OWithEnter ["nosuch"] ∅)).2 = OFailed EKey ∧
  (step repaired ex_cfg st (OEnable ["re"] ∅)).2 = OFailed EAssert ∧
  active_names st.2 = ["ra"; "rb"].
Proof. exact failed_activation_nonvacuous. Qed.
Example C12_answers_determined_nonvacuous :
  rs_active (run repaired ex_cfg ex_st ex_hist1).2 = rs_active (run repaired ex_cfg ex_st ex_hist2).2 ∧
  active_names (run repaired ex_cfg ex_st ex_hist1).2 = ["rb"; "rf"] ∧
  answer_of repaired ex_cfg (run repaired ex_cfg ex_st ex_hist1).2 p_min_s = AQ (mkq 30 1) ∧
  answer_of repaired ex_cfg (run repaired ex_cfg ex_st [OEnable ["rb"] ∅; OEnable ["rf"] ∅]).2 p_min_s = AQ (mkq 45 1).
Proof. exact answers_determined_nonvacuous. Qed.
