(** Properties/C12.v — placeholder while the proofs are being moved in. *)
From PintV Require Import Model.UC Model.CtxState.
Example C12_placeholder : spec_run ([], []) [OEnable ["a"; "b"] ∅; ODisable (Some 1)] = (["a"], []).
Proof. vm_compute. reflexivity. Qed.
