(** Properties/C13.v — answers do not depend on query history: caches are transparent.
    Statements only; proofs in Proofs/CacheProofs.v, model in Model/Cache.v.

    Vocabulary.  A registry state [cstate] = declarative part [decl] (definitions [d_reg], systems,
    contexts, default system, active contexts, units of the tracked quantity) + every memo of pint
    as a finite map.  [step qk tk s o] mirrors pint (memo first, pure function of Model/Registry.v
    on a miss, store); [pure_answer tk d o] is the answer of a FRESH registry built in declarative
    state [d]; [outs]/[pure_outs] collect them along a history; [tk] is the process-wide
    [ParserHelper.from_string] table (any function).  [quirks]: the seven places where pint
    deviates (F3 F7 F9 F100 F101 F102 F103), [faithful] = all on, [repaired] = all off.
    [op_plain] = the alphabet without [define] and without redefining contexts;
    [op_guard qk] excludes, for a quirk that is ON, exactly the operation that triggers it
    ([get_base_units(.., system=..)] for F100, [default_system = None] for F102, in-place [*=] for
    F101); [sane qk] = F3 is off (its guard is the subject of C08). *)
From Coq Require Import Ascii String.
From stdpp Require Import gmap strings list.
From PintV Require Import Model.UC Model.Eval Model.Registry Model.Cache Model.CacheRun.
From PintV Require Import Proofs.CacheProofs.
From PintV Require Import Gen.DefaultDefs Gen.DefaultReg.
Open Scope string_scope.

(** ** The invariant-by-induction shape *)
(** a freshly built registry satisfies the invariant: every memo entry (there is only the
    start-up table of dimensional equivalents) is the pure function of the declarative state *)
Theorem C13_cache_inv_init tk d : d_active d = [] → d_obj d = None → cache_inv tk (init d).
Proof. exact (inv_init tk d). Qed.

(** one operation of the plain alphabet keeps it, and is answered as by a fresh registry *)
Theorem C13_cache_inv_step tk qk s o :
  sane qk → cache_inv tk s → op_plain (c_decl s) o = true → op_guard qk o = true →
  cache_inv tk (step qk tk s o).1 ∧ (step qk tk s o).2 = pure_answer tk (c_decl s) o.
Proof. exact (cache_inv_step_thm tk qk s o). Qed.

(** hence every reachable state: [fold_left] over ARBITRARY operation lists (no length bound),
    for every registry [d_reg d], every systems / contexts table, every tokenisation table *)
Theorem C13_cache_inv_reachable tk qk d ops :
  sane qk → d_active d = [] → d_obj d = None →
  forallb (λ o, op_plain d o && op_guard qk o) ops = true →
  cache_inv tk (run qk tk (init d) ops).
Proof. exact (cache_inv_reachable_thm tk qk d ops). Qed.

(** … and every answer along the history equals the fresh registry's *)
Theorem C13_cached_refines_pure tk qk d ops :
  sane qk → d_active d = [] → d_obj d = None →
  forallb (λ o, op_plain d o && op_guard qk o) ops = true →
  outs qk tk (init d) ops = pure_outs tk d ops.
Proof. exact (cached_refines_pure_thm tk qk d ops). Qed.

(** with every deviation repaired no guard is left but the alphabet *)
Theorem C13_cached_refines_pure_repaired tk d ops :
  d_active d = [] → d_obj d = None → forallb (op_plain d) ops = true →
  outs repaired tk (init d) ops = pure_outs tk d ops.
Proof.
  intros Ha Ho Hops. apply cached_refines_pure_thm; [reflexivity | exact Ha | exact Ho |].
  rewrite forallb_forall in Hops |- *. intros o Hin. rewrite (Hops o Hin). destruct o as [| | | |? [?|]| | | | |[?|]| | | | |]; reflexivity.
Qed.

(** [_guarded] for F100 / F102 / F101 on pint as it is (all three quirks ON): histories without
    an explicit [system=] argument, without [default_system = None], without in-place [*=] *)
Theorem C13_cached_refines_pure_guarded tk d ops :
  d_active d = [] → d_obj d = None →
  forallb (λ o, op_plain d o && op_guard faithful o) ops = true →
  outs (QK false true true true true true true) tk (init d) ops = pure_outs tk d ops.
Proof.
  intros Ha Ho Hops. apply cached_refines_pure_thm; [reflexivity | exact Ha | exact Ho | exact Hops].
Qed.

(** ** Beyond the plain alphabet *)
(** [define]: if the new registry resolves the names in play as the old one does (finite check
    [stableb]; [playb]: the set is closed under resolution), dimensionality, root units and
    conversion factors over those names are unchanged — the memo entries stay valid *)
Theorem C13_define_conservative r r' S :
  playb r S = true → stableb r r' S = true →
  (∀ u : uc, (∀ k, is_Some (u !! k) → is_Some (S !! k)) →
             dim_of r' u = dim_of r u ∧ root_ans r' u = root_ans r u) ∧
  (∀ src dst : uc, (∀ k, is_Some (src !! k) → is_Some (S !! k)) →
                   (∀ k, is_Some (dst !! k) → is_Some (S !! k)) →
                   conv_ans r' src dst = conv_ans r src dst).
Proof. exact (define_conservative_thm r r' S). Qed.
(** names that are keys of the unit table keep their definition under a [define] with fresh keys *)
Theorem C13_define_keeps_registered r ud k d :
  fresh_def r ud → r_units r !! k = Some d →
  resolve (add_unit_def r ud) k = Ok d ∧ resolve r k = Ok d ∧
  ∀ dk x, r_dims r !! dk = Some x → r_dims (add_unit_def r ud) !! dk = Some x.
Proof. exact (define_keeps_registered_thm r ud k d). Qed.

(** the same for the definition of a new PREFIX: the unit and dimension tables are untouched *)
Theorem C13_define_prefix_keeps_registered r p k d :
  r_units r !! k = Some d →
  resolve (add_prefix r p) k = Ok d ∧ r_dims (add_prefix r p) = r_dims r.
Proof. exact (define_prefix_keeps_registered_thm r p k d). Qed.
(** [define_conservative] applies to [bronto- = 1e33] on the default registry: every name in play
    keeps its reading, while [brontometer] — not in play before — gets one *)
Example C13_define_prefix_conservative_default :
  playb default_reg demo_names = true ∧
  stableb default_reg (add_prefix default_reg bronto) demo_names = true ∧
  bool_decide (resolve default_reg "brontometer" = resolve (add_prefix default_reg bronto) "brontometer") = false.
Proof. split; [exact default_reg_play|]. split; [exact bronto_stable | exact bronto_new_reading]. Qed.

(** F9: [get_compatible_units] after [define] — the table is only built at start-up *)
Theorem C13_compat_after_define_refuted :
  ∃ ops, outs faithful demo_tk (init demo_decl) ops ≠ pure_outs demo_tk demo_decl ops
         ∧ outs only_F9 demo_tk (init demo_decl) ops ≠ pure_outs demo_tk demo_decl ops.
Proof.
  exists h_compat_define. split; apply differs_neq; [exact (proj1 compat_define_differs)|].
  destruct single_switches as (H3 & H7 & H100 & H102 & H9 & H101 & H103). exact H9.
Qed.
Theorem C13_compat_after_define_guarded :
  answers_eqb (outs repaired demo_tk (init demo_decl) h_compat_define)
              (pure_outs demo_tk demo_decl h_compat_define) = true.
Proof. exact (agrees_eq repaired h_compat_define (proj2 compat_define_differs)). Qed.

(** F7: [get_base_units] on both sides of a context switch — [_base_units_cache] has no context key *)
Theorem C13_base_units_context_refuted :
  ∃ ops, outs faithful demo_tk (init demo_decl) ops ≠ pure_outs demo_tk demo_decl ops
         ∧ outs only_F7 demo_tk (init demo_decl) ops ≠ pure_outs demo_tk demo_decl ops.
Proof.
  exists h_base_ctx. split; apply differs_neq; [exact (proj1 base_ctx_differs)|].
  destruct single_switches as (H3 & H7 & H100 & H102 & H9 & H101 & H103). exact H7.
Qed.
Theorem C13_base_units_context_guarded :
  answers_eqb (outs repaired demo_tk (init demo_decl) h_base_ctx) (pure_outs demo_tk demo_decl h_base_ctx) = true.
Proof. exact (agrees_eq repaired h_base_ctx (proj2 base_ctx_differs)). Qed.

(** F100: … and no system key: an explicit [system=] argument fills the entry the default system reads *)
Theorem C13_base_units_system_arg_refuted :
  ∃ ops, forallb (op_plain demo_decl) ops = true ∧
         outs faithful demo_tk (init demo_decl) ops ≠ pure_outs demo_tk demo_decl ops
         ∧ outs only_F100 demo_tk (init demo_decl) ops ≠ pure_outs demo_tk demo_decl ops.
Proof.
  exists h_base_sysarg. split; [vm_compute; reflexivity|].
  split; apply differs_neq; [exact (proj1 base_sysarg_differs)|].
  destruct single_switches as (H3 & H7 & H100 & H102 & H9 & H101 & H103). exact H100.
Qed.
(** F102: [default_system = None] keeps the entries of the previous system *)
Theorem C13_base_units_system_none_refuted :
  ∃ ops, forallb (op_plain demo_decl) ops = true ∧
         outs faithful demo_tk (init demo_decl) ops ≠ pure_outs demo_tk demo_decl ops
         ∧ outs only_F102 demo_tk (init demo_decl) ops ≠ pure_outs demo_tk demo_decl ops.
Proof.
  exists h_base_none. split; [vm_compute; reflexivity|].
  split; apply differs_neq; [exact (proj1 base_none_differs)|].
  destruct single_switches as (H3 & H7 & H100 & H102 & H9 & H101 & H103). exact H102.
Qed.

(** F3: a doubly-prefixed name is accepted after the inner prefixed name was looked up *)
Theorem C13_double_prefix_after_lookup_refuted :
  ∃ ops, forallb (op_plain demo_decl) ops = true ∧
         outs faithful demo_tk (init demo_decl) ops ≠ pure_outs demo_tk demo_decl ops
         ∧ outs only_F3 demo_tk (init demo_decl) ops ≠ pure_outs demo_tk demo_decl ops.
Proof.
  exists h_double_prefix. split; [vm_compute; reflexivity|].
  split; apply differs_neq; [exact (proj1 double_prefix_differs)|].
  destruct single_switches as (H3 & H7 & H100 & H102 & H9 & H101 & H103). exact H3.
Qed.

(** F101: the per-object [_dimensionality] memo survives in-place multiplication *)
Theorem C13_object_dimensionality_refuted :
  ∃ ops, forallb (op_plain demo_decl) ops = true ∧
         outs faithful demo_tk (init demo_decl) ops ≠ pure_outs demo_tk demo_decl ops
         ∧ outs only_F101 demo_tk (init demo_decl) ops ≠ pure_outs demo_tk demo_decl ops.
Proof.
  exists h_obj_dim. split; [vm_compute; reflexivity|].
  split; apply differs_neq; [exact (proj1 obj_dim_differs)|].
  destruct single_switches as (H3 & H7 & H100 & H102 & H9 & H101 & H103). exact H101.
Qed.

(** F103: a unit defined while a redefining context is active is gone after the next switch *)
Theorem C13_define_in_context_refuted :
  ∃ ops, outs faithful demo_tk (init demo_decl) ops ≠ pure_outs demo_tk demo_decl ops
         ∧ outs only_F103 demo_tk (init demo_decl) ops ≠ pure_outs demo_tk demo_decl ops.
Proof.
  exists h_define_in_ctx. split; apply differs_neq; [exact (proj1 define_in_ctx_differs)|].
  destruct single_switches as (H3 & H7 & H100 & H102 & H9 & H101 & H103). exact H103.
Qed.
(** F104: [define_conservative] needs its stability hypothesis: a definition under FRESH keys
    ([am = 5 second]) gives the old spelling [dam] the earlier reading deci+am; the memo keyed by
    the spelling is stale — with every switch on or off *)
Theorem C13_define_shadowing_refuted :
  fresh_def default_reg am ∧
  stableb default_reg (add_unit_def default_reg am) {[ "dam" := tt ]} = false ∧
  ∃ ops, outs faithful demo_tk (init demo_decl) ops ≠ pure_outs demo_tk demo_decl ops
         ∧ outs repaired demo_tk (init demo_decl) ops ≠ pure_outs demo_tk demo_decl ops.
Proof.
  destruct shadow_differs as (H1 & H2 & H3).
  split; [exact am_fresh|]. split; [exact H3|].
  exists h_shadow. split; apply differs_neq; assumption.
Qed.

(** all seven witness histories are answered like a fresh registry once the deviations are off *)
Theorem C13_witnesses_repaired :
  let ok ops := answers_eqb (outs repaired demo_tk (init demo_decl) ops) (pure_outs demo_tk demo_decl ops) = true in
  ok h_base_ctx ∧ ok h_base_sysarg ∧ ok h_base_none ∧ ok h_double_prefix ∧ ok h_compat_define ∧
  ok h_obj_dim ∧ ok h_define_in_ctx.
Proof.
  split; [exact (agrees_eq _ _ (proj2 base_ctx_differs))|].
  split; [exact (agrees_eq _ _ (proj2 base_sysarg_differs))|].
  split; [exact (agrees_eq _ _ (proj2 base_none_differs))|].
  split; [exact (agrees_eq _ _ (proj2 double_prefix_differs))|].
  split; [exact (agrees_eq _ _ (proj2 compat_define_differs))|].
  split; [exact (agrees_eq _ _ (proj2 obj_dim_differs)) | exact (agrees_eq _ _ (proj2 define_in_ctx_differs))].
Qed.

(** ** Registries are isolated: two states share nothing but immutable data *)
Theorem C13_registries_isolated qk tk ops w :
  w_r1 (wrun qk tk w ops) = run qk tk (w_r1 w) (project false ops) ∧
  w_r2 (wrun qk tk w ops) = run qk tk (w_r2 w) (project true ops).
Proof. exact (registries_isolated_thm qk tk ops w). Qed.
Theorem C13_answers_isolated qk tk ops w :
  wouts_of false qk tk w ops = outs qk tk (w_r1 w) (project false ops) ∧
  wouts_of true qk tk w ops = outs qk tk (w_r2 w) (project true ops).
Proof. exact (answers_isolated_thm qk tk ops w). Qed.

(** ** Non-vacuity on the registry regenerated from /repo *)
(** the hypotheses of the invariant theorem are met by a 17-step history over the default
    registry (conversions asked twice, base units across a plain context and a system change,
    compatible units, a lazily prefixed name, the tracked quantity, a refused conversion) that is
    answered from non-empty memos — on pint AS IT IS (all quirks on but F3) *)
Example C13_plain_history_in_alphabet :
  d_active demo_decl = [] ∧ d_obj demo_decl = None ∧
  forallb (λ o, op_plain demo_decl o && op_guard faithful o) h_plain = true.
Proof. split; [vm_compute; reflexivity|]. split; [vm_compute; reflexivity|]. exact h_plain_in_alphabet. Qed.
Example C13_plain_history_answers : h_plain_checks = true.
Proof. exact h_plain_example. Qed.
(** [define_conservative] applies to the default registry and the new unit [smoot = 67 inch]:
    a set of > 1000 names in play (all table keys, all referenced names such as [cm], queried
    names such as [kiloinch]) is closed and stable *)
Example C13_define_conservative_default :
  playb default_reg demo_names = true ∧
  stableb default_reg (add_unit_def default_reg smoot) demo_names = true ∧
  fresh_def default_reg smoot ∧
  inS demo_names "kiloinch" && inS demo_names "cm" && inS demo_names "pixels_per_centimeter" &&
  Nat.ltb 1000 (length (map_to_list demo_names)) = true.
Proof.
  split; [exact default_reg_play|]. split; [exact smoot_stable|]. split; [exact smoot_fresh|].
  exact demo_names_nontrivial.
Qed.
