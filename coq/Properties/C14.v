(** Properties/C14.v — systems and groups select base units and members exactly as declared.
    Statements only; proofs in Proofs/GroupsProofs.v and Proofs/SystemsProofs.v.  The model
    (Model/Groups.v, Model/Systems.v) carries pint's deviations behind the switches of [quirks]:
    [faithful] is pint as it is, [repaired] has every switch off. *)
From stdpp Require Import relations.
From PintV Require Import Model.UC Model.Eval Model.Registry Model.Groups Model.Systems.
From PintV Require Import Proofs.UCProofs Proofs.RegistryProofs Proofs.GroupsProofs Proofs.SystemsProofs.
From PintV Require Import Proofs.RootProofs Proofs.FactorProofs Proofs.RewriteProofs Proofs.BaseUnitsProofs.
From PintV Require Import Gen.DefaultDefs Gen.DefaultReg.
Open Scope string_scope.

(** ** Groups *)

(** [members_is_closure]: on every acyclic group graph (memos absent or valid), [u] is a member of
    [n] iff some group reachable from [n] through "uses" owns [u]; the walk ends within the
    explicit fuel [fuel_of st = S (size st)]. *)
Theorem C14_members_is_closure st n :
  closed_on g_used st → acyclic st → memo_valid st → is_Some (st !! n) →
  ∃ v, members_val st n = Ok v
       ∧ ∀ u, u ∈ v ↔ ∃ m g, rtc (uses st) n m ∧ st !! m = Some g ∧ u ∈ g_units g.
Proof. exact (members_val_closure st n). Qed.
(** the [members] property itself (memo first) returns that closure under the invariant *)
Theorem C14_members_reads_closure st n :
  ginv st → is_Some (st !! n) → ∃ v, (members st n).2 = Ok v ∧ ∀ u, u ∈ v ↔ in_closure st n u.
Proof. exact (members_closure st n). Qed.

(** [group_memo_valid], full for the repaired behaviour: after EVERY sequence of group edits and
    reads — failing edits included — each memo is absent or equal to the closure, the graph is
    acyclic, closed, and [_used_by] mirrors [_used_groups]. *)
Theorem C14_group_memo_valid qk os st :
  q_partial_edit qk = false → q_selfloop qk = false → ginv st → ginv (grun qk st os).
Proof. intros Q1 Q2. exact (grun_ginv qk Q1 Q2 os st). Qed.
(** … for pint as it is: along every sequence of edits that all succeed and never pass a group its
    own name (the guard excludes exactly F65 and F66) *)
Theorem C14_group_memo_valid_guarded qk os st st' :
  ginv st → Forall (safe qk) os → grun_ok qk st os = Some st' → ginv st'.
Proof. exact (grun_ok_ginv qk os st st'). Qed.
(** F66: a failing multi-argument edit keeps its partial effect and a stale memo *)
Theorem C14_group_memo_valid_refuted :
  ∃ os, Forall (safe faithful) os ∧ ¬ memo_valid (grun faithful init_groups os).
Proof. exact memo_valid_refuted. Qed.

(** [no_cycles]: [add_groups] keeps "uses" acyclic — unless the group is handed its own name (F65),
    which the repaired check refuses — … *)
Theorem C14_no_cycles qk st n gs :
  gstruct st → (q_selfloop qk = false ∨ n ∉ gs) → acyclic (add_groups qk st n gs).1.
Proof. exact (add_groups_acyclic qk st n gs). Qed.
Theorem C14_no_cycles_refuted : ∃ st n, ginv st ∧ ¬ acyclic (add_groups faithful st n [n]).1.
Proof. exact add_groups_selfloop_refuted. Qed.
(** … so both walks (down through [_used_groups], up through [_used_by]) terminate: the explicit
    measure is the number of groups not yet on the current path, bounded by [fuel_of st] *)
Theorem C14_walk_fuel_bound next st n :
  closed_on next st → acyclic_on next st → is_Some (st !! n) →
  ∃ r, reach next (fuel_of st) st n = Ok r ∧ ∀ x, x ∈ r ↔ rtc (edge next st) n x.
Proof. exact (reach_fuel_enough next st n). Qed.
(** the upward invalidation reaches exactly the groups whose closure contains the edited one *)
Theorem C14_invalidate_reaches_users st n :
  gstruct st → is_Some (st !! n) →
  ∃ zs, invalidate st n = (clear zs st, Ok tt) ∧ ∀ x, x ∈ zs ↔ rtc (uses st) x n.
Proof. exact (invalidate_ok st n). Qed.

(** ** Systems: members *)

(** [system_members_union], guarded: computed members = union of the members of the used groups
    (no memo yet, or the repaired behaviour that keeps none) *)
Theorem C14_system_members_union_guarded qk st name s :
  ss_systems st !! name = Some s → ginv (ss_groups st) →
  s_memo s = None ∨ q_sys_memo_stale qk = false →
  ∃ v, (sys_members qk st name).2 = Ok v
       ∧ ∀ u, u ∈ v ↔ ∃ g, g ∈ s_used s ∧ is_Some (ss_groups st !! g) ∧ in_closure (ss_groups st) g u.
Proof. exact (sys_members_union qk st name s). Qed.
(** full for a static group graph: reading again gives the same set, which is still the union *)
Theorem C14_system_members_union_static qk st name s v :
  ss_systems st !! name = Some s → ginv (ss_groups st) → s_memo s = None →
  (sys_members qk st name).2 = Ok v →
  let st1 := (sys_members qk st name).1 in
  (sys_members qk st1 name).2 = Ok v ∧ same_core (ss_groups st) (ss_groups st1) ∧ ginv (ss_groups st1)
  ∧ ∀ u, u ∈ v ↔ sys_union (ss_groups st1) s u.
Proof. exact (sys_members_static qk st name s v). Qed.
(** F10: under a later group edit the memo is served although it is no longer the union *)
Theorem C14_system_members_union_refuted :
  ∃ st name s v u, ss_systems st !! name = Some s ∧ ginv (ss_groups st)
    ∧ (sys_members faithful st name).2 = Ok v ∧ sys_union (ss_groups st) s u ∧ u ∉ v.
Proof. exact sys_members_stale_refuted. Qed.

(** ** Systems: base units *)

(** [base_units_sound], units (full, for rules whose new unit has a single root dimension): the
    answer mentions only declared base units and root units of the input the system does not replace *)
Theorem C14_base_units_only_declared r s a f ex dest fu B exu :
  single_root s → root_of r a = Ok (fu, B, exu) → base_units_in r s a = Ok (f, ex, dest) →
  ∀ k, is_Some (dest !! k) →
    (∃ o e, s_base s !! o = Some {[ k := e ]}) ∨ (is_Some (B !! k) ∧ s_base s !! k = None).
Proof.
  intros SR HR HB k Hk. destruct (base_units_keys r s a f ex dest fu B exu HR HB k Hk) as [D|U]; [left|right; exact U].
  exact (declared_single s k SR D).
Qed.
(** [base_units_sound], dimensionality and value — the earlier PARTIAL form, kept; the full
    statements are [C14_base_units_sound], [C14_base_units_idempotent] and
    [C14_to_base_units_preserves_value] below.  Full statement: [dim b = dim u],
    [f·⟦b⟧ = ⟦u⟧] and [get_base_units s b = (1, b)].  Proved: the answer has the dimensionality of
    the ROOT units of the input, and its factor is the root factor times the registry's conversion
    factor from those root units to the answer; asking again returns the same units whenever the
    answer's root units are those of the input.  The missing link — root units preserve
    dimensionality and conversion factors are the exact ratio of root factors — is the
    homomorphism property of [root_of] (property C02), checked here by the value, dimensionality
    and idempotence oracles on every unit x system. *)
Theorem C14_base_units_sound_partial r s a f ex dest :
  base_units_in r s a = Ok (f, ex, dest) →
  ∃ fu B exu c exc d,
    root_of r a = Ok (fu, B, exu) ∧ conv_factor r B dest = Ok (c, exc)
    ∧ dim_of r B = Ok d ∧ dim_of r dest = Ok d
    ∧ f = match fu, c with Some x, Some y => Some (x * y)%Qc | _, _ => None end
    ∧ ex = exu && exc.
Proof. exact (base_units_dim_value r s a f ex dest). Qed.
Theorem C14_base_units_idempotent_partial r s a f ex dest fu B exu fb exb :
  root_of r a = Ok (fu, B, exu) → base_units_in r s a = Ok (f, ex, dest) →
  root_of r dest = Ok (fb, B, exb) →
  ∃ f' ex', base_units_in r s dest = Ok (f', ex', dest).
Proof. exact (base_units_idem_units r s a f ex dest fu B exu fb exb). Qed.
(** [base_units_sound] — FULL.  Side conditions, all decidable and checked by computation on the registry and
    systems regenerated from /repo ([C14_base_units_sound_nonvacuous]):
      [reg_nz r]  every rational scale is non-zero            ([reg_nzb]),
      [reg_ok r]  a base unit is registered under its own name, references are well-sorted ([reg_okb]),
      [table_solves r s]  every replacement of the system has exactly the replaced root unit as its root
                  units, i.e. it solves its rule              ([table_solvesb]; automatic for single-form rules:
                  [C14_rule_single_solves_root]; false for the F11 tables, true for the repaired inversion),
      [exact_unit r u F B]  the symbolic root factor [F] of [u] has integer exponents over rational scales —
                  the "rational units" of C02; then the root factor is the rational [mprod (gscale r) F].
    (1) units and dimensionality, for every input: the answer has exactly the root units of the input, and
        the dimensionality of the input. *)
Theorem C14_base_units_same_root_units_and_dim r s a f ex dest :
  reg_ok r → table_solves r s → base_units_in r s a = Ok (f, ex, dest) →
  ∃ fu B exu Fa Fd,
    root_of r a = Ok (fu, B, exu) ∧ dest = substitute (s_base s) B
    ∧ rsem r a = Some (Fa, B) ∧ rsem r dest = Some (Fd, B)
    ∧ ∀ d, nodim a → dim_of r a = Ok d → dim_of r dest = Ok d.
Proof. exact (base_units_root_units r s a f ex dest). Qed.
(** (2) value: the factor is the ratio of the root factors, [f · ⟦dest⟧ = ⟦a⟧] *)
Theorem C14_base_units_sound r s a f ex dest Fa B Fd B' :
  reg_nz r → reg_ok r → table_solves r s →
  base_units_in r s a = Ok (f, ex, dest) →
  exact_unit r a Fa B → exact_unit r dest Fd B' →
  B' = B ∧ f = Some (mprod (gscale r) Fa / mprod (gscale r) Fd)%Qc
  ∧ (mprod (gscale r) Fa / mprod (gscale r) Fd * mprod (gscale r) Fd = mprod (gscale r) Fa)%Qc.
Proof. exact (base_units_value r s a f ex dest Fa B Fd B'). Qed.
(** (3) idempotent — FULL: the answer is a fixed point, with factor exactly 1 *)
Theorem C14_base_units_idempotent r s a f ex dest Fd B' :
  reg_nz r → reg_ok r → table_solves r s →
  base_units_in r s a = Ok (f, ex, dest) → exact_unit r dest Fd B' →
  ∃ ex', base_units_in r s dest = Ok (Some 1%Qc, ex', dest).
Proof. exact (base_units_idempotent r s a f ex dest Fd B'). Qed.
(** (4) [Quantity.to_base_units] multiplies the magnitude by the conversion factor input → answer; the
    physical value [m · ⟦a⟧] is preserved under any system *)
Theorem C14_to_base_units_preserves_value r s a f ex dest Fa B Fd B' c e :
  reg_nz r → UC.wf a →
  base_units_in r s a = Ok (f, ex, dest) →
  exact_unit r a Fa B → exact_unit r dest Fd B' →
  conv_factor r a dest = Ok (Some c, e) →
  ∀ m : Qc, (m * c * mprod (gscale r) Fd = m * mprod (gscale r) Fa)%Qc.
Proof. exact (to_base_units_value r s a f ex dest Fa B Fd B' c e). Qed.
Theorem C14_table_solves_decidable r s : table_solvesb r s = true → table_solves r s.
Proof. exact (table_solvesb_spec r s). Qed.
Theorem C14_rule_single_solves_root qk r new o rep :
  rule_entry qk r new None = Ok (o, rep) → ∃ Fr, rsem r rep = Some (Fr, {[ o := 1%Qc ]}).
Proof. exact (rule_single_solves_rsem qk r new o rep). Qed.
(** the side conditions hold for the bundled registry and EVERY bundled system (SI, mks, cgs, atomic,
    Planck, imperial, US), and the per-unit hypotheses for foot under cgs (762/25 centimeter) *)
Example C14_base_units_sound_nonvacuous : (default_side_ok && default_foot_cgs_ok) = true.
Proof. vm_cast_no_check (eq_refl true). Qed.

(** the replacement table solves the rule equations: for the single form [new], the replaced root
    unit is [new] to the inverse power; for [new : old] with the corrected exponents, substituting
    the root expansion of [new] into the replacement of [old] gives [old] back *)
Theorem C14_rule_single_solves qk r new o rep :
  rule_entry qk r new None = Ok (o, rep) →
  ∃ fn exn v, root_of r {[ new := 1%Qc ]} = Ok (fn, {[ o := v ]}, exn) ∧ rep = {[ new := (1 / v)%Qc ]}
              ∧ (v ≠ 0%Qc → uc_pow {[ o := v ]} (1 / v)%Qc = {[ o := 1%Qc ]}).
Proof. exact (rule_entry_single_solves qk r new o rep). Qed.
Theorem C14_rule_inversion_solves_repaired r new o o' rep :
  rule_entry repaired r new (Some o) = Ok (o', rep) →
  ∃ fn Bn exn e,
    root_of r {[ new := 1%Qc ]} = Ok (fn, Bn, exn) ∧ o' = o ∧ rep !! new = Some e
    ∧ (UC.wf Bn → Bn !! new = None → uc_mul (uc_pow Bn e) (delete new rep) = {[ o := 1%Qc ]}).
Proof. exact (rule_entry_solves r new o o' rep). Qed.
(** F11: the coded inversion of [gee : meter] gives [meter = gee·second^(1/2)], which has not the
    dimensionality of meter, and conversions under the system raise; [-value/value_old] repairs it *)
Theorem C14_rule_inversion_refuted :
  rule_dim_ok faithful tiny_reg "gee: meter" = false ∧ f11_base faithful = Err EDim
  ∧ rule_dim_ok repaired tiny_reg "gee: meter" = true
  ∧ match f11_base repaired with
    | Ok (Some q, true, b) => uc_eqb b (mkuc [("gee", mkq 1 1); ("second", mkq 2 1)])
    | _ => false end = true.
Proof. exact rule_inversion_refuted. Qed.

(** ** The default system *)

(** [default_system_immediate]: once the setter accepted a name, the cache is empty and every
    query is the cache-free computation for the new system *)
Theorem C14_default_system_immediate qk r st n a :
  is_Some (ss_systems st !! n) →
  let st' := (set_default qk st (Some n)).1 in
  ss_default st' = Some n ∧ ss_cache st' = []
  ∧ (get_base_units qk r st' a true None).2 = base_units_pure r st' (Some n) a.
Proof. exact (default_system_immediate qk r st n a). Qed.
(** … and it stays so (repaired): no operation stores an answer of another system, the setter
    always clears, hence every default-system query equals the cache-free computation *)
Theorem C14_cache_never_stale qk r st a chk sys n :
  q_cache_foreign qk = false → q_cache_none qk = false → cache_ok r st →
  cache_ok r (get_base_units qk r st a chk sys).1 ∧ cache_ok r (set_default qk st n).1
  ∧ (get_base_units qk r st a chk None).2 = base_units_pure r st (ss_default st) a.
Proof.
  intros Q1 Q2 CO. split; [exact (proj1 (get_base_units_cache_ok qk r st a chk sys Q1 CO))|].
  split; [exact (set_default_cache_ok qk r st n Q2 CO)|].
  exact (proj2 (get_base_units_cache_ok qk r st a chk None Q1 CO) eq_refl).
Qed.
(** F67 / F68: as coded, an answer computed for an explicitly named other system, or cached before
    [default_system = None], is served for the default system *)
Theorem C14_default_system_immediate_refuted :
  units_are (f67_run faithful) [("centimeter", mkq 1 1)] = true
  ∧ units_are (f67_run repaired) [("meter", mkq 1 1)] = true
  ∧ units_are (f68_run faithful) [("kilogram", mkq 1 1)] = true
  ∧ units_are (f68_run repaired) [("gram", mkq 1 1)] = true.
Proof. exact cache_stale_refuted. Qed.

(** ** Restricted compatible units, attribute lookup *)

(** [restricted_compatible_exact] *)
Theorem C14_restricted_compatible_exact_group qk r tbl st a n names :
  ginv (ss_groups st) → ss_systems st !! n = None → is_Some (ss_groups st !! n) →
  compat_names r tbl a = Ok names →
  ∃ v, (get_compatible qk r tbl st a (Some n)).2 = Ok v
       ∧ ∀ u, u ∈ v ↔ u ∈ names ∧ in_closure (ss_groups st) n u.
Proof. exact (compat_group_exact qk r tbl st a n names). Qed.
Theorem C14_restricted_compatible_exact_system qk r tbl st a n s names m :
  ss_systems st !! n = Some s → (sys_members qk st n).2 = Ok m → compat_names r tbl a = Ok names →
  ∃ v, (get_compatible qk r tbl st a (Some n)).2 = Ok v ∧ ∀ u, u ∈ v ↔ u ∈ names ∧ u ∈ m.
Proof. exact (compat_system_exact qk r tbl st a n s names m). Qed.
(** the unrestricted listing: the names recorded under the dimensionality of the input *)
Theorem C14_compatible_same_dimension r tbl a names :
  compat_names r tbl a = Ok names →
  (a = ∅ ∧ names = []) ∨ (a ≠ ∅ ∧ ∃ d, dim_of r a = Ok d ∧ ∀ u, u ∈ names ↔ (u, d) ∈ tbl).
Proof. exact (compat_names_spec r tbl a names). Qed.
Theorem C14_restricted_compatible_unknown qk r tbl st a n names :
  ss_systems st !! n = None → ss_groups st !! n = None → compat_names r tbl a = Ok names →
  (get_compatible qk r tbl st a (Some n)).2 = Err EValue.
Proof. exact (compat_unknown qk r tbl st a n names). Qed.

(** [system_attr_lookup] *)
Theorem C14_system_attr_lookup r st sysname item :
  is_Some (ss_systems st !! sysname) → attr_refused sysname = false → attr_refused item = false →
  (∀ n, attr_refused (sysname ++ "_" ++ item) = false → get_name r (sysname ++ "_" ++ item) = Ok n →
        sys_attr r st sysname item = Ok n)
  ∧ (∀ e, get_name r (sysname ++ "_" ++ item) = Err e → sys_attr r st sysname item = get_name r item).
Proof.
  intros Hs R1 R2. split.
  - intros n R3 H. exact (sys_attr_variant r st sysname item n Hs R1 R2 R3 H).
  - intros e H. exact (sys_attr_plain r st sysname item e Hs R1 R2 H).
Qed.

(** ** Non-vacuity on the groups and systems regenerated from /repo (T1) *)
Example C14_default_state_nonvacuous :
  ( match default_built.2 with Ok _ => true | Err _ => false end
    && all_groups_walk (ss_groups default_state)                (* every walk ends within fuel_of *)
    && all_single_root default_state                             (* the guard of base_units_only_declared *)
    && in_members default_warm "AvoirdupoisUK" "UK_ton"
    && in_members default_warm "AvoirdupoisUK" "pound"          (* inherited from Avoirdupois *)
    && negb (in_members default_warm "Avoirdupois" "UK_ton")
    && in_members default_warm "root" "UK_ton"                  (* transitively *)
    && in_members default_warm "international" "meter"          (* orphans land in the default group *)
    && negb (in_members default_warm "international" "pound")
    && in_sys_members faithful default_state "imperial" "imperial_pint"
    && negb (in_sys_members faithful default_state "imperial" "meter") ) = true.
Proof. vm_cast_no_check (eq_refl true). Qed.
Example C14_default_base_units_nonvacuous :
  ( base_is (get_base_units faithful default_reg default_state {[ "foot" := 1%Qc ]} true (Some "cgs")).2
            (mkq 762 25) [("centimeter", mkq 1 1)]
    && base_is (get_base_units faithful default_reg (set_default faithful default_state (Some "imperial")).1
                 (mkuc [("pound", mkq 1 1); ("gallon", mkq (-1) 1)]) true None).2
            (mkq 15552 77) [("pound", mkq 1 1); ("yard", mkq (-3) 1)]
    && compat_is (get_compatible faithful default_reg default_dimeq default_state {[ "meter" := 1%Qc ]} (Some "imperial")).2
            ["thou"; "inch"; "hand"; "foot"; "yard"; "mile"]
    && name_is (sys_attr default_reg default_state "imperial" "pint") "imperial_pint"
    && name_is (sys_attr default_reg default_state "imperial" "pints") "imperial_pint"   (* resolved by the parser: a plural *)
    && name_is (sys_attr default_reg default_state "US" "pint") "pint"
    && name_is (sys_attr default_reg default_state "US" "ton") "US_ton" ) = true.
Proof. vm_cast_no_check (eq_refl true). Qed.
