(** Properties/C15.v — unit-rewriting helpers preserve the physical quantity.
    Statements only; proofs in Proofs/RewriteProofs.v over Model/Rewrite.v.  Every theorem holds
    for EVERY registry [r] satisfying the stated decidable side conditions ([reg_nzb], [reg_okb],
    [exact_unitb], [nodimb], [wfb] decide them) and for every quantity.

    Vocabulary.  [same_quantity r q q']: both unit containers have the same dimensionality, both
    are "rational units" ([exact_unit], C02) and magnitude x factor-to-root-units agree (finite
    magnitudes; NaN stays NaN).  [mergeable r u1 u2]: [_get_dimensionality_ratio] answers a
    non-zero power.  A quantity carries its unit names in dict order ([rq_ord]). *)
From Coq Require Import ZArith Qcabs.
From PintV Require Import Model.UC Model.Eval Model.Registry Model.Rewrite.
From PintV Require Import Proofs.UCProofs Proofs.RegistryProofs Proofs.RootProofs Proofs.FactorProofs Proofs.RewriteProofs.
From PintV Require Import Gen.DefaultDefs Gen.DefaultReg.
Open Scope string_scope.

(** ** helpers_preserve *)
(** converting to ANY container of the same dimensionality is defined and keeps the quantity *)
Theorem C15_to_preserves r q ord dst d Fs Bs Fd Bd :
  reg_nz r → wf (rq_u q) → exact_unit r (rq_u q) Fs Bs → exact_unit r dst Fd Bd →
  dim_of r (rq_u q) = Ok d → dim_of r dst = Ok d →
  ∃ q', rq_to r q ord dst = Ok q' ∧ rq_u q' = dst ∧ rq_ord q' = ord ∧ same_quantity r q q'.
Proof. exact (to_same_quantity r q ord dst d Fs Bs Fd Bd). Qed.
(** the root units of a container have its dimensionality (and are their own root units) … *)
Theorem C15_root_units_same_dimensionality r a F B d :
  reg_ok r → nodim a → rsem r a = Some (F, B) → dim_of r a = Ok d →
  dim_of r B = Ok d ∧ rsem r B = Some (∅, B).
Proof. exact (root_units_dim r a F B d). Qed.
(** … hence [to_root_units] is defined and keeps the quantity *)
Theorem C15_to_root_units_preserves r q F B d :
  reg_nz r → reg_ok r → wf (rq_u q) → nodim (rq_u q) → exact_unit r (rq_u q) F B → dim_of r (rq_u q) = Ok d →
  ∃ q', to_root_units r q = Ok q' ∧ rq_u q' = B ∧ same_quantity r q q'.
Proof. exact (to_root_same_quantity r q F B d). Qed.
(** [to_base_units]: whatever the active system answers (C14), if it has the input's dimensionality *)
Theorem C15_to_base_units_preserves r gbu q b d Fs Bs Fd Bd :
  reg_nz r → wf (rq_u q) → gbu (rq_u q) = Ok b →
  exact_unit r (rq_u q) Fs Bs → exact_unit r b Fd Bd → dim_of r (rq_u q) = Ok d → dim_of r b = Ok d →
  ∃ q', to_base_units r gbu q = Ok q' ∧ rq_u q' = b ∧ same_quantity r q q'.
Proof. exact (to_base_same_quantity r gbu q b d Fs Bs Fd Bd). Qed.
(** [_get_reduced_units] keeps the dimensionality, uses only units of the input … *)
Theorem C15_reduced_units_same_dimensionality r ord a b d :
  get_reduced_units r ord a = Ok b → wf a → dim_of r a = Ok d →
  wf b ∧ dim_of r b = Ok d ∧ ∀ k, is_Some (b !! k) → is_Some (a !! k).
Proof.
  intros H W D. destruct (reduced_units_dim r ord a b d H W D) as [H1 H2].
  split; [exact H1|]. split; [exact H2 | exact (reduced_units_subset r ord a b H)].
Qed.
(** … so the conversion to it is defined and keeps the quantity (when the reduced container is
    still a rational unit: thirds of a volume are not) *)
Theorem C15_reduced_conversion_defined r q new d F B F' B' :
  reg_nz r → wf (rq_u q) → exact_unit r (rq_u q) F B → dim_of r (rq_u q) = Ok d →
  get_reduced_units r (rq_ord q) (rq_u q) = Ok new → exact_unit r new F' B' →
  ∃ q', rq_to r q (present new (rq_ord q)) new = Ok q' ∧ rq_u q' = new ∧ same_quantity r q q'.
Proof. exact (reduced_units_same_quantity r q new d F B F' B'). Qed.
Theorem C15_to_reduced_units_preserves r q q' d F B :
  reg_nz r → reg_ok r → wf (rq_u q) → nodim (rq_u q) → exact_unit r (rq_u q) F B → dim_of r (rq_u q) = Ok d →
  to_reduced_units r q = Ok q' → (∃ F' B', exact_unit r (rq_u q') F' B') → same_quantity r q q'.
Proof. exact (to_reduced_same_quantity r q q' d F B). Qed.
(** [to_compact]: renaming one unit into a spelling of the same dimensionality keeps the
    dimensionality ([dim_of_mul], [dim_of_pow]); with it the value is kept *)
Theorem C15_rename_same_dimensionality r bd u nu nd d :
  wf bd → (nu = u ∨ bd !! nu = None) → dim1 r nu = dim1 r u →
  dim_of r bd = Ok d → uc_rename bd u nu = Some nd → dim_of r nd = Ok d.
Proof. exact (rename_dim r bd u nu nd d). Qed.
Theorem C15_to_compact_preserves r q q' d F B F' B' :
  reg_nz r → wf (rq_u q) → exact_unit r (rq_u q) F B → dim_of r (rq_u q) = Ok d →
  to_compact r q = Ok q' → dim_of r (rq_u q') = Ok d → exact_unit r (rq_u q') F' B' → same_quantity r q q'.
Proof. exact (compact_same_quantity r q q' d F B F' B'). Qed.
(** [to_preferred]: the integer programme is a parameter of which only "same dimensionality or
    the input" is assumed; the proportionality test of [find_simple] uses the product, as pint does
    since the repair of F96 (75b5cc1): the theorem needs no guard *)
Theorem C15_find_simple_same_dimensionality r sd prefs u :
  wf sd → find_simple false r sd prefs = Ok (Some u) → dim_of r u = Ok sd.
Proof. exact (find_simple_sound r sd prefs u). Qed.
Theorem C15_to_preferred_preserves (mip : reg → rq → list uc → uc) r q q' prefs d F B :
  (∀ r q prefs, mip r q prefs = rq_u q ∨ dim_of r (mip r q prefs) = dim_of r (rq_u q)) →
  reg_nz r → wf (rq_u q) → exact_unit r (rq_u q) F B → dim_of r (rq_u q) = Ok d →
  to_preferred mip false r q prefs = Ok q' → (∃ F' B', exact_unit r (rq_u q') F' B') → same_quantity r q q'.
Proof. intros H. exact (to_preferred_same_quantity mip H r q q' prefs d F B). Qed.
(** the defect repaired by 75b5cc1 (F96): with the power ([p_exps_tail[i] ** s_exps_head]) the
    theorem fails — (m/s)**2 is picked for m**2*s and the conversion raises DimensionalityError … *)
Theorem C15_to_preferred_preserves_refuted :
  ∃ q prefs, wfb (rq_u q) = true ∧ exact_unitb default_reg (rq_u q) = true ∧
    (∀ mip, to_preferred mip true default_reg q prefs = Err EDim) ∧
    (* with the product in the test no simple match is claimed and the programme is consulted *)
    match to_preferred (λ _ q _, rq_u q) false default_reg q prefs with
    | Ok q' => uc_eqb (rq_u q') (rq_u q) && mag_eqb (rq_m q') (rq_m q)
    | Err _ => false
    end = true.
Proof.
  exists (RQ (MFin 1%Qc) ["meter"; "second"] (mkuc [("meter", mkq 2 1); ("second", mkq 1 1)])),
         (cons (mkuc [("meter", mkq 1 1); ("second", mkq (-1) 1)]) nil).
  split; [vm_compute; reflexivity|]. split; [vm_compute; reflexivity|].
  split; [intros mip|]; vm_compute; reflexivity.
Qed.
(** … and held only under the guard "the quantity's alphabetically first dimension has exponent 1" *)
Theorem C15_to_preferred_preserves_guarded (mip : reg → rq → list uc → uc) r q q' prefs d F B :
  (∀ r q prefs, mip r q prefs = rq_u q ∨ dim_of r (mip r q prefs) = dim_of r (rq_u q)) →
  reg_nz r → wf (rq_u q) → exact_unit r (rq_u q) F B → dim_of r (rq_u q) = Ok d → simple_guard d →
  to_preferred mip true r q prefs = Ok q' → (∃ F' B', exact_unit r (rq_u q') F' B') → same_quantity r q q'.
Proof. intros H. exact (to_preferred_same_quantity_guarded mip H r q q' prefs d F B). Qed.

(** ** ito_eq_to: each in-place form leaves the object equal to what the functional form returns *)
Theorem C15_ito_eq_to (mip : reg → rq → list uc → uc) pd r gbu q prefs :
  ito_root_units r q = to_root_units r q ∧ ito_base_units r gbu q = to_base_units r gbu q
  ∧ ito_reduced_units r q = to_reduced_units r q ∧ ito_preferred mip pd r q prefs = to_preferred mip pd r q prefs.
Proof.
  split; [exact (ito_root_eq_to r q)|]. split; [exact (ito_base_eq_to r gbu q)|].
  split; [exact (ito_reduced_eq_to r q) | exact (ito_preferred_eq_to mip pd r q prefs)].
Qed.

(** ** reduced_no_mergeable_pair *)
Theorem C15_ratio_solves r u1 u2 p :
  u1 ≠ u2 → dim_ratio r u1 u2 = Ok (Some p) →
  ∃ D1 D2, dim1 r u1 = Ok D1 ∧ dim1 r u2 = Ok D2 ∧ uc_pow D1 p = D2.
Proof. exact (dim_ratio_spec r u1 u2 p). Qed.
Theorem C15_reduced_no_mergeable_pair r ord a b :
  get_reduced_units r ord a = Ok b → (∀ k, is_Some (a !! k) → k ∈ ord) →
  ∀ u1 u2, is_Some (b !! u1) → is_Some (b !! u2) → u1 ≠ u2 → ¬ mergeable r u1 u2.
Proof. exact (reduced_no_mergeable_pair r ord a b). Qed.

(** ** to_compact *)
Theorem C15_compact_only_prefix r q q' :
  to_compact r q = Ok q' →
  q' = q ∨
  ∃ bo bd u pname k,
    infer_base_unit r (rq_ord q) (rq_u q) = Ok (bo, bd) ∧ is_Some (bd !! u) ∧
    uc_rename bd u (pname ++ u) = Some (rq_u q') ∧
    ((k = 0%Z ∧ pname = "") ∨ ∃ key p, r_prefixes r !! key = Some p ∧ p_name p = pname ∧ p_val p = pow10 k).
Proof. exact (compact_only_prefix r q q'). Qed.
(** fixed points: unitless quantities, and 0 / NaN / +-inf magnitudes *)
Theorem C15_compact_fixed_points r q b :
  (unitless r q = Ok true → to_compact r q = Ok q) ∧
  (unitless r q = Ok b → (rq_m q = MFin 0 ∨ rq_m q = MNaN ∨ rq_m q = MPInf ∨ rq_m q = MNInf) → to_compact r q = Ok q).
Proof.
  split; [exact (compact_fixed_unitless r q)|].
  intros H Hm. apply (compact_fixed_special r q b H). apply mag_fixed_iff. exact Hm.
Qed.
(** the statement says "dimensionless"; the code tests [unitless]: 1500 radian becomes 1.5 kiloradian (F95) *)
Theorem C15_compact_fixed_dimensionless_refuted :
  ∃ q, dimensionless default_reg q = Ok true ∧
       match to_compact default_reg q with
       | Ok q' => negb (uc_eqb (rq_u q') (rq_u q)) && mag_eqb (rq_m q') (MFin (mkq 3 2))
       | Err _ => false
       end = true.
Proof.
  exists (RQ (MFin (mkq 1500 1)) ["radian"] (mkuc [("radian", mkq 1 1)])). split; vm_compute; reflexivity.
Qed.
(** the integer logarithm is exact … *)
Theorem C15_ilog10_spec q : q ≠ 0%Qc → (pow10 (ilog10 q) <= Qcabs q)%Qc ∧ (Qcabs q < pow10 (ilog10 q + 1))%Qc.
Proof. exact (ilog10_spec q). Qed.
(** … so with e = power x p (p the integer power of the leading unit) 10^e <= |m| < 10^e * 1000^|p| … *)
Theorem C15_compact_power_range m p :
  m ≠ 0%Qc → is_int p = true → inum p ≠ 0%Z →
  let e := (compact_power m p * inum p)%Z in
  (pow10 e <= Qcabs m)%Qc ∧ (Qcabs m < pow10 e * pow10 (3 * Z.abs (inum p)))%Qc.
Proof. exact (compact_power_range m p). Qed.
(** … and the result of [to_compact] lies in [1, 1000^|p|) whenever the table holds the requested
    power and the prefixed spelling is worth the prefix; p = 1 is the clause of the statement *)
Theorem C15_compact_range r q q' d F B Fb Bb F' B' bo bd qb mb u p pname f ex :
  reg_nz r → wf (rq_u q) →
  exact_unit r (rq_u q) F B → dim_of r (rq_u q) = Ok d →
  infer_base_unit r (rq_ord q) (rq_u q) = Ok (bo, bd) → exact_unit r bd Fb Bb → dim_of r bd = Ok d →
  rq_to r q bo bd = Ok qb → rq_m qb = MFin mb → mb ≠ 0%Qc →
  leading_unit bo bd = Some (u, p) → is_int p = true → inum p ≠ 0%Z →
  pick_prefix (si_table r) (compact_power mb p) = Some (compact_power mb p, pname) →
  to_compact r q = Ok q' → exact_unit r (rq_u q') F' B' → dim_of r (rq_u q') = Ok d →
  conv_factor r bd (rq_u q') = Ok (Some f, ex) → (f * pow10 (compact_power mb p * inum p) = 1)%Qc →
  ∃ x', rq_m q' = MFin x' ∧ (1 <= Qcabs x')%Qc ∧ (Qcabs x' < pow10 (3 * Z.abs (inum p)))%Qc.
Proof. exact (compact_range r q q' d F B Fb Bb F' B' bo bd qb mb u p pname f ex). Qed.

(** ** auto_reduce_preserves: what [*] and [/] return under auto_reduce_dimensions *)
Theorem C15_auto_reduce_mul_preserves (mip : reg → rq → list uc → uc) pd r o a b q' da db Fa Ba Fb Bb :
  reg_nz r → reg_ok r → wf (rq_u a) → nodim (rq_u a) → nodim (rq_u b) →
  exact_unit r (rq_u a) Fa Ba → exact_unit r (rq_u b) Fb Bb → dim_of r (rq_u a) = Ok da → dim_of r (rq_u b) = Ok db →
  auto_mul mip pd r (AutoCfg false o true) a b = Ok q' → (∃ F' B', exact_unit r (rq_u q') F' B') →
  dim_of r (rq_u (raw_mul a b)) = Ok (uc_mul da db)
  ∧ exact_unit r (rq_u (raw_mul a b)) (uc_mul Fa Fb) (uc_mul Ba Bb)
  ∧ same_quantity r (raw_mul a b) q'.
Proof. exact (auto_reduce_mul_preserves mip pd r o a b q' da db Fa Ba Fb Bb). Qed.
Theorem C15_auto_reduce_div_preserves (mip : reg → rq → list uc → uc) pd r o a b q0 q' da db Fa Ba Fb Bb :
  reg_nz r → reg_ok r → wf (rq_u a) → nodim (rq_u a) → nodim (rq_u b) →
  exact_unit r (rq_u a) Fa Ba → exact_unit r (rq_u b) Fb Bb → dim_of r (rq_u a) = Ok da → dim_of r (rq_u b) = Ok db →
  raw_div a b = Ok q0 →
  auto_div mip pd r (AutoCfg false o true) a b = Ok q' → (∃ F' B', exact_unit r (rq_u q') F' B') →
  dim_of r (rq_u q0) = Ok (uc_div da db) ∧ same_quantity r q0 q'.
Proof. exact (auto_reduce_div_preserves mip pd r o a b q0 q' da db Fa Ba Fb Bb). Qed.
(** the wrapper is the composition of the two in-place helpers; an unset default_preferred_units
    (the lookup error is swallowed) means no preferred conversion *)
Theorem C15_auto_wrapper_is_composition (mip : reg → rq → list uc → uc) pd r o prefs red q :
  ireduce mip pd r (AutoCfg false o true) q = to_reduced_units r q
  ∧ ireduce mip pd r (AutoCfg false o false) q = Ok q
  ∧ ireduce mip pd r (AutoCfg true (Some prefs) false) q = to_preferred mip pd r q prefs
  ∧ ireduce mip pd r (AutoCfg true None red) q = ireduce mip pd r (AutoCfg false None red) q.
Proof.
  split; [exact (ireduce_reduce_only mip pd r o q)|]. split; [exact (ireduce_off mip pd r o q)|].
  split; [exact (ireduce_preferred_only mip pd r prefs q) | exact (ireduce_unset_list mip pd r red q)].
Qed.
Theorem C15_same_quantity_transitive r q1 q2 q3 : same_quantity r q1 q2 → same_quantity r q2 q3 → same_quantity r q1 q3.
Proof. exact (same_quantity_trans r q1 q2 q3). Qed.

(** ** the side conditions are decidable and hold for the registry regenerated from /repo *)
Theorem C15_default_registry_well_formed : reg_nz default_reg ∧ reg_ok default_reg.
Proof. split; [apply reg_nzb_spec | apply reg_okb_spec]; vm_compute; reflexivity. Qed.

(** ** non-vacuity on the regenerated default registry: each Example is ONE computation.
    3 mile/hour -> 4191/3125 m/s; 2 m*inch/s**2 -> 10000/127 inch**2/s**2 (meter merged into
    inch; liter <-> inch has ratio 1/3; inch / second are not mergeable); 1500 m -> 1.5 km with
    every hypothesis of [C15_compact_range] discharged by computation ([cx_checks]). *)
Example C15_root_nonvacuous :
  (λ r, wfb (rq_u ex_speed) && nodimb (rq_u ex_speed) && exact_unitb r (rq_u ex_speed) && reg_nzb r && reg_okb r
    && match dim_of r (rq_u ex_speed), to_root_units r ex_speed, ito_root_units r ex_speed with
       | Ok d, Ok q', Ok q'' =>
           uc_eqb d (mkuc [("[length]", mkq 1 1); ("[time]", mkq (-1) 1)])
           && uc_eqb (rq_u q') (mkuc [("meter", mkq 1 1); ("second", mkq (-1) 1)])
           && mag_eqb (rq_m q') (MFin (mkq 4191 3125)) && uc_eqb (rq_u q'') (rq_u q') && mag_eqb (rq_m q'') (rq_m q')
       | _, _, _ => false
       end) default_reg = true.
Proof. vm_compute. reflexivity. Qed.

Example C15_reduced_nonvacuous :
  (λ r, wfb (rq_u ex_area) && exact_unitb r (rq_u ex_area)
    && match dim_ratio r "meter" "inch", dim_ratio r "liter" "inch", dim_ratio r "inch" "second" with
       | Ok (Some a), Ok (Some b), Ok None => Qc_eq_bool a 1 && Qc_eq_bool b (mkq 1 3)
       | _, _, _ => false
       end
    && match get_reduced_units r (rq_ord ex_area) (rq_u ex_area), to_reduced_units r ex_area with
       | Ok b, Ok q' =>
           uc_eqb b (mkuc [("inch", mkq 2 1); ("second", mkq (-2) 1)]) && uc_eqb (rq_u q') b
           && mag_eqb (rq_m q') (MFin (mkq 10000 127)) && exact_unitb r b
       | _, _ => false
       end) default_reg = true.
Proof. vm_compute. reflexivity. Qed.

Example C15_compact_range_nonvacuous :
  ∃ q' x', to_compact default_reg ex_len = Ok q' ∧ uc_eqb (rq_u q') (mkuc [("kilometer", mkq 1 1)]) = true
           ∧ rq_m q' = MFin x' ∧ (1 <= Qcabs x')%Qc ∧ (Qcabs x' < pow10 3)%Qc.
Proof. apply cx_generic. vm_compute. reflexivity. Qed.

(** ** F21 (repaired by 3fd38de): a unit whose name has two readings *)
(** the asserting [infer_base_unit] of before the repair fails on dtex; the repaired one takes the
    first reading and 1500 dtex becomes 1.5 kilodtex, the same quantity … *)
Theorem C15_compact_assert_refuted :
  (λ r, wfb (rq_u ex_dtex) && exact_unitb r (rq_u ex_dtex)
        && Nat.eqb (length (parse_unit_name r "dtex")) 2
        && match infer_base_unit_assert r (rq_ord ex_dtex) (rq_u ex_dtex) with Err EAssert => true | _ => false end
        && match to_compact r ex_dtex, dim_of r (rq_u ex_dtex) with
           | Ok q', Ok d =>
               uc_eqb (rq_u q') (mkuc [("kilodtex", mkq 1 1)]) && mag_eqb (rq_m q') (MFin (mkq 3 2))
               && exact_unitb r (rq_u q') && match dim_of r (rq_u q') with Ok d' => uc_eqb d d' | Err _ => false end
           | _, _ => false
           end) default_reg = true.
Proof. vm_compute. reflexivity. Qed.
(** … [infer_base_unit] is now defined as soon as every name has a reading; the old one needed
    exactly one *)
Theorem C15_infer_base_defined r ord a :
  (∀ k, k ∈ present a ord → parse_unit_name r k ≠ nil) → ∃ res, infer_base_unit r ord a = Ok res.
Proof. exact (infer_base_defined r ord a). Qed.
Theorem C15_infer_base_assert_defined_guarded r ord a :
  (∀ k, k ∈ present a ord → ∃ p b, parse_unit_name r k = (p, b) :: nil) →
  ∃ res, infer_base_unit_assert r ord a = Ok res.
Proof. exact (infer_base_assert_defined r ord a). Qed.
(** F22 is a defect of float exponent arithmetic only: in exact exponents the reduction that
    needs thirds is defined (gill ** (1/3), the same dimensionality); its factor is a cube root,
    which pint computes in floats ([MApprox]) *)
Example C15_reduced_thirds_exact :
  (λ r, match get_reduced_units r (rq_ord ex_thirds) (rq_u ex_thirds), to_reduced_units r ex_thirds,
              dim_of r (rq_u ex_thirds) with
        | Ok b, Ok q', Ok d =>
            uc_eqb b (mkuc [("gill", mkq 1 3)]) && uc_eqb (rq_u q') b
            && match rq_m q' with MApprox => true | _ => false end
            && match dim_of r b with Ok d' => uc_eqb d d' | Err _ => false end
            && negb (exact_unitb r b)
        | _, _, _ => false
        end) default_reg = true.
Proof. vm_compute. reflexivity. Qed.
(** [to_preferred]: 3 mile/hour with [m/s] preferred is a simple match (and the old guard holds:
    the first dimension, [length], has exponent 1, so the old test and the product test agree);
    1 acre with [meter] preferred gives meter**2; (1 m) * (3 inch) under auto_reduce_dimensions
    is 15000/127 inch**2 *)
Example C15_preferred_and_auto_nonvacuous :
  (λ r, let mip := (λ (_ : reg) (q : rq) (_ : list uc), rq_u q) in
        let ms := (cons (mkuc [("meter", mkq 1 1); ("second", mkq (-1) 1)]) nil) in
        match dim_of r (rq_u ex_speed), to_preferred mip true r ex_speed ms, to_preferred mip false r ex_speed ms,
              to_preferred mip true r ex_acre (cons (mkuc [("meter", mkq 1 1)]) nil),
              auto_mul mip true r (AutoCfg false None true) ex_m ex_in with
        | Ok d, Ok q1, Ok q2, Ok q4, Ok q3 =>
            simple_guardb d && uc_eqb (rq_u q1) (mkuc [("meter", mkq 1 1); ("second", mkq (-1) 1)]) && uc_eqb (rq_u q2) (rq_u q1)
            && mag_eqb (rq_m q1) (MFin (mkq 4191 3125)) && mag_eqb (rq_m q2) (rq_m q1)
            && exact_unitb r (rq_u q1)
            && uc_eqb (rq_u q4) (mkuc [("meter", mkq 2 1)]) && mag_eqb (rq_m q4) (MFin (mkq 62726400000 15499969))
            && uc_eqb (rq_u q3) (mkuc [("inch", mkq 2 1)]) && mag_eqb (rq_m q3) (MFin (mkq 15000 127))
        | _, _, _, _, _ => false
        end) default_reg = true.
Proof. vm_compute. reflexivity. Qed.

(** the repaired simple match ([pow_defect = false], what pint runs since 75b5cc1): m**2*s with
    [m/s] preferred is no match (the programme is consulted, here the trivial one), kg/m with
    [kg*m] neither; m**2/s**2 with [m/s] IS a match now — (m/s)**2 — which the power test missed
    ((-1)**2 = 1 is not -2); 2 mile**2/hour**2 -> 3903218/9765625 m**2/s**2 *)
Example C15_repaired_simple_match :
  (λ r, let mip := (λ (_ : reg) (q : rq) (_ : list uc), rq_u q) in
        let ms := (cons (mkuc [("meter", mkq 1 1); ("second", mkq (-1) 1)]) nil) in
        let kgm := (cons (mkuc [("kilogram", mkq 1 1); ("meter", mkq 1 1)]) nil) in
        let d_m2s := mkuc [("[length]", mkq 2 1); ("[time]", mkq 1 1)] in
        let d_v2 := mkuc [("[length]", mkq 2 1); ("[time]", mkq (-2) 1)] in
        let d_kgm := mkuc [("[length]", mkq (-1) 1); ("[mass]", mkq 1 1)] in
        let q := RQ (MFin (mkq 2 1)) ["mile"; "hour"] (mkuc [("mile", mkq 2 1); ("hour", mkq (-2) 1)]) in
        match find_simple false r d_m2s ms, find_simple false r d_kgm kgm, find_simple false r d_v2 ms,
              find_simple true r d_v2 ms, find_simple true r d_m2s ms, to_preferred mip false r q ms with
        | Ok None, Ok None, Ok (Some u), Ok None, Ok (Some w), Ok q' =>
            uc_eqb u (mkuc [("meter", mkq 2 1); ("second", mkq (-2) 1)])
            && uc_eqb w u      (* the old test picked (m/s)**2 for m**2*s *)
            && uc_eqb (rq_u q') u && mag_eqb (rq_m q') (MFin (mkq 3903218 9765625)) && exact_unitb r u
        | _, _, _, _, _, _ => false
        end) default_reg = true.
Proof. vm_compute. reflexivity. Qed.
