(** Properties/C15.v — unit-rewriting helpers preserve the physical quantity (statements follow). *)
From PintV Require Import Model.UC Model.Eval Model.Registry Model.Rewrite.
