(** Properties/C16.v — NumPy functions on quantity arrays respect units.
    Only statements, each closed by [exact] of a lemma of Proofs/NumpyProofs.v.

    What is proved is about pint's unit BOOKKEEPING (which arguments are converted, which unit is
    attached, which error is raised); NumPy's kernels enter only through the homogeneity law of
    each signature class, which is an explicit hypothesis of the [class_covariant_*] theorems.
    The behaviour tables are the ones regenerated from numpy_func.py (Gen/NumpyTables.v). *)
From PintV Require Import Model.UC Model.Numpy Model.NumpyClasses Gen.NumpyTables Model.NumpyRun
  Proofs.NumpyProofs.
Open Scope string_scope.

(** * The tables match the signature classes.
    FULL statement (refuted, F13 and siblings):
      ∀ n r, In (n, r) ufunc_registrations ∨ In (n, r) function_registrations →
             ∃ c, class n = Some c ∧ reg_ok c r = true.
    Finite domain: the 92 + 110 registrations of the regenerated tables (the bound is part of the
    statement).  Proved under the explicit guard excluding 4 ufuncs and 9 functions
    ([ufunc_exceptions], [function_exceptions] in Model/NumpyClasses.v). *)
Theorem C16_table_matches_class_guarded :
  length ufunc_registrations = 92%nat ∧ length function_registrations = 110%nat ∧
  (∀ n r, In (n, r) ufunc_registrations → mem n ufunc_exceptions = false →
          ∃ c, assoc n ufunc_classes = Some c ∧ reg_ok c r = true) ∧
  (∀ n r, In (n, r) function_registrations → mem n function_exceptions = false →
          ∃ c, assoc n function_classes = Some c ∧ reg_ok c r = true).
Proof. exact table_matches_class_guarded. Qed.

(** every registration the class table rejects lies inside the guard: the guard hides nothing else *)
Theorem C16_table_rejections_within_guard :
  (∀ n, In n (table_bad ufunc_classes ufunc_registrations) → In n ufunc_exceptions)
  ∧ (∀ n, In n (table_bad function_classes function_registrations) → In n function_exceptions).
Proof. exact table_rejections_within_guard. Qed.

(** F13: mod / fmod / remainder ("strip", "match_input") and floor_divide ("strip", "div") need
    their operands in one unit; the registrations of the unchanged tree (frozen in
    Model/NumpyClasses.v, so that this witness survives a repair) do not convert them. *)
Theorem C16_table_matches_class_refuted_ufuncs :
  ∀ n, In n ["fmod"; "mod"; "remainder"; "floor_divide"] →
       ∃ r, In (n, r) defective_ufunc_registrations
            ∧ ¬ ∃ c, assoc n ufunc_classes = Some c ∧ reg_ok c r = true.
Proof. exact table_matches_class_refuted_ufuncs. Qed.
(** the same defect for functions registered with input_units=None although they have a second
    unit argument (initial=, mean=, prepend=/append=, to_end=/to_begin=), and gradient, whose
    per-axis units no single behaviour can express. *)
Theorem C16_table_matches_class_refuted_functions :
  ∀ n, In n ["sum"; "nansum"; "std"; "nanstd"; "var"; "nanvar"; "diff"; "ediff1d"; "gradient"] →
       ∃ r, In (n, r) defective_function_registrations
            ∧ ¬ ∃ c, assoc n function_classes = Some c ∧ reg_ok c r = true.
Proof. exact table_matches_class_refuted_functions. Qed.
(** the faithful model exhibits F13 on concrete units: with the frozen registration np.mod(m, s)
    is neither converted nor refused; with the behaviour its class requires it is a
    DimensionalityError *)
Theorem C16_mod_model_refuted :
  convert_ok env_ms u_s u_m = false ∧
  run_registered defective_ufunc_registrations env_ms "mod" [("x1", A1 (SQ u_m)); ("x2", A1 (SQ u_s))] []
  = Ok (PAll (Some u_m)) ∧
  run_registered [("mod", RTable (Beh InAllConsistent OutMatchInput))] env_ms "mod"
                 [("x1", A1 (SQ u_m)); ("x2", A1 (SQ u_s))] []
  = Err EDim.
Proof. exact mod_model_refuted. Qed.
(** and why it is wrong: for a jointly homogeneous kernel (x + y stands for any of them) the
    result computed in the first unit differs from the physical result: 5 m and 300 cm *)
Theorem C16_strip_match_refuted :
  ∃ (x y gm gcm : Qc), (gm * (x + y) ≠ gm * x + gcm * y)%Qc ∧ gm ≠ gcm.
Proof. exact strip_match_refuted. Qed.

(** * Ties of the hand-written mirrors to the source (re-checked against the regenerated file) *)
Theorem C16_op_branches_tie :
  same_set op_branches model_op_branches = true ∧ same_set implement_func_ops model_op_branches = true.
Proof. exact op_branches_tie. Qed.
Theorem C16_specials_tie :
  same_set (special_impls ufunc_registrations ++ special_impls function_registrations) modelled_specials = true.
Proof. exact specials_tie. Qed.
Theorem C16_keywords_tie : kw_all_consistent = "all_consistent" ∧ kw_match_input = "match_input"
  ∧ elementwise_fallback = ["multiply"; "true_divide"; "divide"; "floor_divide"]
  ∧ wrapped_numpy_methods = ["flatten"; "astype"; "item"].
Proof. exact keywords_tie. Qed.

(** * Covariance per signature class.
    [scale_laws]: scale factors form an abelian group with rational powers acting on magnitudes,
    and the factor [fac] of a unit container is multiplicative.  [phys (v, u)] is the magnitude in
    root units; [conv u t] is pint's conversion of a magnitude from unit u to unit t.
    Each theorem says: result = kernel applied to the physical values (first conjunct), hence
    unchanged when inputs are re-expressed in other units (second conjunct). *)
Section ClassCovariant.
  Context {G V : Type} {gmul : G → G → G} {gone : G} {ginv : G → G} {gpow : G → Qc → G}
          {act : G → V → V} {fac : uc → G}.
  Notation ph := (phys act fac).
  Notation cv := (conv gmul ginv act fac).

  Theorem C16_conversion_preserves_value :
    scale_laws gmul gone ginv gpow act fac → ∀ v u t, ph (cv u t v, t) = ph (v, u).
  Proof. exact (λ L, cc_conversion_preserves L). Qed.

  (** class Homog k, several unit arguments: all converted to one unit t ("all_consistent",
      by-argument, or a fixed unit), output unit of degree k in t *)
  Theorem C16_class_covariant_homog :
    scale_laws gmul gone ginv gpow act fac →
    ∀ (f : list V → V) (k : Qc),
    (∀ g xs, xs ≠ [] → f (map (act g) xs) = act (gpow g k) (f xs)) →
    ∀ t t' uo uo' args args', args ≠ [] → args' ≠ [] →
      fac uo = gpow (fac t) k → fac uo' = gpow (fac t') k →
      map ph args = map ph args' →
      ph (f (map (λ q : V * uc, cv q.2 t q.1) args), uo) = f (map ph args)
      ∧ ph (f (map (λ q : V * uc, cv q.2 t q.1) args), uo)
        = ph (f (map (λ q : V * uc, cv q.2 t' q.1) args'), uo').
  Proof. exact (λ L, cc_homog L). Qed.
  (** class Homog k, one unit argument: units stripped, output unit u^k (sqrt, var, reciprocal, ...) *)
  Theorem C16_class_covariant_homog_unary :
    scale_laws gmul gone ginv gpow act fac →
    ∀ (f : list V → V) (k : Qc),
    (∀ g xs, xs ≠ [] → f (map (act g) xs) = act (gpow g k) (f xs)) →
    ∀ v u v' u', ph (v, u) = ph (v', u') →
      ph (f [v], uc_pow u k) = f [ph (v, u)] ∧ ph (f [v], uc_pow u k) = ph (f [v'], uc_pow u' k).
  Proof. exact (λ L, cc_homog_unary L). Qed.
  (** degree 1 with the unit copied ("match_input"): maximum, hypot, clip, where, concatenate, ... *)
  Theorem C16_class_covariant_match_input :
    scale_laws gmul gone ginv gpow act fac →
    ∀ (f : list V → V),
    (∀ g xs, xs ≠ [] → f (map (act g) xs) = act g (f xs)) →
    ∀ t t' args args', args ≠ [] → args' ≠ [] → map ph args = map ph args' →
      ph (f (map (λ q : V * uc, cv q.2 t q.1) args), t) = f (map ph args)
      ∧ ph (f (map (λ q : V * uc, cv q.2 t q.1) args), t)
        = ph (f (map (λ q : V * uc, cv q.2 t' q.1) args'), t').
  Proof. exact (λ L, cc_match_input L). Qed.
  (** class Predicate / Index: bare output *)
  Theorem C16_class_covariant_predicate :
    scale_laws gmul gone ginv gpow act fac →
    ∀ (B : Type) (p : list V → B),
    (∀ g xs, p (map (act g) xs) = p xs) →
    ∀ t t' args args', map ph args = map ph args' →
      p (map (λ q : V * uc, cv q.2 t q.1) args) = p (map ph args)
      ∧ p (map (λ q : V * uc, cv q.2 t q.1) args) = p (map (λ q : V * uc, cv q.2 t' q.1) args').
  Proof. exact (λ L B, cc_pred L). Qed.
  (** arctan2: degree 0, result in a fixed unit *)
  Theorem C16_class_covariant_joint_fixed :
    scale_laws gmul gone ginv gpow act fac →
    ∀ (f : list V → V) (o : uc),
    (∀ g xs, f (map (act g) xs) = f xs) →
    ∀ t t' args args', map ph args = map ph args' →
      ph (f (map (λ q : V * uc, cv q.2 t q.1) args), o)
      = ph (f (map (λ q : V * uc, cv q.2 t' q.1) args'), o).
  Proof. exact (λ L, cc_joint_fixed L). Qed.
  (** class Bilinear: multiply, matmul, dot, cross, trapz, correlate, einsum *)
  Theorem C16_class_covariant_bilinear :
    scale_laws gmul gone ginv gpow act fac →
    ∀ (f : V → V → V),
    (∀ g h a b, f (act g a) (act h b) = act (gmul g h) (f a b)) →
    ∀ x u y w x' u' y' w', ph (x, u) = ph (x', u') → ph (y, w) = ph (y', w') →
      ph (f x y, uc_mul u w) = f (ph (x, u)) (ph (y, w))
      ∧ ph (f x y, uc_mul u w) = ph (f x' y', uc_mul u' w').
  Proof. exact (λ L, cc_bilinear L). Qed.
  (** class Ratio: divide, true_divide *)
  Theorem C16_class_covariant_ratio :
    scale_laws gmul gone ginv gpow act fac →
    ∀ (f : V → V → V),
    (∀ g h a b, f (act g a) (act h b) = act (gmul g (ginv h)) (f a b)) →
    ∀ x u y w x' u' y' w', ph (x, u) = ph (x', u') → ph (y, w) = ph (y', w') →
      ph (f x y, uc_div u w) = f (ph (x, u)) (ph (y, w))
      ∧ ph (f x y, uc_div u w) = ph (f x' y', uc_div u' w').
  Proof. exact (λ L, cc_ratio L). Qed.
  (** linalg.solve: "invdiv" *)
  Theorem C16_class_covariant_invratio :
    scale_laws gmul gone ginv gpow act fac →
    ∀ (f : V → V → V),
    (∀ g h a b, f (act g a) (act h b) = act (gmul h (ginv g)) (f a b)) →
    ∀ x u y w x' u' y' w', ph (x, u) = ph (x', u') → ph (y, w) = ph (y', w') →
      ph (f x y, uc_pow (uc_div u w) qm1) = f (ph (x, u)) (ph (y, w))
      ∧ ph (f x y, uc_pow (uc_div u w) qm1) = ph (f x' y', uc_pow (uc_div u' w') qm1).
  Proof. exact (λ L, cc_invratio L). Qed.
  (** classes Angle→Dimless, Dimless→Angle, Dimless→Dimless: converted to a fixed unit, result in
      a fixed unit; no assumption on the kernel at all *)
  Theorem C16_class_covariant_fixed :
    scale_laws gmul gone ginv gpow act fac →
    ∀ (f : V → V) (ti to : uc) v u v' u',
      ph (v, u) = ph (v', u') → ph (f (cv u ti v), to) = ph (f (cv u' ti v'), to).
  Proof. exact (λ L, cc_fixed L). Qed.
End ClassCovariant.

(** * [get_op_output_unit] computes on unit containers what its names say *)
Theorem C16_op_output_unit_correct env u a b k e n args sz :
  get_op_output_unit env "sum" u args sz = (if is_mult env u then Ok u else Err EOffset)
  ∧ get_op_output_unit env "variance" u args sz = (if is_mult env u then Ok (uc_pow u q2) else Err EOffset)
  ∧ (is_mult env u = true → get_op_output_unit env "delta" u args sz = Ok u)
  ∧ (non_mult env u = [(k, q1)] →
       get_op_output_unit env "delta" u args sz = Ok (<[ "delta_" ++ k := q1 ]> (delete k u)))
  ∧ (non_mult env u = [(k, e)] → e ≠ q1 → get_op_output_unit env "delta" u args sz = Err EOffset)
  ∧ get_op_output_unit env "square" u args None = Ok (uc_pow u q2)
  ∧ get_op_output_unit env "sqrt" u args None = Ok (uc_pow u qhalf)
  ∧ get_op_output_unit env "cbrt" u args None = Ok (uc_pow u qthird)
  ∧ get_op_output_unit env "reciprocal" u args None = Ok (uc_pow u qm1)
  ∧ get_op_output_unit env "size" u args (Some n) = Ok (uc_pow u n)
  ∧ get_op_output_unit env "size" u args None = Err EValue
  ∧ (wf a →
       get_op_output_unit env "mul" u [Some a; Some b] sz = Ok (uc_mul a b)
       ∧ get_op_output_unit env "div" u [Some a; Some b] sz = Ok (uc_div a b)
       ∧ get_op_output_unit env "invdiv" u [Some a; Some b] sz = Ok (uc_pow (uc_div a b) qm1)
       ∧ get_op_output_unit env "div" u [None; Some b] sz = Ok (uc_div ∅ b)
       ∧ get_op_output_unit env "mul" u [Some a; None] sz = Ok a)
  ∧ (is_mult env a = true → get_op_output_unit env "delta,div" a [Some a; Some b] sz = Ok (uc_div a b)).
Proof.
  split; [exact (op_sum env u args sz)|]. split; [exact (op_variance env u args sz)|].
  split; [exact (op_delta_mult env u args sz)|]. split; [exact (op_delta_offset env u k args sz)|].
  split; [exact (op_delta_refused env u k e args sz)|].
  destruct (op_powers env u args n) as (H1 & H2 & H3 & H4 & H5 & H6).
  repeat (split; [assumption|]). split; [exact (op_binary env u a b sz) | exact (op_delta_div env a b sz)].
Qed.
(** n-ary "mul": exponents add up over the arguments that carry units; an unknown operation name
    is a ValueError *)
Theorem C16_op_mul_exponents l k :
  exp_of (mul_units l) k
  = fold_left (λ acc x, (acc + match x with Some u => exp_of u k | None => 0 end)%Qc) l 0%Qc.
Proof. exact (exp_of_mul_units l k). Qed.
Theorem C16_op_unknown env op u args sz :
  ¬ In op model_op_branches → get_op_output_unit env op u args sz = Err EValue.
Proof. exact (op_unknown env op u args sz). Qed.

(** np.power / ** with a scalar exponent p: unit^p on multiplicative units (degree-p homogeneous:
    covariance is [C16_class_covariant_homog_unary] with k = p); offset units are refused *)
Theorem C16_power_units env u p :
  (p ≠ q1 → qz p = false →
     pow_units env u p = if is_mult env u then Ok (uc_pow u p) else Err EOffset)
  ∧ pow_units env u q1 = Ok u ∧ pow_units env u qc0 = Ok ∅.
Proof. exact (conj (pow_units_spec env u p) (pow_units_trivial env u)). Qed.

(** * [convert_arg]: bare numbers are accepted iff the target is dimensionless or the number is
    zero / NaN; incompatible quantities are DimensionalityErrors; bools and None pass *)
Theorem C16_convert_arg_rule env t u zn pre a :
  (dimensionless env t = false → convert_sarg env (Some t) (SNum zn) = if zn then Ok tt else Err EDim)
  ∧ (dimensionless env t = true → is_mult env t = true → convert_sarg env (Some t) (SNum zn) = Ok tt)
  ∧ (convert_sarg env (Some t) (SQ u) = Ok tt → u = t ∨ dim_of env u = dim_of env t)
  ∧ (dim_of env u ≠ dim_of env t → convert_sarg env (Some t) (SQ u) = Err EDim)
  ∧ convert_sarg env pre SBool = Ok tt ∧ convert_sarg env None a = Ok tt ∧ convert_sarg env pre SNone = Ok tt.
Proof.
  split; [exact (convert_bare_dimensioned env t zn)|]. split; [exact (convert_bare_dimensionless env t zn)|].
  split; [exact (convert_quantity_ok env u t)|]. split; [exact (convert_quantity_incompatible env u t)|].
  exact (convert_passthrough env pre a).
Qed.

(** * Defect switch F122 (repaired in /repo by f0a41c5): np.unwrap(q, period=...) used to raise
    TypeError.  The model with the switch on reproduces the old observation, the repaired model
    the new one and not the old one; a Quantity period / discont must be an angle. *)
Theorem C16_unwrap_period_refuted :
  c16_ok_q (Quirks true) (unwrap_period_case (OErr EType)) = true
  ∧ c16_ok_q repaired (unwrap_period_case (OVal [Some {[ "degree" := q1 ]}] None)) = true
  ∧ c16_ok_q repaired (unwrap_period_case (OErr EType)) = false.
Proof. exact unwrap_period_switch. Qed.
Theorem C16_unwrap_quantity_keywords :
  let m := A1 (SQ {[ "meter" := q1 ]}) in
  let env := [("degree", UI ∅ false); ("meter", UI {[ "[length]" := q1 ]} false)] in
  run_registered function_registrations env "unwrap" [("p", A1 (SQ {[ "degree" := q1 ]})); ("period", m)] [] = Err EDim
  ∧ run_registered function_registrations env "unwrap" [("p", A1 (SQ {[ "degree" := q1 ]})); ("discont", m)] [] = Err EDim.
Proof. exact unwrap_quantity_keywords. Qed.

(** * Non-vacuity *)
(** the laws assumed by the covariance theorems have a model (logarithmic scale factors) *)
Example C16_scale_laws_satisfiable :
  ∀ c : Qc, scale_laws Qcplus 0%Qc Qcopp (λ g e, (g * e)%Qc) Qcplus (log_fac c).
Proof. exact scale_laws_satisfiable. Qed.
(** ... and in that model a degree-k kernel exists, so [C16_class_covariant_homog] is not vacuous *)
Example C16_homog_instance (c k : Qc) t uo (args : list (Qc * uc)) :
  let f := λ xs : list Qc, (hd 0 xs * k)%Qc in
  args ≠ [] → log_fac c uo = (log_fac c t * k)%Qc →
  phys Qcplus (log_fac c) (joint_run Qcplus Qcopp Qcplus (log_fac c) f t uo args)
  = f (map (phys Qcplus (log_fac c)) args).
Proof. exact (log_instance_joint_correct c k t uo args). Qed.
(** the regenerated table drives the model on concrete units (Proofs.NumpyProofs.example_cases):
    hypot(m, cm) -> m; sqrt(m) -> m^(1/2); var(degC) is refused; diff(degC) -> delta_degC; a bare
    non-zero number next to metres is refused, a bare 0 is accepted; q.var() -> m^2 *)
Example C16_model_runs : length example_cases = 7%nat ∧ forallb c16_ok example_cases = true.
Proof. exact (conj eq_refl model_runs). Qed.
