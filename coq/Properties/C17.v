(** Properties/C17.v — wraps / check decorators hand over correct magnitudes and enforce
    dimensions.  Only statements, each closed by [exact] of a lemma of Proofs/WrapsProofs.v.

    Reading guide.  [bind ps pos kw = Ok vs]: Python itself would bind the call (pos, kw) to the
    parameters ps with values vs (defaults included) — "a valid call binding".
    [wraps_observed U Q strict cl ps pos kw]: the argument list the wrapped function body sees.
    [spec_pass U Q strict cl vs]: the per-parameter specification [param_spec] applied to vs.
    [repaired] / [as_found]: the defect switches (F23 float leak, F24 magnitudes in references). *)
From PintV Require Import Model.UC Model.Wraps Proofs.WrapsProofs.

(** ** the function receives the declared magnitudes *)
(** what "declared magnitude" means, class by class (exact model: switches off) *)
Theorem C17_param_spec_meaning U strict vbn v u s m su k e :
  param_spec U repaired strict vbn CNone v = Ok v
  ∧ param_spec U repaired strict vbn (CDef k) v = Ok (strip v)
  ∧ param_spec U repaired strict vbn (CUnit u s) (VQty m su)
    = rbind (us_conv U su u m) (λ m', Ok (VNum m'))
  ∧ param_spec U repaired strict vbn (CDep e) v
    = rbind (replace_units repaired vbn e) (λ t, rbind (us_conv U (v_units v) t (v_mag v)) (λ m', Ok (VNum m'))).
Proof. repeat split. Qed.

(** for every signature, spec list of the same length and valid call: the observed argument
    list is the per-parameter specification; an error is the error of some parameter *)
Theorem C17_wraps_passes_declared_magnitudes U strict specs cl ps pos kw vs :
  NoDup (names ps) → wraps_decorate specs ps = Ok cl → bind ps pos kw = Ok vs →
  (∀ obs, wraps_observed U repaired strict cl ps pos kw = Ok obs
          ↔ spec_pass U repaired strict cl vs = Ok obs)
  ∧ (∀ e, wraps_observed U repaired strict cl ps pos kw = Err e →
          ∃ i c v, cl !! i = Some c ∧ vs !! i = Some v
                   ∧ param_spec U repaired strict (named_values cl vs) c v = Err e).
Proof.
  intros ND Hd Hb. destruct (wraps_decorate_ok _ _ _ Hd) as [_ Hl].
  exact (wraps_passes_declared U repaired strict cl ps pos kw vs ND Hl Hb).
Qed.
(** the same bookkeeping statement for the code as found (any switch setting): only the
    per-parameter step differs, never the index arithmetic *)
Theorem C17_wraps_bookkeeping_any_switch U Q strict cl ps pos kw vs :
  NoDup (names ps) → List.length cl = List.length ps → bind ps pos kw = Ok vs →
  (∀ obs, wraps_observed U Q strict cl ps pos kw = Ok obs ↔ spec_pass U Q strict cl vs = Ok obs)
  ∧ (∀ e, wraps_observed U Q strict cl ps pos kw = Err e →
          ∃ i c v, cl !! i = Some c ∧ vs !! i = Some v
                   ∧ param_spec U Q strict (named_values cl vs) c v = Err e).
Proof. exact (wraps_passes_declared U Q strict cl ps pos kw vs). Qed.
(** position by position *)
Theorem C17_observed_pointwise U Q strict cl vs obs i c v :
  spec_pass U Q strict cl vs = Ok obs → cl !! i = Some c → vs !! i = Some v →
  ∃ o, obs !! i = Some o ∧ param_spec U Q strict (named_values cl vs) c v = Ok o.
Proof. exact (spec_pass_pointwise U Q strict cl vs obs i c v). Qed.

(** the code as found does NOT satisfy the exact statement: F23 (float leak), F24 *)
Theorem C17_wraps_passes_float_leak_refuted :
  ∃ cl ps pos kw vs,
    bind ps pos kw = Ok vs ∧ List.length cl = List.length ps ∧ NoDup (names ps)
    ∧ wraps_observed demo_sys as_found true cl ps pos kw = Ok [VApx (mkq 5 18)]
    ∧ spec_pass demo_sys repaired true cl vs = Ok [VNum (mkq 5 18)].
Proof. exact float_leak_refuted. Qed.
Theorem C17_wraps_passes_replace_mag_refuted :
  ∃ cl ps pos kw vs,
    bind ps pos kw = Ok vs ∧ List.length cl = List.length ps ∧ NoDup (names ps)
    ∧ wraps_observed demo_sys as_found true cl ps pos kw = Err EZeroDiv
    ∧ spec_pass demo_sys repaired true cl vs = Ok [VNum (mkq 0 1); VNum (mkq 2 1)].
Proof. exact replace_mag_refuted. Qed.
(** ... and does under the guard: no string spec meets a Quantity, dependents get Quantities
    and carry no negative exponent *)
Theorem C17_wraps_passes_guarded U Q strict cl ps pos kw vs :
  NoDup (names ps) → List.length cl = List.length ps → bind ps pos kw = Ok vs →
  call_guard cl vs = true →
  (∀ obs, wraps_observed U Q strict cl ps pos kw = Ok obs
          ↔ spec_pass U repaired strict cl vs = Ok obs)
  ∧ (∀ e, wraps_observed U Q strict cl ps pos kw = Err e →
          ∃ i c v, cl !! i = Some c ∧ vs !! i = Some v
                   ∧ param_spec U repaired strict (named_values cl vs) c v = Err e).
Proof. exact (wraps_passes_guarded U Q strict cl ps pos kw vs). Qed.

(** ** positional / keyword / default delivery of the same values: same observation *)
Theorem C17_binding_independent U Q strict cl ps pos kw pos' kw' vs :
  NoDup (names ps) → List.length cl = List.length ps →
  bind ps pos kw = Ok vs → bind ps pos' kw' = Ok vs →
  wraps_observed U Q strict cl ps pos kw = wraps_observed U Q strict cl ps pos' kw'.
Proof. exact (binding_independent U Q strict cl ps pos kw pos' kw' vs). Qed.
Theorem C17_all_positional_is_a_binding ps vs :
  List.length vs = List.length ps → bind ps vs ∅ = Ok vs.
Proof. exact (bind_all_positional ps vs). Qed.
(** the whole call: conversion, then the function on the observed list, then re-wrapping with
    the values the definitions were bound to *)
Theorem C17_wraps_call_valid U Q strict cl ret ps f pos kw vs :
  NoDup (names ps) → List.length cl = List.length ps → bind ps pos kw = Ok vs →
  wraps_call U Q strict cl ret ps f pos kw
  = rbind (passes U Q strict cl vs) (λ obs, rewrap U Q (named_values cl vs) ret (f obs)).
Proof. exact (wraps_call_valid U Q strict cl ret ps f pos kw vs). Qed.

(** ** errors *)
Theorem C17_wraps_errors U Q strict vbn u s m su da db v :
  (us_sound U → us_dim U su = Ok da → us_dim U u = Ok db → da ≠ db →
     param_spec U Q strict vbn (CUnit u s) (VQty m su) = Err EDim)
  ∧ param_spec U Q true vbn (CUnit u s) (VNum m) = Err EValue
  ∧ param_spec U Q false vbn (CUnit u s) (VNum m) = Ok (VNum m)
  ∧ param_spec U Q strict vbn CNone v = Ok v.
Proof.
  split; [exact (param_spec_incompatible U Q strict vbn u s m su da db)|].
  split; [exact (param_spec_strict_number U Q vbn u s m)|].
  split; [exact (param_spec_nonstrict_number U Q vbn u s m)|exact (param_spec_none U Q strict vbn v)].
Qed.
Theorem C17_wraps_compatible_converted U Q strict vbn u s m su d :
  us_sound U → us_dim U su = Ok d → us_dim U u = Ok d →
  ∃ r, us_conv U su u m = Ok r ∧ param_spec U Q strict vbn (CUnit u s) (VQty m su) = Ok (delivered Q s r).
Proof. exact (param_spec_compatible U Q strict vbn u s m su d). Qed.
(** a failing parameter makes the call raise (the function is not reached); alone, its error *)
Theorem C17_wraps_call_error U Q strict cl ps pos kw vs i c v e :
  NoDup (names ps) → List.length cl = List.length ps → bind ps pos kw = Ok vs →
  cl !! i = Some c → vs !! i = Some v →
  param_spec U Q strict (named_values cl vs) c v = Err e →
  (∃ e', wraps_observed U Q strict cl ps pos kw = Err e')
  ∧ ((∀ j c' v', j ≠ i → cl !! j = Some c' → vs !! j = Some v' →
        ∃ o, param_spec U Q strict (named_values cl vs) c' v' = Ok o) →
     wraps_observed U Q strict cl ps pos kw = Err e).
Proof. exact (wraps_call_error U Q strict cl ps pos kw vs i c v e). Qed.
Theorem C17_wraps_call_succeeds U Q strict cl ps pos kw vs :
  NoDup (names ps) → List.length cl = List.length ps → bind ps pos kw = Ok vs →
  (∀ i c v, cl !! i = Some c → vs !! i = Some v →
     ∃ o, param_spec U Q strict (named_values cl vs) c v = Ok o) →
  ∃ obs, wraps_observed U Q strict cl ps pos kw = Ok obs.
Proof. exact (wraps_call_succeeds U Q strict cl ps pos kw vs). Qed.
(** the table instance used by the correspondence meets [us_sound] *)
Theorem C17_table_sys_sound t : us_sound (table_sys t).
Proof. exact (table_sys_sound t). Qed.

(** ** return value *)
Theorem C17_ret_wrapped U Q vbn r u s m e t :
  rewrap U Q vbn (RScalar SNone) r = Ok (WRaw r)
  ∧ rewrap U Q vbn (RScalar (SUnit u s)) (FScalar (VNum m)) = Ok (WQty (VQty m u))
  ∧ (replace_units Q vbn e = Ok t →
     rewrap U Q vbn (RScalar (SRef e)) (FScalar (VNum m)) = Ok (WQty (VQty m t))).
Proof.
  split; [exact (rewrap_none U Q vbn r)|]. split; [exact (rewrap_unit U Q vbn u s m)|exact (rewrap_ref U Q vbn e t m)].
Qed.
Theorem C17_ret_wrapped_tuple U Q vbn rs vs :
  List.length rs = List.length vs →
  rewrap U Q vbn (RTuple rs) (FTuple vs)
  = rbind (rmapM (λ sv, wrap_elem U Q vbn sv.1 sv.2) (zip rs vs)) (λ l, Ok (WTuple l)).
Proof. exact (rewrap_tuple U Q vbn rs vs). Qed.
(** the unit of '=expr': exponent of k = sum over the names of expr of
    (exponent of k in the units of the argument bound to that name) * (exponent of the name) *)
Theorem C17_ref_unit_exponents vbn e t k :
  replace_units repaired vbn e = Ok t → exp_of t k = ref_exp vbn (map_to_list e) k.
Proof. exact (replace_units_exp vbn e t k). Qed.
Theorem C17_ref_unit_single Q vbn k x v :
  vbn !! k = Some v → q_replace_mag Q && qz (v_mag v) && qneg x = false →
  replace_units Q vbn {[ k := x ]} = Ok (uc_pow (v_units v) x).
Proof. exact (replace_units_single Q vbn k x v). Qed.
Theorem C17_ref_unit_defined Q vbn e :
  (∀ k x, e !! k = Some x → ∃ v, vbn !! k = Some v ∧ (q_replace_mag Q && qz (v_mag v) && qneg x = false)) →
  ∃ t, replace_units Q vbn e = Ok t.
Proof. exact (replace_units_defined Q vbn e). Qed.

(** ** definitions / dependents: the classification rule *)
Theorem C17_definition_rule specs i k :
  parse_wrap_args specs !! i = Some (CDef k) ↔
  ∃ e, specs !! i = Some (SRef e) ∧ single_one e = Some k
       ∧ ∀ j e', (j < i)%nat → specs !! j = Some (SRef e') → single_one e' ≠ Some k.
Proof. exact (parse_wrap_args_rule specs i k). Qed.
Theorem C17_single_name_power_one e k : single_one e = Some k ↔ e = {[ k := 1%Qc ]}.
Proof. exact (single_one_spec e k). Qed.
Theorem C17_values_by_name specs vs i k v :
  parse_wrap_args specs !! i = Some (CDef k) → vs !! i = Some v →
  named_values (parse_wrap_args specs) vs !! k = Some v.
Proof. exact (parse_wrap_args_defs specs vs i k v). Qed.

(** ** arity is checked at decoration time *)
Theorem C17_arity_checked specs ps :
  List.length specs ≠ List.length ps → wraps_decorate specs ps = Err EType.
Proof. exact (wraps_arity specs ps). Qed.
Theorem C17_arity_checked_check U dspecs ps ds :
  rmapM (λ d, match d with None => Ok None | Some u => rbind (us_dim U u) (λ x, Ok (Some x)) end) dspecs = Ok ds →
  List.length dspecs ≠ List.length ps → check_decorate U dspecs ps = Err EType.
Proof. exact (check_arity U dspecs ps ds). Qed.

(** ** check raises DimensionalityError iff some non-None position differs in dimensionality;
    otherwise the function receives the arguments untouched *)
Theorem C17_check_iff U ds ps pos kw vs :
  NoDup (names ps) → bind ps pos kw = Ok vs →
  (∀ v, v ∈ vs → ∃ d, value_dim U v = Ok d) →
  (check_call U ds ps pos kw = Err EDim ↔ dim_mismatch U ds vs)
  ∧ (¬ dim_mismatch U ds vs → check_call U ds ps pos kw = Ok vs).
Proof. exact (check_iff U ds ps pos kw vs). Qed.

(** ** non-vacuity: f(a, b=Q(3,'kilometer'), c, d) decorated with ['=A', Unit(meter), '=A**2', None],
    called f(Q(7,'hour'), d=9, c=Q(1,'second**2')) — positional + keywords + a default *)
Example C17_nonvacuous_call :
  NoDup (names ex_ps) ∧ List.length (parse_wrap_args ex_specs) = List.length ex_ps
  ∧ bind ex_ps [VQty (mkq 7 1) (mkuc [("hour", mkq 1 1)])] ex_kw = Ok ex_vs
  ∧ bind ex_ps ex_vs ∅ = Ok ex_vs
  ∧ call_guard (parse_wrap_args ex_specs) ex_vs = true
  ∧ wraps_observed demo_sys repaired true (parse_wrap_args ex_specs) ex_ps
      [VQty (mkq 7 1) (mkuc [("hour", mkq 1 1)])] ex_kw
    = Ok [VNum (mkq 7 1); VNum (mkq 3000 1); VNum (mkq 1 12960000); VNum (mkq 9 1)].
Proof. exact example_binding. Qed.
Example C17_nonvacuous_check :
  check_call demo_sys [Some (mkuc [("[length]", mkq 1 1)]); None] [Param "a" None; Param "b" None]
    [VQty (mkq 1 1) (mkuc [("hour", mkq 1 1)])] (list_to_map [("b", VNum (mkq 1 1))]) = Err EDim
  ∧ check_call demo_sys [Some (mkuc [("[length]", mkq 1 1)]); None] [Param "a" None; Param "b" None]
    [VQty (mkq 1 1) (mkuc [("kilometer", mkq 1 1)])] (list_to_map [("b", VNum (mkq 1 1))])
    = Ok [VQty (mkq 1 1) (mkuc [("kilometer", mkq 1 1)]); VNum (mkq 1 1)].
Proof. exact example_check. Qed.
(** offset units (affine conversion, not a scaling): 25 degC declared kelvin / degF *)
Example C17_nonvacuous_offset_units :
  wraps_observed (table_sys temp_table) repaired true
    (parse_wrap_args [SUnit (mkuc [("kelvin", mkq 1 1)]) true; SUnit (mkuc [("degree_Fahrenheit", mkq 1 1)]) false])
    [Param "a" None; Param "b" None]
    [VQty (mkq 25 1) (mkuc [("degree_Celsius", mkq 1 1)])]
    (list_to_map [("b", VQty (mkq 25 1) (mkuc [("degree_Celsius", mkq 1 1)]))])
  = Ok [VNum (mkq 5963 20); VNum (mkq 77 1)].
Proof. exact example_offset. Qed.
(** ** repeated use: the k-th call through one wrapper (one decorator object) is re-wrapped like
    the first; equal calls give equal outcomes *)
Theorem C17_repeated_calls U Q strict specs ret ps f calls outs i pos kw :
  wraps_session U Q strict specs ret ps f calls = Ok outs → calls !! i = Some (pos, kw) →
  outs !! i = Some (wraps_run U Q strict specs ret ps f pos kw).
Proof. exact (session_nth U Q strict specs ret ps f calls outs i pos kw). Qed.
Theorem C17_repeated_calls_agree U Q strict specs ret ps f calls outs i j c :
  wraps_session U Q strict specs ret ps f calls = Ok outs →
  calls !! i = Some c → calls !! j = Some c → outs !! i = outs !! j.
Proof. exact (session_repeat U Q strict specs ret ps f calls outs i j c). Qed.
