(** Properties/C19.v — measurements carry uncertainty consistently through conversion and
    arithmetic; the textual notations parse to that same measurement.
    Only statements, each closed by [exact] of a lemma proved in Proofs/MeasureProofs.v or
    Proofs/UncTokProofs.v.  Unless a registry is named, every theorem holds for EVERY registry
    [r], environment [E] of atom standard deviations, and every input (no size bound).

    An uncertain magnitude is an exact first-order affine form (Model/Measure.v); σ is stated
    through the variance [Σ der_i²·σ_i²] (a rational), and as the rational [|d|·σ_i] for forms
    that depend on a single variable (a freshly constructed or converted measurement). *)
From Coq Require Import Ascii String Qcabs.
From PintV Require Import Model.UC Model.Eval Model.Registry Model.Measure Model.UncTok.
From PintV Require Import Proofs.UCProofs Proofs.MeasureProofs Proofs.UncTokProofs.
From PintV Require Import Gen.DefaultDefs Gen.DefaultReg.
Open Scope string_scope.

(** * Constructors and accessors *)

(** every form that denotes "value v, absolute error e, units u" normalises to the same
    (nominal, σ, units): Quantity pair, numbers plus unit, ufloat plus unit, Quantity holding a
    ufloat, plus_minus absolute, plus_minus relative with e/|v| *)
Theorem C19_constructor_forms_agree r v e u :
  let ref := ctor_norm r (CNums v (ENum e) u) in
  ctor_norm r (CQty v u (ENum e)) = ref
  ∧ ctor_norm r (CQty v u (EQty e u)) = ref
  ∧ ctor_norm r (CNums v (EQty e u) u) = ref
  ∧ ctor_norm r (CUfloat v e u) = ref
  ∧ ctor_norm r (CQtyU v e u) = ref
  ∧ ctor_norm r (CPlusMinus v u (ENum e) false) = ref
  ∧ ctor_norm r (CPlusMinus v u (EQty e u) false) = ref
  ∧ ctor_norm r (CBare v (ENum e)) = ctor_norm r (CNums v (ENum e) ∅)
  ∧ (v ≠ 0%Qc → ctor_norm r (CPlusMinus v u (ENum (e / Qcabs v)) true) = ref).
Proof. exact (ctor_forms_agree r v e u). Qed.
(** an error given as a Quantity in another unit is the converted number, in every form *)
Theorem C19_constructor_error_quantity r v e eu u x :
  qty_to r e eu u = Ok x →
  ctor_norm r (CNums v (EQty e eu) u) = ctor_norm r (CNums v (ENum x) u)
  ∧ ctor_norm r (CQty v u (EQty e eu)) = ctor_norm r (CNums v (ENum x) u)
  ∧ ctor_norm r (CPlusMinus v u (EQty e eu) false) = ctor_norm r (CNums v (ENum x) u).
Proof. exact (ctor_error_quantity r v e eu u x). Qed.

(** value, error, rel = |σ/nominal| report the constructor's (v, s, u) back; σ² is the variance *)
Theorem C19_accessors E i v s u :
  let m := meas_new i (v, s, u) in
  let E' := env_new E i (v, s, u) in
  m_value m = (v, u)
  ∧ m_error E' m = Some (s, u)
  ∧ variance E' (m_mag m) = (s * s)%Qc
  ∧ (v ≠ 0%Qc → m_rel E' m = Ok (Qcabs (s / v)))
  ∧ (v = 0%Qc → m_rel E' m = Err EZeroDiv).
Proof. exact (accessors_spec E i v s u). Qed.

(** negative errors are refused by every form, and no form ever yields a negative σ *)
Theorem C19_negative_error_rejected r v e u :
  (e < 0)%Qc →
  ctor_norm r (CNums v (ENum e) u) = Err EValue
  ∧ ctor_norm r (CQty v u (ENum e)) = Err EValue
  ∧ ctor_norm r (CQty v u (EQty e u)) = Err EValue
  ∧ ctor_norm r (CBare v (ENum e)) = Err EValue
  ∧ ctor_norm r (CUfloat v e u) = Err EValue
  ∧ ctor_norm r (CQtyU v e u) = Err EValue
  ∧ ctor_norm r (CPlusMinus v u (ENum e) false) = Err EValue
  ∧ (v ≠ 0%Qc → ctor_norm r (CPlusMinus v u (ENum e) true) = Err EValue).
Proof. exact (ctor_negative_rejected r v e u). Qed.
Theorem C19_sigma_never_negative r c v s u : ctor_norm r c = Ok (v, s, u) → (0 <= s)%Qc.
Proof. exact (ctor_norm_nonneg r c v s u). Qed.

(** F72 (known finding): an error Quantity in ANOTHER offset unit is converted like an
    absolute temperature — a non-negative error is refused, or shifted by the offset *)
Theorem C19_constructor_offset_error_refuted :
  (0 <= mkq 1 2)%Qc
  ∧ ctor_norm mini_reg (CQty (mkq 20 1) (u1 "degree_Celsius") (EQty (mkq 1 2) (u1 "kelvin"))) = Err EValue
  ∧ ctor_norm mini_reg (CPlusMinus (mkq 20 1) (u1 "degree_Celsius") (EQty (mkq 1 2) (u1 "kelvin")) false) = Err EValue
  ∧ ctor_norm mini_reg (CQty (mkq 20 1) (u1 "degree_Fahrenheit") (EQty (mkq 1 2) (u1 "degree_Celsius")))
    = Ok (mkq 20 1, mkq 329 10, u1 "degree_Fahrenheit")
  ∧ conv_affine mini_reg (u1 "degree_Celsius") (u1 "degree_Fahrenheit") = Ok (mkq 9 5, mkq 32 1)
  ∧ (mkq 9 5 * mkq 1 2)%Qc ≠ mkq 329 10.
Proof. exact ctor_offset_error_refuted. Qed.
(** … guarded: when the conversion of the error is multiplicative the error is scaled by the slope *)
Theorem C19_constructor_offset_error_guarded r e eu u a :
  conv_affine r eu u = Ok (a, 0%Qc) → err_in r (EQty e eu) u = Ok (a * e)%Qc.
Proof. exact (err_in_multiplicative r e eu u a). Qed.

(** * Conversion *)

(** under the conversion x ↦ a·x + b the nominal value maps like the plain quantity, the
    variance is multiplied by a² (σ by |a|), covariances by a *)
Theorem C19_convert_scales_sigma r m dst m' :
  meas_to r m dst = Ok m' →
  ∃ a b, conv_affine r (m_units m) dst = Ok (a, b)
       ∧ m_units m' = dst
       ∧ nom (m_mag m') = (a * nom (m_mag m) + b)%Qc
       ∧ qty_to r (nom (m_mag m)) (m_units m) dst = Ok (nom (m_mag m'))
       ∧ (∀ E, variance E (m_mag m') = (a * a * variance E (m_mag m))%Qc)
       ∧ (∀ E m2, covariance E (m_mag m') m2 = (a * covariance E (m_mag m) m2)%Qc).
Proof. exact (meas_to_spec r m dst m'). Qed.
(** for a constructed measurement: error = |a|·s exactly, and rel is invariant when the
    conversion is multiplicative (b = 0, a ≠ 0) *)
Theorem C19_convert_fresh r E i v s u dst m' :
  let m := meas_new i (v, s, u) in
  let E' := env_new E i (v, s, u) in
  meas_to r m dst = Ok m' →
  ∃ a b, conv_affine r u dst = Ok (a, b)
    ∧ m_value m' = ((a * v + b)%Qc, dst)
    ∧ qty_to r v u dst = Ok (a * v + b)%Qc
    ∧ m_error E' m' = Some ((Qcabs a * s)%Qc, dst)
    ∧ variance E' (m_mag m') = (a * a * (s * s))%Qc
    ∧ (b = 0%Qc → a ≠ 0%Qc → v ≠ 0%Qc → m_rel E' m' = m_rel E' m).
Proof. exact (convert_fresh_spec r E i v s u dst m'). Qed.
(** conversion fails for the measurement exactly like for the plain quantity *)
Theorem C19_convert_error_like_plain r m dst e :
  conv_affine r (m_units m) dst = Err e →
  meas_to r m dst = Err e ∧ qty_to r (nom (m_mag m)) (m_units m) dst = Err e.
Proof.
  intros H. split; [exact (meas_to_err r m dst e H) | unfold qty_to; rewrite H; reflexivity].
Qed.

(** * Arithmetic: exact first-order propagation on variances *)
Theorem C19_arith_first_order E a b :
  variance E (aff_add a b) = (variance E a + variance E b + 2 * covariance E a b)%Qc
  ∧ variance E (aff_sub a b) = (variance E a + variance E b - 2 * covariance E a b)%Qc
  ∧ variance E (aff_mul a b)
    = (nom b * nom b * variance E a + nom a * nom a * variance E b + 2 * nom a * nom b * covariance E a b)%Qc
  ∧ (∀ c, aff_div a b = Ok c →
       nom b ≠ 0%Qc ∧ nom c = (nom a / nom b)%Qc ∧
       variance E c = (variance E a / (nom b * nom b)
                       + nom a * nom a * variance E b / (nom b * nom b * nom b * nom b)
                       - 2 * nom a * covariance E a b / (nom b * nom b * nom b))%Qc)
  ∧ (nom b = 0%Qc → aff_div a b = Err EZeroDiv)
  ∧ nom (aff_add a b) = (nom a + nom b)%Qc ∧ nom (aff_sub a b) = (nom a - nom b)%Qc
  ∧ nom (aff_mul a b) = (nom a * nom b)%Qc.
Proof.
  split; [exact (variance_add E a b)|]. split; [exact (variance_sub E a b)|].
  split; [exact (variance_mul E a b)|]. split; [exact (variance_div E a b)|].
  split; [exact (aff_div_zero a b)|]. repeat split; reflexivity.
Qed.
(** independent operands (no shared variable): the familiar sums of squares *)
Theorem C19_arith_independent E a b :
  independent a b →
  variance E (aff_add a b) = (variance E a + variance E b)%Qc
  ∧ variance E (aff_sub a b) = (variance E a + variance E b)%Qc
  ∧ variance E (aff_mul a b) = (nom b * nom b * variance E a + nom a * nom a * variance E b)%Qc.
Proof.
  intros H. rewrite variance_add, variance_sub, variance_mul, (covariance_independent E a b H).
  repeat split; ring.
Qed.
(** scalar affine maps; constants carry no uncertainty; the variance is never negative *)
Theorem C19_arith_affine E s o a c :
  variance E (aff_affine s o a) = (s * s * variance E a)%Qc
  ∧ variance E (aff_const c) = 0%Qc ∧ (0 <= variance E a)%Qc.
Proof.
  split; [exact (variance_affine E s o a)|]. split; [exact (variance_const E c) | exact (variance_nonneg E a)].
Qed.
(** correlations are carried by shared variables: m − m and m / m have no uncertainty *)
Theorem C19_self_correlation E a :
  variance E (aff_sub a a) = 0%Qc ∧ nom (aff_sub a a) = 0%Qc
  ∧ (∀ c, aff_div a a = Ok c → variance E c = 0%Qc ∧ nom c = 1%Qc).
Proof.
  destruct (variance_sub_self E a) as [V N]. split; [exact V|]. split; [exact N|].
  exact (variance_div_self E a).
Qed.

(** measurements: units of * and /; + and − convert one operand (affinely) into the other's
    units, refuse different dimensions, and propagate variances with the covariance term *)
Theorem C19_meas_mul_div blind r m1 m2 m :
  (meas_muldiv blind false r m1 m2 = Ok m →
     m_units m = uc_mul (m_units m1) (m_units m2) ∧ m_mag m = aff_mul (m_mag m1) (m_mag m2))
  ∧ (meas_muldiv blind true r m1 m2 = Ok m →
     m_units m = uc_div (m_units m1) (m_units m2) ∧ aff_div (m_mag m1) (m_mag m2) = Ok (m_mag m)).
Proof. split; [exact (meas_muldiv_spec blind r m1 m2 m) | exact (meas_div_spec blind r m1 m2 m)]. Qed.
Theorem C19_meas_add_sub blind sub r m1 m2 m :
  meas_addsub blind sub r m1 m2 = Ok m →
  ∃ a1 b1 a2 b2,
    let x1 := aff_affine a1 b1 (m_mag m1) in
    let x2 := aff_affine a2 b2 (m_mag m2) in
    ((m_units m = m_units m1 ∧ a1 = 1%Qc ∧ b1 = 0%Qc ∧ conv_affine r (m_units m2) (m_units m1) = Ok (a2, b2))
     ∨ (m_units m = m_units m2 ∧ a2 = 1%Qc ∧ b2 = 0%Qc ∧ conv_affine r (m_units m1) (m_units m2) = Ok (a1, b1)))
    ∧ nom (m_mag m) = (if sub then nom x1 - nom x2 else nom x1 + nom x2)%Qc
    ∧ ∀ E, variance E (m_mag m)
           = (if sub then variance E x1 + variance E x2 - 2 * covariance E x1 x2
              else variance E x1 + variance E x2 + 2 * covariance E x1 x2)%Qc.
Proof. exact (meas_addsub_spec blind sub r m1 m2 m). Qed.
Theorem C19_meas_add_sub_dimension_error blind sub r m1 m2 d1 d2 :
  dim_of r (m_units m1) = Ok d1 → dim_of r (m_units m2) = Ok d2 → d1 ≠ d2 →
  meas_addsub blind sub r m1 m2 = Err EDim.
Proof. exact (meas_addsub_dim_error blind sub r m1 m2 d1 d2). Qed.
Theorem C19_meas_self_correlation blind r m m' E :
  meas_addsub blind true r m m = Ok m' →
  nom (m_mag m') = 0%Qc ∧ variance E (m_mag m') = 0%Qc ∧ m_units m' = m_units m.
Proof. exact (meas_sub_self blind r m m' E). Qed.

(** a measurement that is the RESULT of an operation is re-wrapped without creating a fresh
    variable ([meas_wrap]); combined again with its own ancestors the correlations show:
    wrap(a) − a = 0 ± 0, c·m − m has σ = |c − 1|·σ_m, (m + m) + m has (1+1+1)·σ_m = 3·σ_m, m minus m converted
    (there and back, or once) has no / the slope-difference uncertainty, (m·t)/m has t's σ only *)
Theorem C19_derived_correlation E a b u c s o s1 o1 s2 o2 :
  (m_mag (meas_wrap a u) = a ∧ m_units (meas_wrap a u) = u
   ∧ variance E (aff_sub (m_mag (meas_wrap a u)) a) = 0%Qc
   ∧ covariance E (m_mag (meas_wrap a u)) a = variance E a)
  ∧ variance E (aff_sub (aff_affine c 0 a) a) = ((c - 1) * (c - 1) * variance E a)%Qc
  ∧ variance E (aff_add (aff_add a a) a) = ((1 + 1 + 1) * (1 + 1 + 1) * variance E a)%Qc
  ∧ ((s2 * s1 = 1)%Qc → variance E (aff_sub a (aff_affine s2 o2 (aff_affine s1 o1 a))) = 0%Qc)
  ∧ variance E (aff_sub a (aff_affine s o a)) = ((1 - s) * (1 - s) * variance E a)%Qc
  ∧ (∀ d, aff_div (aff_mul a b) a = Ok d → variance E d = variance E b ∧ nom d = nom b).
Proof.
  split; [exact (rewrap_identity E a u)|]. split; [exact (derived_scale_sub E c a)|].
  split; [exact (derived_add_add E a)|]. split; [exact (derived_convert_back E a s1 o1 s2 o2)|].
  split; [exact (derived_convert_sub E a s o) | exact (derived_mul_div E a b)].
Qed.

(** bare (unit-less) operands of + and −: only an EXACT zero skips the unit check, and an
    uncertain number 0 ± s with s > 0 is not zero; any other bare number is refused by a
    quantity that has a dimension, whatever the class of its magnitude; the exact zero changes
    neither value nor uncertainty *)
Theorem C19_bare_operand_rule sub r E m b :
  (bare_zero E b = true ↔ nom b = 0%Qc ∧ variance E b = 0%Qc)
  ∧ (variance E b ≠ 0%Qc → bare_zero E b = false)
  ∧ (∀ d, dim_of r (m_units m) = Ok d → d ≠ ∅ → bare_zero E b = false →
       meas_addsub_bare sub r E m b = Err EDim)
  ∧ (bare_zero E b = true →
       ∃ z, meas_addsub_bare sub r E m b = Ok z ∧ m_units z = m_units m
          ∧ nom (m_mag z) = nom (m_mag m) ∧ variance E (m_mag z) = variance E (m_mag m))
  ∧ (∀ m', bare_zero E b = false → dim_of r (m_units m) = Ok ∅ → meas_to r m ∅ = Ok m' →
       meas_addsub_bare sub r E m b = Ok (Meas ((if sub then aff_sub else aff_add) (m_mag m') b) ∅)).
Proof.
  split; [exact (bare_zero_spec E b)|]. split; [exact (bare_uncertain_not_zero E b)|].
  split; [exact (bare_rule_refuses sub r E m b)|]. split; [exact (bare_rule_zero sub r E m b)|].
  intros m'. exact (bare_rule_dimensionless sub r E m b m').
Qed.

(** histories on ONE measurement object: reading value / error / rel, or converting what they
    returned, never changes what is reported later; after an in-place conversion the accessors
    report what the out-of-place conversion of the untouched measurement reports (hence, by
    [C19_convert_fresh], the converted value, |slope|·σ and the new units); a refused in-place
    conversion changes nothing *)
Theorem C19_history_independent r E m ops pre post dst m' :
  mrun r m ops = mrun r m (only_ito ops)
  ∧ (Forall (λ o, is_ito o = false) ops → mrun r m ops = m)
  ∧ (Forall (λ o, is_ito o = false) pre → Forall (λ o, is_ito o = false) post →
     meas_to r m dst = Ok m' → observe E (mrun r m (pre ++ OIto dst :: post)) = observe E m')
  ∧ (∀ e, meas_to r m dst = Err e → mrun r m [OIto dst] = m).
Proof.
  split; [exact (mrun_reads_transparent r ops m)|]. split; [exact (mrun_no_ito r m ops)|].
  split; [exact (mrun_read_ito_read r E m pre post dst m') | exact (mrun_refused_ito r m dst)].
Qed.

(** F73 (known finding): the Measurement class ([blind = true]) applies the multiplicative
    rules to offset units, where the Quantity class refuses *)
Theorem C19_unit_rules_offset_refuted :
  let a := fresh_m 1 (mkq 20 1) (u1 "degree_Celsius") in
  let b := fresh_m 2 (mkq 10 1) (u1 "degree_Celsius") in
  res_nom (meas_addsub true false mini_reg a b) = Some (mkq 30 1)
  ∧ res_units (meas_addsub true false mini_reg a b) = Some (u1 "degree_Celsius")
  ∧ meas_addsub false false mini_reg a b = Err EOffset
  ∧ is_ok (meas_muldiv true false mini_reg a b) = true
  ∧ meas_muldiv false false mini_reg a b = Err EOffset.
Proof. exact offset_rules_refuted. Qed.
(** … guarded: without offset units the two classes compute the same *)
Theorem C19_unit_rules_guarded sub dv r m1 m2 :
  has_offset r (m_units m1) = Ok false → has_offset r (m_units m2) = Ok false →
  meas_addsub true sub r m1 m2 = meas_addsub false sub r m1 m2
  ∧ meas_muldiv true dv r m1 m2 = meas_muldiv false dv r m1 m2.
Proof.
  intros H1 H2. split; [exact (blind_agrees_addsub sub r m1 m2 H1 H2) | exact (blind_agrees_muldiv dv r m1 m2 H1 H2)].
Qed.

(** * The uncertainty tokenizer *)

(** token streams in which no position starts one of the three trigger patterns
    ("+" "/" "-";  "(" [-] num "+" "/" "-" num ")";  NUMBER "(" NUMBER ")") are returned unchanged *)
Theorem C19_unc_tok_conservative q l : no_trigger l → unc_tokenize q l = Ok l.
Proof. exact (utz_conservative q l). Qed.
(** a syntactic sufficient condition: no "/" token, no NUMBER directly before "(", and the two
    empty-text tokens (NEWLINE, ENDMARKER) Python appends *)
Theorem C19_unc_tok_conservative_syntactic q body nl em :
  tx nl = "" → tx em = "" → is_number nl = false → is_number em = false →
  Forall (λ x, tx x ≠ "/") body →
  (∀ i t x rest, drop i body = t :: x :: rest → is_number t = true → tx x ≠ "(") →
  unc_tokenize q (app body [nl; em]) = Ok (app body [nl; em]).
Proof.
  intros H1 H2 H3 H4 H5 H6. apply utz_conservative. exact (no_trigger_plain body nl em H1 H2 H3 H4 H5 H6).
Qed.

(** [unc_tokens]: for EVERY well-formed notation instance — parenthesised or short, with or
    without a leading minus, with no exponent / e<digits> / e|E ± <digits> — placed at any
    positions and followed by any input [rest] that passes the look-ahead guard, the tokenizer
    yields [v·10^e ; +/- ; u·10^e] (texts [v ++ e], [u ++ e]; zero and nan mantissas untouched)
    followed by the rewriting of [rest].  Holds for both settings of every defect switch; the
    switches only change the guard ([follow_ok]) and the uncertainty text of [v(u)]. *)
Theorem C19_unc_tokens q n ps rest :
  inst_ok q n = true → length ps = length (render_unc n) → follow_ok q (n_e n) rest = true →
  ∃ out, unc_tokenize q (app (place (render_unc n) ps) rest) = (r ←r unc_tokenize q rest; Ok (app out r))
       ∧ map core_of out = expected_cores q n.
Proof. exact (unc_tokens_spec q n ps rest). Qed.

(** the well-formedness guard is met by every short instance [v(u)] with a decimal literal v and
    a digit-only u (and any digit exponent) *)
Theorem C19_unc_tokens_short_guard v u e :
  lit_ok false v = true → nonempty_digits u = true → exp_ok e = true →
  inst_ok as_found (NInst v (TyNumber, u) e SShort) = true.
Proof. exact (inst_ok_short_as_found v u e). Qed.

(** the texts [v ++ e], [u ++ e] denote v·10^e and u·10^e: for every decimal literal
    (digits.digits, or digits) and every exponent style, [parse_number] — the reading
    [ParserHelper.eval_token] gives a NUMBER token — of the rewritten text is the value of the
    literal times 10^e (a zero or nan mantissa is left untouched, which denotes the same) *)
Theorem C19_unc_token_values ip fp e :
  exp_ok e = true →
  (all_digits ip = true → all_digits fp = true → (ip ≠ "" ∨ fp ≠ "") →
     ∃ qv, parse_number (ip ++ String "."%char fp) = Some qv
         ∧ parse_number ((ip ++ String "."%char fp) ++ e_text e) = Some (qv * pow10 (e_value e))%Qc)
  ∧ (nonempty_digits ip = true →
     ∃ qv, parse_number ip = Some qv
         ∧ parse_number (ip ++ e_text e) = Some (qv * pow10 (e_value e))%Qc).
Proof.
  intros He. split.
  - intros H1 H2 H3. exact (token_value_dot ip fp e H1 H2 H3 He).
  - intros H1. exact (token_value_int ip e H1 He).
Qed.
(** the uncertainty text of [v(u)] as found: [0.u] is u / 10^(number of digits of u) *)
Theorem C19_short_prefix_value u :
  nonempty_digits u = true →
  parse_number ("0." ++ u)
  = Some (Q2Qc (inject_Z (digits_value u)) * pow10 (0 - Z.of_nat (String.length u)))%Qc.
Proof. exact (short_prefix_value u). Qed.

(** F15 (known finding): with the tokenizer as found, the notation as the LAST thing in the
    input raises IndexError ([1.0(1)] and [(1.0 +/- 0.1)] followed by NEWLINE, ENDMARKER), while
    [1.0(1) m] is rewritten; the repaired look-ahead yields [1.0 ; +/- ; 0.1] there *)
Theorem C19_unc_eof_refuted :
  inst_ok as_found inst_short = true ∧ inst_ok as_found inst_paren = true
  ∧ unc_tokenize as_found (app (place (render_unc inst_short) (replicate 4 pos0)) [tok_nl; tok_end]) = Err EIndex
  ∧ unc_tokenize as_found (app (place (render_unc inst_paren) (replicate 7 pos0)) [tok_nl; tok_end]) = Err EIndex
  ∧ (∃ l, unc_tokenize as_found (app (place (render_unc inst_short) (replicate 4 pos0))
                                  [UTok TyName "m" (1, 7)%Z (1, 8)%Z; tok_nl; tok_end]) = Ok l)
  ∧ (∃ l, unc_tokenize repaired (app (place (render_unc inst_short) (replicate 4 pos0)) [tok_nl; tok_end]) = Ok l
          ∧ map core_of l = [(TyNumber, "1.0"); (TyOp, "+/-"); (TyNumber, "0.1"); (TyNewline, ""); (TyEnd, "")]).
Proof. exact unc_eof_witness. Qed.
(** as found, EVERY exponent-less notation at the end of the input fails the look-ahead … *)
Theorem C19_unc_eof_as_found q nl rest :
  q_eof_index q = true → tx nl = "" → get_possible_e q (nl :: rest) 0 = Err EIndex.
Proof. exact (get_possible_e_eof_as_found q nl rest). Qed.
(** … guarded: [C19_unc_tokens] is the statement under the boolean guard [follow_ok]; with the
    look-ahead repaired the end of the input satisfies it *)
Theorem C19_unc_eof_guarded q n ps nl rest :
  q_eof_index q = false → tx nl = "" → n_e n = ENone →
  inst_ok q n = true → length ps = length (render_unc n) →
  ∃ out, unc_tokenize q (app (place (render_unc n) ps) (nl :: rest))
         = (r ←r unc_tokenize q (nl :: rest); Ok (app out r))
       ∧ map core_of out = expected_cores q n.
Proof.
  intros Hq Hnl He Hok Hl. apply unc_tokens_spec; [exact Hok | exact Hl |].
  rewrite He. exact (follow_ok_eof_repaired q nl rest Hq Hnl).
Qed.

(** F70 (known finding): in [v(u)] an integer u is read as 0.u; this is the reading "in units of
    the last digit of v" only when u has as many digits as v has decimals *)
Theorem C19_short_notation_refuted :
  let n := NInst (TyNumber, "1.23") (TyNumber, "4") ENone SShort in
  inst_ok as_found n = true
  ∧ expected_cores as_found n = [(TyNumber, "1.23"); (TyOp, "+/-"); (TyNumber, "0.4")]
  ∧ expected_cores repaired n = [(TyNumber, "1.23"); (TyOp, "+/-"); (TyNumber, "0.04")]
  ∧ parse_number "0.4" ≠ parse_number "0.04"
  ∧ short_unc_text repaired "123" "4" = "4" ∧ short_unc_text as_found "123" "4" = "0.4"
  ∧ short_unc_text repaired "1.2" "34" = "3.4".
Proof. exact short_prefix_refuted. Qed.
Theorem C19_short_notation_guarded v u nd :
  plain_decimals v = Some nd → nonempty_digits u = true → String.length u = nd → nd ≠ 0%nat →
  short_unc_text as_found v u = short_unc_text repaired v u.
Proof. exact (short_unc_text_agree v u nd). Qed.

(** F71 (known finding): a unit name that merely starts with e/E, a sign and a number are
    consumed as an exponent: tokens of "(4.0+/-0.1)eV+3*eV" *)
Theorem C19_e_lookahead_refuted :
  (map core_of <$> (match unc_tokenize as_found toks_ev with Ok l => Some l | Err _ => None end))
    = Some [(TyNumber, "4.0e+3"); (TyOp, "+/-"); (TyNumber, "0.1e+3"); (TyOp, "*"); (TyName, "eV"); (TyNewline, ""); (TyEnd, "")]
  ∧ (map core_of <$> (match unc_tokenize repaired toks_ev with Ok l => Some l | Err _ => None end))
    = Some [(TyNumber, "4.0"); (TyOp, "+/-"); (TyNumber, "0.1"); (TyName, "eV"); (TyOp, "+"); (TyNumber, "3");
            (TyOp, "*"); (TyName, "eV"); (TyNewline, ""); (TyEnd, "")].
Proof. exact e_prefix_refuted. Qed.

(** with the tree builder shared with C07: "+/-" has the highest priority, so
    [v +/- u unit] and [v +/- u * unit] are (ufloat(v, u)) · unit *)
Theorem C19_unc_parse v u n :
  build op_priority [TNum v; TOp "+/-"; TNum u; TName n; TOther; TEnd]
  = Ok (Bin "" (Bin "+/-" (Leaf (TNum v)) (Leaf (TNum u))) (Leaf (TName n)))
  ∧ build op_priority [TNum v; TOp "+/-"; TNum u; TOp "*"; TName n; TOther; TEnd]
  = Ok (Bin "*" (Bin "+/-" (Leaf (TNum v)) (Leaf (TNum u))) (Leaf (TName n)))
  ∧ prio op_priority "+/-" = Some 4%Z
  ∧ forallb (λ kv : string * Z, String.eqb kv.1 "+/-" || Z.ltb kv.2 4) op_priority = true.
Proof.
  split; [exact (unc_parse_tree v u n)|]. split; [exact (unc_parse_tree_mul v u n) | exact plus_minus_binds_tightest].
Qed.

(** * Formatting: [join_unc] adds the parentheses iff they are absent *)
Theorem C19_join_unc sep lpar rpar m u :
  (String.prefix lpar m = false → ends_with rpar m = false →
     join_unc sep lpar rpar m u = lpar ++ m ++ rpar ++ sep ++ u)
  ∧ (String.prefix lpar m = true ∨ ends_with rpar m = true →
     join_unc sep lpar rpar m u = m ++ sep ++ u).
Proof. exact (join_unc_spec sep lpar rpar m u). Qed.

(** * Non-vacuity *)
Example C19_nonvacuous_measure :
  let E : venv := {[ 1%positive := mkq 1 10 ]} in
  let m := fresh_m 1 (mkq 4 1) (u1 "meter") in
  let m' := meas_to mini_reg m (u1 "centimeter") in
  res_nom m' = Some (mkq 400 1) ∧ res_units m' = Some (u1 "centimeter")
  ∧ (m'' ← (match m' with Ok x => Some x | Err _ => None end); m_error E m'') = Some (mkq 10 1, u1 "centimeter")
  ∧ (match m' with Ok x => m_rel E x | Err e => Err e end) = Ok (mkq 1 40)
  ∧ m_rel E m = Ok (mkq 1 40)
  ∧ res_var E (meas_addsub true false mini_reg m m) = Some (mkq 4 100)
  ∧ res_var E (meas_addsub true true mini_reg m m) = Some 0%Qc
  ∧ ctor_norm mini_reg (CQty (mkq 4 1) (u1 "meter") (EQty (mkq 10 1) (u1 "centimeter")))
    = Ok (mkq 4 1, mkq 1 10, u1 "meter").
Proof. exact mini_example. Qed.
(** on the registry regenerated from /repo: degC → degF is x ↦ 9/5·x + 32, inch → cm is ×2.54 *)
Example C19_nonvacuous_default_registry :
  conv_affine default_reg (u1 "degree_Celsius") (u1 "degree_Fahrenheit") = Ok (mkq 9 5, mkq 32 1)
  ∧ conv_affine default_reg (u1 "inch") (u1 "centimeter") = Ok (mkq 254 100, 0%Qc)
  ∧ conv_affine default_reg (u1 "degree_Celsius") (u1 "kelvin") = Ok (1%Qc, mkq 27315 100)
  ∧ ctor_norm default_reg (CQty (mkq 4 1) (u1 "meter") (EQty (mkq 10 1) (u1 "centimeter")))
    = Ok (mkq 4 1, mkq 1 10, u1 "meter").
Proof. exact default_registry_example. Qed.
(** a notation instance with exponent that meets every hypothesis of [C19_unc_tokens] *)
Example C19_nonvacuous_tokens :
  let n := NInst (TyNumber, "1.0") (TyNumber, "0.1") (ESigned false false "05") (SParen true) in
  inst_ok as_found n = true
  ∧ follow_ok as_found (n_e n) [UTok TyName "m" (1, 17)%Z (1, 18)%Z; tok_nl; tok_end] = true
  ∧ expected_cores as_found n = [(TyOp, "-"); (TyNumber, "1.0e+05"); (TyOp, "+/-"); (TyNumber, "0.1e+05")]
  ∧ parse_number "1.0e+05" = Some (mkq 100000 1).
Proof. exact tokens_example. Qed.
