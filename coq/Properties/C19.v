(** Properties/C19.v — placeholder while the proofs are being developed. *)
From PintV Require Import Model.UC Model.Measure Model.UncTok.
Example C19_stub : join_unc " " "(" ")" "3(1)" "m" = "3(1) m"%string.
Proof. reflexivity. Qed.
