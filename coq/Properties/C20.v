(** Properties/C20.v — the bundled registry carries the internationally standardised values.
    Statements only; proofs in Proofs/StandardsProofs.v.

    [standards], [std_prefixes] (Gen/Standards.v) are the hand-curated table data/standards.tsv,
    written from the standards and not from pint's files; [default_reg] (Gen/DefaultReg.v) is the
    registry T1 regenerates from /repo's default_en.txt + constants_en.txt on every run.  The
    table theorems are finite: the bound is the table (every row of it, no sampling).

    FULL STATEMENT (what the property asks):
        forallb (row_ok default_reg) standards = true
    It does not hold for pint as shipped: the rows named in [known_deviations] (exactly the `rows`
    of the status=known entries of known_findings/C20.json: quarter, degree_Reaumur, parsec, the
    two SI defining constants pint does not define, two missing symbols) fail on the real registry
    as well.  Proved instead: the guarded statement (every row that is not listed), the
    refutations on the definition lines as shipped, and that the one-line repairs pass.  When a
    finding is repaired in /repo and its entry leaves known_findings, the guard shrinks with it;
    with no entries left the guarded theorem IS the full statement. *)
From PintV Require Import Model.UC Model.Eval Model.Registry Model.Standards Proofs.StandardsProofs.
From PintV Require Import Model.Groups Model.Systems Model.StandardsBase Proofs.StandardsBaseProofs.
From PintV Require Import Model.StandardsSymbols Proofs.StandardsSymbolsProofs.
From PintV Require Import Gen.DefaultDefs Gen.DefaultReg Gen.Standards.
Open Scope string_scope.

(** what a passed row says, for every registry and every row: [root_of] gives exactly
    factor × (1000^[mass] | (1/100)^[length]) in exact arithmetic (resp. within half a unit of the
    last stated digit), [dim_of] gives the row's dimension, [get_symbol] one of the standard
    symbols, and the converter is a plain scale or carries exactly the stated offset *)
Theorem C20_row_ok_sound r row : row_ok r row = true → row_holds r row.
Proof. exact (row_ok_holds r row). Qed.

(** every row of the table that no listed finding excuses holds in the default registry … *)
Theorem C20_defaults_match_standards_guarded :
  forallb (λ row, listed known_deviations row || row_ok default_reg row) standards = true.
Proof. exact defaults_match_standards_guarded. Qed.
(** … in lifted form *)
Theorem C20_defaults_match_standards_guarded_forall :
  ∀ row, In row standards → listed known_deviations row = false → row_holds default_reg row.
Proof. exact defaults_match_standards_guarded_forall. Qed.

(** the 24 SI prefixes and the 8 binary prefixes: name and symbol both denote the prefix, with
    value base^exponent and the standard symbol … *)
Theorem C20_prefix_table_standard : forallb (prefix_ok default_reg) std_prefixes = true.
Proof. exact prefix_table_standard. Qed.
Theorem C20_prefix_table_standard_forall p :
  In p std_prefixes →
  ∃ d v, r_prefixes default_reg !! sp_name p = Some d ∧ sp_value p = Some v ∧
         p_name d = sp_name p ∧ p_val d = v ∧ In (p_symbol d) (sp_syms p).
Proof. exact (prefix_table_standard_forall p). Qed.
(** … every spelling (name, symbol, alias) the registry accepts for one of them has that value,
    and the decimal ones are exactly 10^k for the Brochure's exponents *)
Theorem C20_prefix_spellings_standard :
  forallb (prefix_spelling_ok std_prefixes default_reg) (r_prefix_keys default_reg) = true.
Proof. exact prefix_spellings_standard. Qed.
Theorem C20_si_prefix_exponents :
  map sp_exp (List.filter (λ p, Z.eqb (sp_base p) 10) std_prefixes) =
  [-30; -27; -24; -21; -18; -15; -12; -9; -6; -3; -2; -1; 1; 2; 3; 6; 9; 12; 15; 18; 21; 24; 27; 30]%Z.
Proof. exact si_prefix_exponents. Qed.

(** the full statement is refuted by the definition lines as shipped (miniature registries holding
    exactly those lines, so the refutations survive a repair of /repo; the harness asks the real
    registry which state it is in):
      quarter = 28 * stone                      (a quarter is 28 lb = 2 stone)
      degree_Reaumur = 4 / 5 * kelvin; …        (one degree Réaumur is 5/4 K)
      parsec = 1 / tansec * astronomical_unit   (IAU 2015 B2: 648000/π au; tan(1″) is 7.8e-12 off) *)
Theorem C20_quarter_as_shipped_refuted : fails_on shipped_quarter "quarter".
Proof. exact quarter_as_shipped_refuted. Qed.
Theorem C20_reaumur_as_shipped_refuted : fails_on shipped_reaumur "degree_Reaumur".
Proof. exact reaumur_as_shipped_refuted. Qed.
Theorem C20_parsec_as_shipped_refuted : fails_on shipped_parsec "parsec".
Proof. exact parsec_as_shipped_refuted. Qed.
(** and the one-line repairs make the same rows pass *)
Theorem C20_repaired_lines_pass :
  passes_on repaired_quarter "quarter" ∧ passes_on repaired_reaumur "degree_Reaumur"
  ∧ passes_on repaired_parsec "parsec".
Proof. exact repaired_lines_pass. Qed.

(** famous rows spelled out *)
Example C20_inch_is_127_5000_meter :
  conv_factor default_reg {[ "inch" := 1%Qc ]} {[ "meter" := 1%Qc ]} = Ok (Some (mkq 127 5000), true).
Proof. exact inch_is_127_5000_meter. Qed.
Example C20_pound_is_045359237_kilogram :
  conv_factor default_reg {[ "pound" := 1%Qc ]} {[ "kilogram" := 1%Qc ]}
  = Ok (Some (mkq 45359237 100000000), true).
Proof. exact pound_is_045359237_kilogram. Qed.
Example C20_speed_of_light_is_299792458 :
  conv_factor default_reg {[ "speed_of_light" := 1%Qc ]} (mkuc [("meter", mkq 1 1); ("second", mkq (-1) 1)])
  = Ok (Some (mkq 299792458 1), true).
Proof. exact speed_of_light_is_299792458. Qed.
Example C20_gallon_is_231_cubic_inch :
  conv_factor default_reg {[ "gallon" := 1%Qc ]} {[ "inch" := mkq 3 1 ]} = Ok (Some (mkq 231 1), true).
Proof. exact gallon_is_231_cubic_inch. Qed.
Example C20_celsius_zero_is_27315_kelvin :
  ∃ d, resolve default_reg "degree_Celsius" = Ok d ∧ u_scale d = 1%Qc ∧ u_conv d = COffset (mkq 27315 100).
Proof. exact celsius_zero_is_27315_kelvin. Qed.
(** the guard is satisfiable by a non-trivial row: inch is in the table, not listed, exact, passes *)
Example C20_guard_satisfiable :
  ∃ row, row_named standards "inch" = Some row ∧ listed known_deviations row = false
         ∧ row_ok default_reg row = true ∧ s_kind row = KExact.
Proof. exact guard_satisfiable. Qed.

(** * The same table through the registry's own route to SI: [_get_base_units]
    ([UnitRegistry.get_base_units], [Quantity.to_base_units]) under the default system the
    definition file declares.  The registry does the gram → kilogram bookkeeping itself here, so
    the factor must be the row's SI factor as written in the table (farad = 1, K_cd = 683, G =
    6.67430e-11 …), with the coherent SI unit of the row's dimension. *)
(** what a passed exact row says, for every registry, system and row *)
Theorem C20_base_row_ok_sound r sy row :
  s_basis row = BSI → s_kind row = KExact → base_row_ok r sy row = true →
  ∃ dest, base_units_in r sy {[ s_name row := 1%Qc ]} = Ok (Some (s_factor row), true, dest)
          ∧ (∀ d u, In (d, u) si_units → exp_of dest u = dim_exp (s_dims row) d)
          ∧ (∀ k v, dest !! k = Some v → In k (map snd si_units) ∨ dimless r k = true).
Proof. exact (base_row_ok_exact r sy row). Qed.
(** the default system of the bundled file replaces gram by kilogram and nothing else *)
Theorem C20_default_system_is_mks :
  match default_system with
  | Some sy => forallb (λ kv : string * uc,
                 uc_eqb kv.2 {[ (if String.eqb kv.1 "gram" then "kilogram" else kv.1) := 1%Qc ]})
                 (map_to_list (s_base sy)) && bool_decide (is_Some (s_base sy !! "gram"))
  | None => false
  end = true.
Proof. exact default_system_is_mks. Qed.
(** every unlisted row of the table, asked through base units (finite: the bound is the table) *)
Theorem C20_defaults_base_units_match_standards_guarded :
  base_rows_ok_except known_deviations default_reg default_system standards = true.
Proof. exact defaults_base_units_match_standards. Qed.
Theorem C20_defaults_base_units_match_standards_guarded_forall :
  ∃ sy, default_system = Some sy ∧
        ∀ row, In row standards → listed known_deviations row = false → base_row_ok default_reg sy row = true.
Proof. exact defaults_base_units_match_standards_forall. Qed.
(** a row with mass to the power -1 spelled out: 1 farad = 1 × A² s⁴ kg⁻¹ m⁻² *)
Example C20_farad_base_units :
  ∃ sy dest, default_system = Some sy ∧
    base_units_in default_reg sy {[ "farad" := 1%Qc ]} = Ok (Some 1%Qc, true, dest) ∧
    exp_of dest "kilogram" = mkq (-1) 1 ∧ exp_of dest "meter" = mkq (-2) 1 ∧
    exp_of dest "second" = mkq 4 1 ∧ exp_of dest "ampere" = mkq 2 1.
Proof. exact farad_base_units. Qed.

(** * Symbol ↔ unit: the standard symbols of the table, bare and behind every prefix symbol
    (ms, mS, mA, ma, kA, mK, mH, mT, µF, KiB …), are read as that prefix and that unit.  Strings
    that are a unit's own spelling (cd, Pa, min, ft) or have two readings are the ambiguity of the
    symbols themselves (C08) and carry verdict [SVOwn] / [SVAmbiguous]; [SVBad] = the registry
    reads the string as something else, or not at all.  The model's name resolution is a pure
    function of the string: that the REAL registry answers the same on a fresh instance and after
    earlier (case-insensitive, long-name, plural) queries is the harness's history oracle. *)
(** what the good verdict says, for every registry *)
Theorem C20_symbol_verdict_sound cheap r p ps row us :
  prefixed_symbol_verdict cheap r p ps row us = SVOk →
  ∃ ud pv, r_units r !! us = Some ud ∧ r_units r !! (ps ++ us) = None ∧ sp_value p = Some pv ∧
           parse_unit_name r (ps ++ us) = [(sp_name p, u_name ud)] ∧
           (cheap = false → prefixed_value_ok r row pv (ps ++ us) = true).
Proof. exact (verdict_ok_reading cheap r p ps row us). Qed.
(** every prefix symbol × every symbol of every unlisted row (finite: about 5 400 strings) *)
Theorem C20_defaults_symbols_match_standards_guarded :
  symbols_ok_except true known_deviations default_reg std_prefixes standards = true.
Proof. exact defaults_symbols_match_standards. Qed.
Theorem C20_defaults_symbols_match_standards_guarded_forall row :
  In row standards → listed known_deviations row = false → sym_row_eligible default_reg row = true →
  bare_symbol_ok (shared_symbols standards) default_reg row = true ∧
  ∀ sv, In sv (prefixed_symbols_of true (shared_symbols standards) default_reg std_prefixes row) →
        verdict_fine sv.2 = true.
Proof. exact (defaults_symbols_match_standards_forall row). Qed.
(** the symbols whose unit letter exists in both cases (s/S, a/A, k/K, h/H, t/T, c/C, g/G, m/M,
    d/D, l/L, b/B, u/U), each with its reading AND its value (prefix × unit factor, dimension) *)
Example C20_case_pair_symbols : forallb (case_pair_ok default_reg) case_pairs = true.
Proof. exact case_pair_symbols. Qed.
