"""C01 — conversion succeeds exactly between units of identical dimensionality.

Theorems: coq/Properties/C01.v over Model/Registry.v ([dim_of], [conv_factor]) on the registry
regenerated from /repo's definition files (T1).  Correspondence: dimensionality of every
spelling, success/failure of conversion for unit pairs, compound units; oracles: the
biconditional, agreement of the four compatibility predicates, equivalence and congruence laws
on the real registry.
"""
import os
import random
from decimal import Decimal
from fractions import Fraction as F

from . import regk
from .common import coq_uc

EXPS = [F(-3), F(-2), F(-1), F(1), F(2), F(3), F(1, 2), F(-1, 2), F(1, 3), F(3, 2)]


def run(ck):
    import pint
    rng = random.Random(ck.seed)
    thorough = ck.tier == "thorough"
    ck.rule = ("dimensionality of all spellings of the default registry and sampled prefix+unit+plural strings; "
               "conversion success for ordered pairs of canonical multiplicative units (all pairs inside every dimension "
               "class + sampled cross pairs; thorough: every ordered pair); random compound units with integer and rational "
               "exponents; configurations float/Decimal/Fraction, case-insensitive, auto_reduce_dimensions. "
               "non-trivial = distinct (kind, units) where the two sides have different canonical containers")
    ck.assumptions += ["non-multiplicative units (offset, logarithmic) are excluded here: C06",
                       "the model registry is regenerated from default_en.txt/constants_en.txt by T1 on every run"]
    ck.coq_build(["Properties/C01.vo", "Model/RegistryRun.vo", "Gen/DefaultReg.vo"])

    ureg = regk.registry(F)
    sp = regk.spellings(ureg)
    canon = [n for n in regk.canonical_names(ureg)]
    mult = [n for n in canon if regk.multiplicative(ureg, n) and "delta_" not in n]
    prefixes = [p for p in ureg._prefixes if p]
    cases, descs, fails = [], [], []

    def add(term, desc, key, nontrivial=True):
        cases.append(term)
        descs.append(desc)
        ck.case(key=key, nontrivial=nontrivial, sample=desc if len(ck.samples) < 6 else None)

    def oracle(cond, key, desc, rp):
        if not cond:
            fails.append((key, desc, rp))

    # ---- (i) dimensionality of every spelling, and sampled prefixed / plural strings
    for s in sp:
        add(regk.case_dim(ureg, {s: F(1)}), {"dim_of": s}, ("dim", s))
    ck.count("dim:spelling", len(sp))
    for _ in range(3000 if thorough else 600):
        s = rng.choice(prefixes) + rng.choice(sp) + rng.choice(["", "s"])
        u2 = regk.registry(F) if rng.random() < 0.02 else ureg
        add(regk.case_dim(u2, {s: F(1)}), {"dim_of": s}, ("dim", s))
    ck.count("dim:prefixed")

    # ---- dimension classes of canonical multiplicative units
    dim_of = {n: frozenset(regk.ucd(ureg.get_dimensionality(regk.mkuc(ureg, {n: F(1)}))).items()) for n in mult}
    classes = {}
    for n in mult:
        classes.setdefault(dim_of[n], []).append(n)

    def unit_of(d):
        return ureg.Unit(regk.mkuc(ureg, d))

    def can_convert(da, db):
        try:
            ureg.convert(F(1), regk.mkuc(ureg, da), regk.mkuc(ureg, db))
            return True, None
        except pint.errors.DimensionalityError:
            return False, "dim"
        except Exception as e:      # any other outcome is itself reported
            return False, type(e).__name__

    def check_pair(da, db, label):
        """oracle: the biconditional and the predicate agreement for one ordered pair"""
        ua, ub = unit_of(da), unit_of(db)
        same = ureg.get_dimensionality(ua._units) == ureg.get_dimensionality(ub._units)
        okc, why = can_convert(da, db)
        rp = {"src": {k: str(v) for k, v in da.items()}, "dst": {k: str(v) for k, v in db.items()}}
        oracle(okc == same and (okc or why == "dim"), "iff:" + label,
               f"convert succeeds={okc} ({why}) but same dimensionality={same}", rp)
        qa = ureg.Quantity(F(1), ua)
        oracle(qa.is_compatible_with(ub) == same, "pred:is_compatible_with(Unit)", "Quantity.is_compatible_with disagrees", rp)
        oracle(qa.is_compatible_with(ureg.Quantity(F(2), ub)) == same, "pred:is_compatible_with(Quantity)", "is_compatible_with(Quantity) disagrees", rp)
        oracle(ua.is_compatible_with(ub) == same, "pred:Unit.is_compatible_with", "Unit.is_compatible_with disagrees", rp)
        oracle(ureg.is_compatible_with(qa, ub) == same, "pred:ureg.is_compatible_with", "ureg.is_compatible_with disagrees", rp)
        oracle(qa.check(ub.dimensionality) == same, "pred:check", "Quantity.check disagrees", rp)
        try:
            ureg.check(ub)(lambda x: x)(qa)
            dec = True
        except pint.errors.DimensionalityError:
            dec = False
        oracle(dec == same, "pred:ureg.check", "ureg.check decorator disagrees", rp)
        return same, okc

    # ---- (ii) pairs
    pairs = []
    for cl in classes.values():
        if len(cl) > 1:
            inner = [(a, b) for a in cl for b in cl if a != b]
            pairs += inner if (thorough or len(inner) <= 400) else rng.sample(inner, 400)
    cross = [(rng.choice(mult), rng.choice(mult)) for _ in range(200000 if thorough else 6000)]
    if thorough:
        cross = [(a, b) for a in mult for b in mult]
    sampled = pairs + cross
    for a, b in sampled:
        da, db = {a: F(1)}, {b: F(1)}
        same, okc = check_pair(da, db, "pair")
        ck.count("pair:same-dim" if same else "pair:cross-dim")
        ck.case(key=("pair", a, b), nontrivial=a != b)
    # model side for a subset (Coq is slower than Python here)
    msub = sampled if len(sampled) <= 6000 else rng.sample(sampled, 6000)
    for a, b in msub:
        add(regk.case_factor(ureg, {a: F(1)}, {b: F(1)}), {"convert": [a, b]}, ("mpair", a, b))

    # compatible-unit listing: exactly the same-dimension canonical unprefixed units (registry as built)
    for n in rng.sample(mult, 120 if thorough else 40):
        listed = {str(u) for u in ureg.get_compatible_units(n)}
        dn = ureg.get_dimensionality(regk.mkuc(ureg, {n: F(1)}))
        if not dn:
            continue
        # the default listing is restricted to the members of the default system (C14 owns membership)
        members = ureg.get_system(ureg.default_system).members if ureg.default_system else set(canon)
        expect = {m for m in canon if m in members and ureg.get_dimensionality(regk.mkuc(ureg, {m: F(1)})) == dn}
        oracle(listed == expect, "pred:get_compatible_units", f"compatible units of {n}: extra {sorted(listed - expect)[:3]} missing {sorted(expect - listed)[:3]}", {"unit": n})
        ck.case(key=("compat", n))
    ck.count("compatible-unit listings", 40)

    # ---- (iii) random compound units; equivalence and congruence
    allnames = sp + [rng.choice(prefixes) + rng.choice(mult) for _ in range(200)]
    allnames = [s for s in allnames if regk.multiplicative(ureg, ureg.get_name(s)) and not ureg.get_name(s).startswith("delta_")]
    # compound units are drawn from units with rational factors: the 29 float-factor units (planck_*, alpha-dependent …)
    # overflow float arithmetic when raised to powers inside the Fraction registry (OverflowError in Fraction.__rpow__);
    # they stay covered by the single-unit pair streams above
    def rational(n):
        f, _ = ureg._get_root_units(regk.mkuc(ureg, {n: F(1)}))
        return isinstance(f, (int, F)) and not isinstance(f, bool)
    allnames = [s for s in allnames if rational(s)]

    # a negative constant (electron_g_factor, …) raised to a fractional power has no real value, so the
    # real-valued conversion the property speaks of does not exist: fractional exponents are drawn
    # only for positively scaled units (DESIGN.md §7, false alarm avoided)
    def positive(n):
        f, _ = ureg._get_root_units(regk.mkuc(ureg, {n: F(1)}))
        return f is not None and f > 0
    pos = {n: positive(n) for n in set(allnames)}

    def rnd_compound(k=None):
        out = {}
        for _ in range(k or rng.randint(1, 4)):
            n = rng.choice(allnames)
            out[n] = rng.choice(EXPS if pos[n] else [e for e in EXPS if e.denominator == 1])
        return out

    def canon_d(d):
        out = {}
        for k, v in d.items():
            c = ureg.get_name(k)
            out[c] = out.get(c, 0) + v
        return {k: v for k, v in out.items() if v != 0}

    for _ in range(4000 if thorough else 800):
        da = canon_d(rnd_compound())
        # a partner: either random, or the same dimension expressed differently
        if rng.random() < 0.5 and da:
            db = {}
            for k, v in da.items():
                alts = [a for a in (classes.get(dim_of[k], [k]) if k in dim_of else [k]) if v.denominator == 1 or positive(a)]
                alt = rng.choice(alts or [k])
                db[alt] = db.get(alt, 0) + v
            db = {k: v for k, v in db.items() if v != 0}
        else:
            db = canon_d(rnd_compound())
        same, okc = check_pair(da, db, "compound")
        # siblings on the SAME registry, right after a conversion that succeeded: the source with one exponent changed
        # (-1 <-> -2, 1 <-> 2) no longer has the target's dimensionality and must be refused (a memo keyed too coarsely,
        # e.g. by hash — hash(-1) == hash(-2) — would answer from the neighbour's entry)
        if same and okc:
            ks = [k for k, v in da.items() if v in (-1, -2, 1, 2) and dim_of.get(k)]
            if ks:
                k0 = rng.choice(ks)
                da2 = dict(da)
                da2[k0] = F({-1: -2, -2: -1, 1: 2, 2: 1}[int(da[k0])])
                check_pair(da2, db, "compound-sibling")
                db2 = dict(db)
                kb = [k for k, v in db.items() if v in (-1, -2, 1, 2) and dim_of.get(k)]
                if kb:
                    k1 = rng.choice(kb)
                    db2[k1] = F({-1: -2, -2: -1, 1: 2, 2: 1}[int(db[k1])])
                    check_pair(da, db2, "compound-sibling")
                ck.case(key=("csibling", str(sorted(da2.items())), str(sorted(db.items()))))
        add(regk.case_factor(ureg, da, db), {"convert": [str(da), str(db)]}, ("cfactor", str(sorted(da.items())), str(sorted(db.items()))))
        add(regk.case_dim(ureg, da), {"dim_of": str(da)}, ("cdim", str(sorted(da.items()))))
        # symmetry
        oracle(can_convert(db, da)[0] == okc, "equiv:symmetry", "compatibility is not symmetric", {"a": str(da), "b": str(db)})
        # congruence under product / power with a third unit
        dc = canon_d(rnd_compound(2))
        ua, ub, uc_ = unit_of(da), unit_of(db), unit_of(dc)
        if same:
            oracle((ua * uc_).dimensionality == (ub * uc_).dimensionality, "congr:mul", "a~b but a*c !~ b*c", {"a": str(da), "b": str(db), "c": str(dc)})
            oracle((ua / uc_).dimensionality == (ub / uc_).dimensionality, "congr:div", "a~b but a/c !~ b/c", {"a": str(da), "b": str(db), "c": str(dc)})
            e = rng.choice([2, -1, 3])
            oracle((ua ** e).dimensionality == (ub ** e).dimensionality, "congr:pow", "a~b but a**e !~ b**e", {"a": str(da), "b": str(db), "e": str(e)})
            oracle(can_convert(regk.ucd((ua * uc_)._units), regk.ucd((ub * uc_)._units))[0], "congr:mul-convert", "a~b but a*c does not convert to b*c", {"a": str(da), "b": str(db), "c": str(dc)})
        # the check decorator with several parameters, keywords out of signature order, a default left in place
        qa_, qb_, qc_ = ureg.Quantity(F(1), ua), ureg.Quantity(F(2), ub), ureg.Quantity(F(3), uc_)
        g = ureg.check(ua, uc_, ub)(lambda x, y=qc_, z=qb_: 1)
        for label, kw, okexp in (("kw-reversed", dict(z=qb_, y=qc_), True),
                                 ("kw-later-only", dict(z=qb_), True),
                                 ("kw-swapped-values", dict(z=qc_, y=qb_), (ub.dimensionality == uc_.dimensionality))):
            try:
                g(qa_, **kw)
                got = True
            except pint.errors.DimensionalityError:
                got = False
            oracle(got == okexp, "pred:ureg.check-keywords:" + label, f"ureg.check with keyword arguments ({label}) accepted={got}, expected {okexp}",
                   {"declared": [str(da), str(dc), str(db)], "call": label})
        # dimensionality homomorphism on the real registry
        oracle((ua * uc_).dimensionality == ua.dimensionality * uc_.dimensionality, "hom:mul", "dim(a*c) != dim(a)*dim(c)", {"a": str(da), "c": str(dc)})
        ck.count("compound")
    # transitivity on triples inside classes
    big = [c for c in classes.values() if len(c) >= 3]
    for _ in range(2000 if thorough else 400):
        cl = rng.choice(big)
        a, b, c = rng.sample(cl, 3)
        ok = can_convert({a: F(1)}, {b: F(1)})[0] and can_convert({b: F(1)}, {c: F(1)})[0]
        oracle((not ok) or can_convert({a: F(1)}, {c: F(1)})[0], "equiv:transitivity", "a~b, b~c but not a~c", {"a": a, "b": b, "c": c})
        ck.case(key=("triple", a, b, c))
    ck.count("triples", 400)

    # ---- (v) configurations: the relation must be the same in every configuration
    # "diskcache": a registry started from an on-disk cache that ANOTHER interpreter (another string-hash seed) wrote
    import shutil
    import subprocess
    import sys
    import tempfile
    cdir = tempfile.mkdtemp(prefix="pintverif_cache_")
    subprocess.run([sys.executable, "-c", "import pint, fractions; u = pint.UnitRegistry(non_int_type=fractions.Fraction, cache_folder=%r); u.meter; "
                    "u.get_compatible_units('meter'); u.convert(1, 'inch', 'meter')" % cdir],
                   env=dict(os.environ, PYTHONHASHSEED="12345"), check=True, stdout=subprocess.DEVNULL, stderr=subprocess.DEVNULL)
    members = ureg.get_system(ureg.default_system).members if ureg.default_system else set(canon)
    for label, kw in [("float", dict(nit=float)), ("Decimal", dict(nit=Decimal)),
                      ("casei", dict(nit=F, case_sensitive=False)), ("autoreduce", dict(nit=F, auto_reduce_dimensions=True)),
                      ("diskcache", dict(nit=F, cache_folder=cdir))]:
        if label == "diskcache":
            u2 = pint.UnitRegistry(non_int_type=F, cache_folder=cdir)
        else:
            u2 = regk.registry(**kw)
        one = u2.non_int_type(1) if kw["nit"] is not float else 1.0
        # compatible-unit listings under this configuration: the same relation
        for n in rng.sample(mult, 24 if thorough else 8) + ["meter", "second"]:
            if not dim_of[n]:
                continue
            expect = {m for m in mult if m in members and dim_of[m] == dim_of[n]}
            for how, listed in (("ureg.get_compatible_units", u2.get_compatible_units(n)), ("Unit.compatible_units", u2.Unit(n).compatible_units()),
                                ("Quantity.compatible_units", u2.Quantity(one, n).compatible_units())):
                listed = {str(u) for u in listed}
                listed = {m for m in listed if m in dim_of}      # non-multiplicative members are C06's
                oracle(listed == expect, f"config-listing:{label}", f"{how}({n!r}) under configuration {label}: extra {sorted(listed - expect)[:3]} missing {sorted(expect - listed)[:3]}", {"unit": n, "configuration": label})
            ck.case(key=("config-listing", label, n))
        for _ in range(1500 if thorough else 300):
            a, b = rng.choice(mult), rng.choice(rng.choice([mult, classes[dim_of[a]]]) if False else mult)
            if rng.random() < 0.5:
                b = rng.choice(classes[dim_of[a]])
            try:
                u2.convert(one, a, b)
                okc = True
            except pint.errors.DimensionalityError:
                okc = False
            oracle(okc == (dim_of[a] == dim_of[b]), "config:" + label, f"conversion success differs from dimensional equality under configuration {label}", {"a": a, "b": b})
            oracle(u2.Quantity(one, a).is_compatible_with(u2.Unit(b)) == (dim_of[a] == dim_of[b]), "config-pred:" + label, "is_compatible_with differs under configuration", {"a": a, "b": b})
            ck.case(key=("config", label, a, b), nontrivial=a != b)
        # the relation is preserved by powers and products with RATIONAL exponents, in this configuration too:
        # (u**q)**k ~ u**(q*k) and u**q1 * u**q2 ~ u**(q1+q2)  (exponents given as Fractions, as a user may)
        if label in ("float", "casei", "autoreduce", "diskcache"):
            qs = [F(1, 10), F(1, 5), F(3, 10), F(1, 3), F(2, 3), F(1, 7), F(7, 10), F(1, 2), F(-1, 10), F(3, 2)]
            for _ in range(600 if thorough else 150):
                a = rng.choice(mult)
                if not dim_of[a]:
                    continue
                q1, q2, k = rng.choice(qs), rng.choice(qs), rng.choice([2, 3, 7, -3])
                ua = u2.Unit(a)
                rp = {"unit": a, "q1": str(q1), "q2": str(q2), "k": k, "configuration": label}
                x, y = (ua ** q1) ** k, ua ** (q1 * k)
                oracle(x.is_compatible_with(y) and u2.Quantity(one, x).check(y.dimensionality), "config-pow:" + label,
                       f"({a}**{q1})**{k} is not compatible with {a}**{q1 * k} under configuration {label}", rp)
                try:
                    u2.convert(one, x, y)
                    okc = True
                except pint.errors.DimensionalityError:
                    okc = False
                oracle(okc, "config-pow-convert:" + label, f"({a}**{q1})**{k} does not convert to {a}**{q1 * k} under configuration {label}", rp)
                if q1 + q2 != 0:
                    x2, y2 = (ua ** q1) * (ua ** q2), ua ** (q1 + q2)
                    oracle(x2.is_compatible_with(y2), "config-mul:" + label, f"{a}**{q1} * {a}**{q2} is not compatible with {a}**{q1 + q2} under configuration {label}", rp)
                ck.case(key=("config-pow", label, a, str(q1), k))
        # products and quotients of QUANTITIES in this configuration (auto_reduce_dimensions rewrites the units of every
        # product): the result exists and has the product / quotient of the dimensionalities
        for _ in range(600 if thorough else 160):
            a, b = rng.choice(mult), rng.choice(mult)
            if rng.random() < 0.6:        # dimensionalities proportional with a ratio other than +-1: length x area, area / length ...
                a = rng.choice([m for m in ("meter", "foot", "inch", "acre", "hectare", "barn", "liter", "gallon", "kilometer", "second", "hertz") if m in dim_of])
                b = rng.choice([m for m in ("acre", "hectare", "barn", "liter", "cubic_centimeter", "foot", "meter", "hertz", "second", "square_foot") if m in dim_of])
            if label == "Decimal" and any(x in ("liter", "gallon", "cubic_centimeter") for x in (a, b)):
                continue                  # inexact Decimal thirds in the reduction (to_reduced_units, C15's F22 family)
            da_, db_ = dict(dim_of[a]), dict(dim_of[b])
            for opn, sign in (("*", 1), ("/", -1)):
                want = dict(da_)
                for k, v in db_.items():
                    want[k] = want.get(k, 0) + sign * v
                want = {k: v for k, v in want.items() if v != 0}
                rp = {"a": a, "b": b, "op": opn, "configuration": label}
                try:
                    r = (u2.Quantity(one, a) * u2.Quantity(one, b)) if sign == 1 else (u2.Quantity(one, a) / u2.Quantity(one, b))
                except Exception as e:
                    oracle(False, "config-quantity-product:" + label, f"Quantity({a}) {opn} Quantity({b}) raises {type(e).__name__} under configuration {label}", rp)
                    continue
                got = {k: F(v).limit_denominator(1000) for k, v in r.dimensionality.items()}
                oracle(got == {k: F(v) for k, v in want.items()}, "config-quantity-product-dim:" + label,
                       f"Quantity({a}) {opn} Quantity({b}) has dimensionality {got}, expected {want} under configuration {label}", rp)
            ck.case(key=("config-qprod", label, a, b))
        ck.count("config:" + label, 300)
    shutil.rmtree(cdir, ignore_errors=True)

    # ---- (vi) quantities that come OUT of a context conversion (their dimension changed on the way); the
    #      predicates are then asked with no context active and must follow the units the quantity now has
    for nit_label, uX in (("Fraction", regk.registry(F)), ("float", regk.registry(float))):
        one = F(7, 2) if nit_label == "Fraction" else 3.5
        hops = [("sp", "nanometer", "terahertz"), ("sp", "terahertz", "nanometer"), ("sp", "nanometer", "electron_volt"),
                ("boltzmann", "kelvin", "electron_volt"), ("boltzmann", "electron_volt", "kelvin"), ("energy", "gram", "joule")]
        probes = ["meter", "hertz", "joule", "kelvin", "gram", "second", "inch", "terahertz", "electron_volt", "nanometer"]
        for ctxn, src, dst in hops:
            for how in ("to(ctx)", "ito(ctx)", "with-block", "ureg.convert+Quantity"):
                for warm in (False, True):
                    q = uX.Quantity(one, src)
                    if warm:
                        q.dimensionality, q.is_compatible_with("meter")
                    try:
                        if how == "to(ctx)":
                            r = q.to(dst, ctxn)
                        elif how == "ito(ctx)":
                            q.ito(dst, ctxn)
                            r = q
                        elif how == "with-block":
                            with uX.context(ctxn):
                                r = q.to(dst)
                        else:
                            with uX.context(ctxn):
                                r = uX.Quantity(uX.convert(one, src, dst), dst)
                    except Exception as e:      # the hop itself is C11's business
                        ck.count("ctx-hop-unavailable")
                        continue
                    expect = uX.get_dimensionality(r._units)
                    rp = {"context": ctxn, "source": src, "target": dst, "how": how, "source_examined_before": warm, "registry": nit_label}
                    oracle(r.dimensionality == expect, "after-context:dimensionality:" + how,
                           f"{src} -> {dst} through context {ctxn} by {how}: the result reports dimensionality {dict(r.dimensionality)}, its units have {dict(expect)}", rp)
                    for pu in probes:
                        same = uX.get_dimensionality(pu) == expect
                        try:
                            r.to(pu)
                            okc = True
                        except pint.errors.DimensionalityError:
                            okc = False
                        oracle(okc == same, "after-context:iff:" + how, f"result of {how} ({dst}) converts to {pu}: {okc}, same dimensionality: {same}", dict(rp, probe=pu))
                        oracle(r.is_compatible_with(pu) == same and uX.is_compatible_with(r, pu) == same and uX.Unit(pu).is_compatible_with(r) == same,
                               "after-context:pred:" + how, f"result of {how} ({dst}): is_compatible_with({pu!r}) disagrees with the conversion relation ({same})", dict(rp, probe=pu))
                        oracle(r.check(uX.get_dimensionality(pu)) == same, "after-context:check:" + how,
                               f"result of {how} ({dst}): check(dimensionality of {pu}) disagrees with the conversion relation ({same})", dict(rp, probe=pu))
                    ck.case(key=("after-context", nit_label, ctxn, src, dst, how, warm))
        ck.count("after-context", 1)

    # ---- differ inside Coq
    gtot, gbad, gfirst = regk.generated_stream(ck, rng, 40 if thorough else 6, oracle, "c01")
    ck.extra["generated_registry_cases"] = gtot
    ck.extra["generated_registry_disagreements"] = gbad
    if gbad:
        ck.broken.append(f"correspondence on generated registries: {gbad} disagreements")
        if not fails:
            ck.violation("correspondence-generated", "model and implementation disagree on a generated registry; no property oracle failed", gfirst, no_input=True)
    bad = ck.coq_mismatches("c01", regk.HEADER, cases, "ok")
    ck.extra["model_vs_impl_cases"] = len(cases)
    ck.extra["model_vs_impl_disagreements"] = None if bad is None else len(bad)
    ck.extra["dimension_classes"] = len(classes)
    seen = set()
    for key, desc, rp in fails:
        if key not in seen:
            seen.add(key)
            ck.violation(key, desc, rp)
    if bad:
        ck.broken.append(f"correspondence RegistryRun.reg_ok: {len(bad)} disagreements, first: {descs[bad[0]]}")
        if not fails:
            ck.violation("correspondence", "model and implementation disagree; no property oracle failed",
                         {"first_disagreement": descs[bad[0]], "coq_case": cases[bad[0]], "n": len(bad)}, no_input=True)


def replay(ck, path):
    print(open(path).read())
    return 0
