"""C02 — conversion factors equal the exact ratio implied by the written definitions.

Theorems: coq/Properties/C02.v (root expansion is a homomorphism; factor = ratio; identity,
inverse, path independence; side conditions checked on the regenerated default registry).
Correspondence in the Fraction registry with exact equality; oracles on pint alone.
"""
import random
from decimal import Decimal
from fractions import Fraction as F

from . import regk

EXPS = [F(-3), F(-2), F(-1), F(1), F(2), F(3)]


def run(ck):
    import pint
    rng = random.Random(ck.seed)
    thorough = ck.tier == "thorough"
    ck.rule = ("Fraction registry, exact: root units and factor of every spelling; conversion factor of every ordered "
               "same-dimension pair of rational canonical units (each asked twice: cold and warm cache, and in both orders); "
               "prefix spelling x unit spelling (factor applied exactly once); random compound units; result types; "
               "Decimal registry (type kept, rel. error <= 1e-24) and float registry (<= 32 ulp of the exact ratio). "
               "non-trivial = distinct pair/triple of different canonical units")
    ck.assumptions += ["units whose expansion goes through a non-integer power (planck_*, franklin, alpha-dependent: the model "
                       "computes this set) are outside the exactness clause; for them pint's float is compared with the float registry only",
                       "float clause: bound 32 ulp (2^-48 relative) is a test, not a theorem"]
    ck.coq_build(["Properties/C02.vo", "Model/RegistryRun.vo", "Gen/DefaultReg.vo"])

    ureg = regk.registry(F)
    sp = regk.spellings(ureg)
    canon = regk.canonical_names(ureg)
    mult = [n for n in canon if regk.multiplicative(ureg, n) and not n.startswith("delta_")]
    cases, descs, fails = [], [], []

    def add(term, desc, key):
        cases.append(term)
        descs.append(desc)
        ck.case(key=key, nontrivial=True, sample=desc if len(ck.samples) < 6 else None)

    def oracle(cond, key, desc, rp):
        if not cond:
            fails.append((key, desc, rp))

    def root(n, reg=ureg):
        return reg._get_root_units(regk.mkuc(reg, {n: F(1)}), check_nonmult=False)

    # ---- roots of every spelling (model vs pint, exact)
    for s in sp:
        add(regk.case_root(ureg, {s: F(1)}), {"root_of": s}, ("root", s))
    ck.count("root:spelling", len(sp))
    exact = {}
    for n in mult:
        f, b = root(n)
        exact[n] = isinstance(f, (int, F)) and not isinstance(f, bool)
    rational = [n for n in mult if exact[n]]
    ck.extra["irrational_or_float_units"] = sorted(n for n in mult if not exact[n])

    dims = {n: frozenset(regk.ucd(ureg.get_dimensionality(regk.mkuc(ureg, {n: F(1)}))).items()) for n in rational}
    classes = {}
    for n in rational:
        classes.setdefault(dims[n], []).append(n)

    def conv(a, b, x=F(1), reg=ureg):
        return reg.convert(x, a, b)

    # ---- every ordered same-dimension pair (oracles); model on a sample
    pairs = [(a, b) for cl in classes.values() for a in cl for b in cl if a != b]
    ck.extra["same_dimension_rational_pairs"] = len(pairs)
    fresh = regk.registry(F)         # second registry: asked in the opposite order (cold cache under swapped key)
    for a, b in pairs:
        x = conv(a, b)
        x2 = conv(a, b)              # warm
        y = conv(b, a)
        rp = {"a": a, "b": b}
        oracle(type(x) in (F, int) and type(y) in (F, int), "type:float-contamination", f"conversion {a}->{b} returned {type(x).__name__} in the Fraction registry", rp)
        oracle(x == x2, "cache:warm-differs", "second (cached) conversion differs from the first", rp)
        oracle(x * y == 1, "inverse", f"conv(a,b)*conv(b,a) = {x * y} != 1", rp)
        fa, _ = root(a)
        fb, _ = root(b)
        oracle(x == F(fa) / F(fb), "ratio", f"conv(a,b) = {x} but factor(a)/factor(b) = {F(fa) / F(fb)}", rp)
        yb = fresh.convert(F(1), b, a)
        oracle(yb == y, "cache:order-dependent", "answer depends on which direction was asked first", rp)
        ck.case(key=("pair", a, b))
    ck.count("pairs", len(pairs))
    for a, b in (pairs if thorough else rng.sample(pairs, min(3000, len(pairs)))):
        add(regk.case_factor(ureg, {a: F(1)}, {b: F(1)}), {"factor": [a, b]}, ("mfactor", a, b))
    for n in rng.sample(rational, 60):
        oracle(conv(n, n) == 1, "identity", "conv(a,a) != 1", {"a": n})
    # path independence on triples
    big = [c for c in classes.values() if len(c) >= 3]
    for _ in range(20000 if thorough else 4000):
        a, b, c = rng.sample(rng.choice(big), 3)
        x = F(rng.randint(-50, 50), rng.randint(1, 9))
        oracle(conv(b, c, conv(a, b, x)) == conv(a, c, x), "path", "a->b->c differs from a->c", {"a": a, "b": b, "c": c, "x": str(x)})
        ck.case(key=("triple", a, b, c))
    ck.count("triples", 4000)

    # ---- prefix applied exactly once: every prefix spelling x sampled unit spellings
    prefixes = [p for p in ureg._prefixes if p]
    usp = [s for s in sp if ureg._units[s].name in exact and exact[ureg._units[s].name]]
    for p in prefixes:
        for s in (usp if thorough else rng.sample(usp, 40)):
            name = p + s
            u2 = regk.registry(F) if rng.random() < 0.01 else ureg
            try:
                cands = u2.parse_unit_name(name)
            except Exception:
                continue
            if not cands or cands[0][0] != u2._prefixes[p].name or cands[0][1] != u2._units[s].name:
                continue          # the string has another (earlier) reading: C08's business
            f, b = root(name, u2)
            f0, b0 = root(s, u2)
            pv = u2._prefixes[p].value
            oracle(F(f) == F(pv) * F(f0) and b == b0, "prefix-once", f"factor({name}) = {f} but prefix value x factor({s}) = {F(pv) * F(f0)}", {"prefix": p, "unit": s})
            if rng.random() < (1.0 if thorough else 0.25):
                add(regk.case_root(u2, {name: F(1)}), {"root_of": name}, ("proot", name))
            ck.case(key=("prefix", p, s))
    ck.count("prefix x unit")

    # ---- written definitions whose own name also reads as prefix+unit (kilometer_per_second = kilo + meter_per_second):
    #      every other spelling of that reading (kilomps, kmps, …) must denote the written definition
    pspell, uspell = {}, {}
    for k, d in ureg._prefixes.items():
        if k:
            pspell.setdefault(d.name, []).append(k)
    for k in sp:
        uspell.setdefault(ureg._units[k].name, []).append(k)
    for n in canon:
        for (pp, uu, _) in ureg.parse_unit_name(n):
            if not pp or pp + uu != n or n not in exact or not exact[n]:
                continue
            for ps in pspell.get(pp, []):
                for us in uspell.get(uu, []):
                    name = ps + us
                    if name in ureg._units:
                        continue
                    try:
                        f, b = root(name)
                    except Exception as e:
                        oracle(False, "composed-written-name", f"{name} ({pp}+{uu} = written definition {n}) raised {type(e).__name__}", {"string": name})
                        continue
                    f0, b0 = root(n)
                    oracle(F(f) == F(f0) and b == b0, "composed-written-name", f"root units of {name} = {f} differ from the written definition {n} = {f0}", {"string": name, "definition": n})
                    add(regk.case_root(ureg, {name: F(1)}), {"root_of": name}, ("cwn", name))
                    ck.count("composed-written-name")

    # ---- random compound units: factor is multiplicative; model agrees
    def rnd():
        return {rng.choice(rational): rng.choice(EXPS) for _ in range(rng.randint(1, 4))}
    for _ in range(5000 if thorough else 900):
        da = rnd()
        # same dimension expressed with other units
        db = {}
        for k, v in da.items():
            alt = rng.choice(classes[dims[k]])
            db[alt] = db.get(alt, 0) + v
        db = {k: v for k, v in db.items() if v != 0}
        add(regk.case_factor(ureg, da, db), {"factor": [str(da), str(db)]}, ("cfactor", str(sorted(da.items())), str(sorted(db.items()))))
        x = ureg.convert(F(1), regk.mkuc(ureg, da), regk.mkuc(ureg, db))
        expect = F(1)
        for k, v in da.items():
            expect *= F(root(k)[0]) ** int(v)
        for k, v in db.items():
            expect /= F(root(k)[0]) ** int(v)
        oracle(x == expect and type(x) in (F, int), "compound-ratio", f"compound conversion {x} != product of factor powers {expect}", {"a": str(da), "b": str(db)})
        ck.count("compound")
        # siblings on the SAME registry: the same pair with one unit's exponent changed (-1 <-> -2, 1 <-> 2, sign flip)
        # in source and target alike — a factor cached under a colliding or too-coarse key shows here
        k0 = rng.choice(sorted(da))
        alt0 = None
        for kb in db:
            if kb in dims and k0 in dims and dims[kb] == dims[k0]:
                alt0 = kb
        if alt0 is not None and da[k0] == db.get(alt0):
            for e2 in ({-1: -2, -2: -1, 1: 2, 2: 1}.get(int(da[k0]), -int(da[k0])), int(da[k0]) + 1):
                if e2 == 0:
                    continue
                da2, db2 = dict(da), dict(db)
                da2[k0], db2[alt0] = F(e2), F(e2)
                x2 = ureg.convert(F(1), regk.mkuc(ureg, da2), regk.mkuc(ureg, db2))
                exp2 = F(1)
                for k, v in da2.items():
                    exp2 *= F(root(k)[0]) ** int(v)
                for k, v in db2.items():
                    exp2 /= F(root(k)[0]) ** int(v)
                oracle(x2 == exp2, "compound-sibling", f"after converting {da}->{db}, the sibling conversion {da2}->{db2} returned {x2}, expected {exp2}",
                       {"first": [str(da), str(db)], "then": [str(da2), str(db2)]})
                ck.case(key=("sibling", str(sorted(da2.items())), str(sorted(db2.items()))))

    # ---- containers that spell one unit several times (symbol, alias, plural): exponents must add up
    byname = {}
    for s_ in sp:
        byname.setdefault(ureg._units[s_].name, []).append(s_)
    multi = [n for n in rational if len(byname.get(n, [])) >= 2]
    for _ in range(2000 if thorough else 400):
        n = rng.choice(multi)
        s1, s2 = rng.sample(byname[n], 2)
        e1, e2 = rng.choice([1, 2, -1]), rng.choice([1, 2, 3])
        if e1 + e2 == 0:
            continue
        raw = ureg.UnitsContainer({s1: e1, s2: e2})
        tgt = ureg.UnitsContainer({rng.choice(classes[dims[n]]): e1 + e2})
        try:
            x = ureg.convert(F(1), raw, tgt)
        except Exception as e:
            x = type(e).__name__
        tn = list(tgt.keys())[0]
        expect = (F(root(n)[0]) / F(root(tn)[0])) ** (e1 + e2)
        oracle(x == expect, "multi-spelling", f"container {dict(raw)} -> {dict(tgt)} gave {x}, expected {expect}", {"src": dict(raw), "dst": dict(tgt)})
        add(regk.case_factor(ureg, {s1: F(e1), s2: F(e2)}, {tn: F(e1 + e2)}), {"factor": [s1, s2, tn]}, ("multi", s1, s2, tn, e1, e2))
        ck.count("multi-spelling")

    # ---- Decimal and float registries against the exact ratio
    ud, uf = regk.registry(Decimal), regk.registry(float)
    worst = 0.0
    for a, b in rng.sample(pairs, min(len(pairs), 6000 if thorough else 1500)):
        ex = conv(a, b)
        xd = ud.convert(Decimal(1), a, b)
        oracle(isinstance(xd, Decimal), "type:decimal", f"Decimal registry returned {type(xd).__name__}", {"a": a, "b": b})
        if isinstance(xd, Decimal) and ex != 0:
            rel = abs((F(xd) - ex) / ex)
            oracle(rel <= F(1, 10 ** 24), "decimal-precision", f"Decimal conversion off by {float(rel):.3g} relative", {"a": a, "b": b})
        xf = uf.convert(1.0, a, b)
        oracle(isinstance(xf, float), "type:float", f"float registry returned {type(xf).__name__}", {"a": a, "b": b})
        if ex != 0:
            rel = abs((F(xf) - ex) / ex)
            worst = max(worst, float(rel))
            oracle(rel <= F(32, 2 ** 53), "float-ulp", f"float conversion off by {float(rel) * 2 ** 53:.1f} ulp", {"a": a, "b": b})
        ck.case(key=("numtype", a, b))
    ck.extra["float_worst_rel_error_ulp"] = worst * 2 ** 53
    ck.count("decimal/float", 1500)

    gtot, gbad, gfirst = regk.generated_stream(ck, rng, 40 if thorough else 6, oracle, "c02")
    ck.extra["generated_registry_cases"] = gtot
    ck.extra["generated_registry_disagreements"] = gbad
    if gbad:
        ck.broken.append(f"correspondence on generated registries: {gbad} disagreements")
        if not fails:
            ck.violation("correspondence-generated", "model and implementation disagree on a generated registry; no property oracle failed", gfirst, no_input=True)
    rtot, rbad, rfirst = regk.redefinition_stream(ck, rng, 24 if thorough else 5, oracle, "c02")
    ck.extra["rewriting_context_cases"] = rtot
    ck.extra["rewriting_context_disagreements"] = rbad
    if rbad:
        ck.broken.append(f"correspondence on definitions rewritten by a context: {rbad} disagreements")
        if not fails:
            ck.violation("correspondence-redefined", "model of the rewritten file and pint inside the context disagree; no property oracle failed", rfirst, no_input=True)
    atot, abad, afirst = regk.runtime_alias_stream(ck, rng, 24 if thorough else 5, oracle, "c02")
    ck.extra["runtime_alias_cases"] = atot
    ck.extra["runtime_alias_disagreements"] = abad
    if abad:
        ck.broken.append(f"correspondence on registries extended by @alias at run time: {abad} disagreements")
        if not fails:
            ck.violation("correspondence-runtime-alias", "model of the file with the alias lines and pint after define() disagree; no property oracle failed", afirst, no_input=True)
    bad = ck.coq_mismatches("c02", regk.HEADER, cases, "ok")
    ck.extra["model_vs_impl_cases"] = len(cases)
    ck.extra["model_vs_impl_disagreements"] = None if bad is None else len(bad)
    seen = set()
    for key, desc, rp in fails:
        if key not in seen:
            seen.add(key)
            ck.violation(key, desc, rp)
    if bad:
        ck.broken.append(f"correspondence RegistryRun.reg_ok: {len(bad)} disagreements, first: {descs[bad[0]]}")
        if not fails:
            ck.violation("correspondence", "model and implementation disagree; no property oracle failed",
                         {"first_disagreement": descs[bad[0]], "coq_case": cases[bad[0]], "n": len(bad)}, no_input=True)


def replay(ck, path):
    print(open(path).read())
    return 0
