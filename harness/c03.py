"""C03 — arithmetic results do not depend on the units used to express the operands.

Theorems: coq/Properties/C03.v over Model/Quantity.v (every operator form is a homomorphism into
the algebra of physical values; expression-level covariance by induction over the tree).
Correspondence K in the Fraction registry, exact: random expression trees over quantities drawn
from the whole registry are evaluated (a) by Python operators on pint quantities, (b) by the model
inside Coq, (c) again with every leaf re-expressed in random compatible units.  (c) vs (a) is the
property oracle (metamorphic covariance on pint alone); operands are snapshotted around every
operator application (frame clause).  Further streams: ndarray targets for the in-place twins,
float / Decimal / int magnitudes (tolerance, labelled), ==, <, <=, >, >=, malformed input.
"""
import copy
import json
import math
import operator
import random
from decimal import Decimal
from fractions import Fraction as F

from . import regk
from .common import coq_bool, coq_list, coq_q, coq_str, coq_uc

HEADER = ("From PintV Require Import Model.UC Model.Eval Model.Registry Model.Quantity Model.QuantityRun "
          "Gen.DefaultDefs Gen.DefaultReg.\nOpen Scope string_scope.\n"
          "Definition ok (c : qcase) : bool := c03_ok default_reg c.\n")

BINOPS = ["add", "sub", "mul", "div", "floordiv", "mod", "divmodq", "divmodr", "pow"]
COQ_OP = {"add": "OAdd", "sub": "OSub", "mul": "OMul", "div": "ODiv", "floordiv": "OFloorDiv", "mod": "OMod",
          "divmodq": "ODivmodQ", "divmodr": "ODivmodR", "pow": "OPow"}
COQ_FORM = {"plain": "FPlain", "refl": "FRefl", "inpl": "FInpl"}
COQ_UN = {"neg": "UNeg", "abs": "UAbs", "pos": "UPos"}
COQ_CMP = {"lt": "CLt", "le": "CLe", "gt": "CGt", "ge": "CGe"}
PLAIN = {"add": operator.add, "sub": operator.sub, "mul": operator.mul, "div": operator.truediv,
         "floordiv": operator.floordiv, "mod": operator.mod, "pow": operator.pow,
         "divmodq": lambda a, b: divmod(a, b)[0], "divmodr": lambda a, b: divmod(a, b)[1]}
INPL = {"add": operator.iadd, "sub": operator.isub, "mul": operator.imul, "div": operator.itruediv,
        "floordiv": operator.ifloordiv, "mod": operator.imod, "pow": operator.ipow}
RNAME = {"add": "__radd__", "sub": "__rsub__", "mul": "__rmul__", "div": "__rtruediv__", "floordiv": "__rfloordiv__",
         "mod": "__rmod__", "divmodq": "__rdivmod__", "divmodr": "__rdivmod__", "pow": "__rpow__"}
UNOPS = {"neg": operator.neg, "abs": abs, "pos": operator.pos}
CMPS = {"lt": operator.lt, "le": operator.le, "gt": operator.gt, "ge": operator.ge}
PREFIXES = ["kilo", "milli", "micro", "mega", "centi", "deci", "nano", "giga", "hecto", "deca", "pico", "tera", "kibi", "mebi"]
DIMLESS_WANTED = ["radian", "percent", "count", "ppm", "steradian", "bit", "permille", "neper", "dozen", "particle"]


class Skip(Exception):
    """the case left the exact domain (overflow, complex, irrational) — not counted"""


# ---------------------------------------------------------------- canonical forms
def is_nan(x):
    return isinstance(x, float) and math.isnan(x)


def exact(x):
    return isinstance(x, (int, F)) and not isinstance(x, bool)


def errclass(e):
    import pint
    if isinstance(e, pint.errors.DimensionalityError):
        return "XDim"
    if isinstance(e, pint.errors.OffsetUnitCalculusError):
        return "XOffset"
    if isinstance(e, ZeroDivisionError):
        return "XZeroDiv"
    if isinstance(e, OverflowError):
        raise Skip("overflow")
    if isinstance(e, TypeError):
        return "XType"
    if isinstance(e, ValueError):
        return "XValue"
    return "XOther"


def coq_mag(x):
    """a magnitude handed to the model"""
    if is_nan(x):
        return "NaN"
    if exact(x):
        return f"(Fin {coq_q(F(x))})"
    raise Skip(f"inexact leaf {x!r}")


def coq_omag(x):
    """a magnitude observed on pint"""
    if isinstance(x, bool):
        raise Skip("bool")
    if exact(x):
        return f"(OExactM {coq_q(F(x))})"
    if isinstance(x, Decimal):
        return f"(OApproxM {coq_q(F(x))})"
    if isinstance(x, float):
        if math.isnan(x):
            return "ONaNM"
        if math.isinf(x):
            raise Skip("inf")
        return f"(OApproxM {coq_q(F(x))})"
    raise Skip(f"magnitude type {type(x).__name__}")


def units_of(q):
    return {k: F(v) for k, v in q._units.items()}


class World:
    """the registry under test and what the generators need to know about it"""

    def __init__(self, nit=F, as_int=False, **kw):
        self.nit = nit
        self.as_int = as_int
        self.ureg = regk.registry(nit, **kw)
        self.Q = self.ureg.Quantity

    def setup_universe(self, ex):
        """ex: the exact World; the unit universe is computed once there"""
        self.units, self.classes, self.rootfac, self.dimkey, self.prefixable = ex.units, ex.classes, ex.rootfac, ex.dimkey, ex.prefixable

    def build_universe(self):
        ureg = self.ureg
        canon = regk.canonical_names(ureg)
        self.rootfac, self.units, self.dimkey = {}, [], {}
        for n in canon:
            if not regk.multiplicative(ureg, n):
                continue
            try:
                f, _ = ureg._get_root_units(regk.mkuc(ureg, {n: F(1)}), check_nonmult=False)
            except Exception:
                continue
            if exact(f) and f != 0:
                self.rootfac[n] = F(f)
                self.units.append(n)
                self.dimkey[n] = frozenset(regk.ucd(ureg.get_dimensionality(regk.mkuc(ureg, {n: F(1)}))).items())
        self.classes = {}
        for n in self.units:
            self.classes.setdefault(self.dimkey[n], []).append(n)
        # names that may take a prefix: definitions of the files, not prefix+unit names registered on the fly
        self.prefixable = set()
        for n in self.units:
            try:
                if not n.startswith("delta_") and not any(c[0] for c in ureg.parse_unit_name(n)):
                    self.prefixable.add(n)
            except Exception:
                pass

    # exact factor of a container to root units, from the per-name root factors (independent of convert())
    def fac(self, d):
        f = F(1)
        for k, e in d.items():
            if F(e).denominator != 1:
                return None
            f *= self.name_fac(k) ** int(e)
        return f

    def name_fac(self, k):
        if k not in self.rootfac:
            ureg = self.exact_ureg
            f, _ = ureg._get_root_units(regk.mkuc(ureg, {k: F(1)}), check_nonmult=False)
            if not exact(f):
                raise Skip("inexact unit " + k)
            self.rootfac[k] = F(f)
        return self.rootfac[k]

    def dim(self, d):
        return {k: F(v) for k, v in self.ureg.get_dimensionality(regk.mkuc(self.ureg, d)).items()}

    def mk(self, spec):
        """spec -> fresh Python object"""
        if spec[0] == "N":
            return spec[1]
        _, m, d = spec
        return self.Q(self.num(m), regk.mkuc(self.ureg, d))

    def num(self, m):
        if self.as_int and exact(m) and F(m).denominator == 1:
            return int(m)
        if self.nit is F or is_nan(m):
            return m
        if self.nit is float:
            return float(m)
        if self.nit is Decimal:
            return Decimal(m.numerator) / Decimal(m.denominator) if isinstance(m, F) else Decimal(m)
        return m


def coq_operand(spec):
    if spec[0] == "N":
        return f"(Num {coq_mag(spec[1])})"
    return f"(Qty (Qn {coq_mag(spec[1])} {coq_uc(spec[2])}))"


def coq_tree(t):
    if t[0] == "leaf":
        return f"(ELeaf {coq_operand(t[1])})"
    if t[0] == "un":
        return f"(EUn {COQ_UN[t[1]]} {coq_tree(t[2])})"
    _, op, form, l, r = t
    return f"(EBin {COQ_OP[op]} {COQ_FORM[form]} {coq_tree(l)} {coq_tree(r)})"


def show_spec(spec):
    if spec[0] == "N":
        return repr(spec[1])
    return f"Q({spec[1]}, {{{', '.join(f'{k}: {v}' for k, v in sorted(spec[2].items()))}}})"


def show_tree(t):
    if t[0] == "leaf":
        return show_spec(t[1])
    if t[0] == "un":
        return f"{t[1]}({show_tree(t[2])})"
    _, op, form, l, r = t
    return f"{op}[{form}]({show_tree(l)}, {show_tree(r)})"


def jsonable_tree(t):
    if t[0] == "leaf":
        s = t[1]
        return ["leaf", ["N", repr(s[1])] if s[0] == "N" else ["Q", str(s[1]), {k: str(v) for k, v in s[2].items()}]]
    if t[0] == "un":
        return ["un", t[1], jsonable_tree(t[2])]
    return ["bin", t[1], t[2], jsonable_tree(t[3]), jsonable_tree(t[4])]


def tree_from_json(j):
    if j[0] == "leaf":
        s = j[1]
        if s[0] == "N":
            v = s[1]
            return ("leaf", ("N", float("nan") if v == "nan" else (int(v) if v.lstrip("-").isdigit() else eval(v, {"Fraction": F}))))
        return ("leaf", ("Q", F(s[1]) if s[1] != "nan" else float("nan"), {k: F(v) for k, v in s[2].items()}))
    if j[0] == "un":
        return ("un", j[1], tree_from_json(j[2]))
    return ("bin", j[1], j[2], tree_from_json(j[3]), tree_from_json(j[4]))


# ---------------------------------------------------------------- evaluation on pint, with frame snapshots
def snap(x):
    import numpy as np
    if hasattr(x, "_units") and hasattr(x, "_magnitude"):
        m = x._magnitude
        return ("Q", m.copy() if isinstance(m, np.ndarray) else m, dict(x._units))
    return ("N", x)


def snap_eq(a, b):
    import numpy as np
    if a[0] != b[0]:
        return False
    if a[0] == "N":
        return a[1] is b[1] or a[1] == b[1] or (is_nan(a[1]) and is_nan(b[1]))
    if a[2] != b[2]:
        return False
    if isinstance(a[1], np.ndarray) or isinstance(b[1], np.ndarray):
        return isinstance(a[1], np.ndarray) and isinstance(b[1], np.ndarray) and a[1].shape == b[1].shape and bool((a[1] == b[1]).all())
    return a[1] == b[1] or (is_nan(a[1]) and is_nan(b[1]))


def is_q(x):
    return hasattr(x, "_units") and hasattr(x, "_magnitude")


class Evaluator:
    """evaluates a tree on one World for several leaf assignments in lock step, so that the first
    node where two variants part company is known; checks the frame clause at every application"""

    def __init__(self, w, report):
        self.w, self.report = w, report
        self.div = None          # first divergence: (key, description)
        self.frames = []

    def guard_pow(self, l, r):
        """keep a (possibly defective) implementation from raising big numbers to huge powers: neither the
        exponent as written nor its value in root units may be large"""
        b = l._magnitude if is_q(l) else l
        e = r._magnitude if is_q(r) else r
        if exact(b) and exact(e):
            big = abs(F(e))
            if is_q(r):
                try:
                    f = self.w.fac(units_of(r))
                    if f is not None:
                        big = max(big, abs(F(e) * f))
                except Skip:
                    pass
            bits = F(b).numerator.bit_length() + F(b).denominator.bit_length()
            if bits * big > 12000:
                raise Skip("power too large")

    @staticmethod
    def guard_size(v):
        m = v._magnitude if is_q(v) else v
        if exact(m) and F(m).numerator.bit_length() + F(m).denominator.bit_length() > 12000:
            raise Skip("magnitude too large")
        return v

    def apply_bin(self, op, form, l, r):
        sl, sr = snap(l), snap(r)
        if op == "pow":
            self.guard_pow(l, r)
        try:
            if form == "plain" or (form == "inpl" and op in ("divmodq", "divmodr")):
                res = PLAIN[op](l, r)
            elif form == "inpl":
                res = INPL[op](l, r)
            else:
                # the tree language's convention (model: [not_a_path]): a reflected form needs a quantity on
                # the right, and __rtruediv__ / __rpow__ a bare number on the left
                if not is_q(r) or (is_q(l) and op in ("div", "pow")):
                    raise TypeError("not an operator path")
                res = getattr(r, RNAME[op])(l)
                if res is NotImplemented:
                    raise TypeError("NotImplemented")
                if op == "divmodq":
                    res = res[0]
                elif op == "divmodr":
                    res = res[1]
            out = ("ok", self.guard_size(res))
        except Skip:
            raise
        except Exception as e:       # noqa: BLE001 — the class is the observation
            out = ("err", errclass(e))
        # frame: nothing but the target of an in-place form may change
        if not snap_eq(sr, snap(r)):
            self.frames.append((f"frame:{op}:{form}:right-operand", f"right operand of {op}[{form}] changed: {sr} -> {snap(r)}"))
        if form != "inpl" and not snap_eq(sl, snap(l)):
            self.frames.append((f"frame:{op}:{form}:left-operand", f"left operand of {op}[{form}] changed: {sl} -> {snap(l)}"))
        return out

    def phys(self, v):
        """canonical physical value of a Python result: ('N', x) | ('Q', root magnitude, dim items, exactness)"""
        if not is_q(v):
            return ("N", v)
        d = units_of(v)
        dim = frozenset(self.w.dim(d).items())
        f = self.w.fac(d)
        m = v._magnitude
        if f is None or not (exact(m) or is_nan(m) or isinstance(m, (float, Decimal))):
            try:
                r = v.to_root_units()._magnitude
            except (OverflowError, ArithmeticError, ValueError) as e:     # fractional unit exponents: factor ** exponent in floats
                raise Skip(f"root units not computable in floats: {type(e).__name__}")
            return ("Q", r, dim)
        if isinstance(m, Decimal):
            return ("Q", m * Decimal(f.numerator) / Decimal(f.denominator), dim)
        return ("Q", m * f, dim)

    strict = False      # exact-arithmetic streams: a float where int / Fraction operands went in is itself a failure

    def num_close(self, x, y, tol):
        if is_nan(x) or is_nan(y):
            return is_nan(x) and is_nan(y)
        if isinstance(x, complex) or isinstance(y, complex):
            raise Skip("complex")
        if exact(x) and exact(y):
            return x == y
        if self.strict:
            return False
        try:
            fx, fy = F(x), F(y)
        except (OverflowError, ValueError):
            return x == y
        # a float took part (fractional power, int ** negative int, NaN ** 0, ...): labelled float test
        return abs(fx - fy) <= max(tol, F(1, 10 ** 9)) * max(abs(fx), abs(fy))

    def same(self, o1, o2, tol):
        if o1[0] != o2[0]:
            return False
        if o1[0] == "err":
            return o1[1] == o2[1]
        p1, p2 = self.phys(o1[1]), self.phys(o2[1])
        if p1[0] != p2[0]:
            return False
        if p1[0] == "N":
            return self.num_close(p1[1], p2[1], tol)
        return p1[2] == p2[2] and self.num_close(p1[1], p2[1], tol)

    def run(self, t, variants, tol):
        """variants: list of dict leaf-index -> spec.  Returns the list of outcomes at the root."""
        self.leafno = 0
        return self._run(t, variants, tol)

    def _run(self, t, variants, tol):
        if t[0] == "leaf":
            i = self.leafno
            self.leafno += 1
            return [("ok", self.w.mk(v[i])) for v in variants]
        if t[0] == "un":
            sub = self._run(t[2], variants, tol)
            outs = []
            for o in sub:
                if o[0] == "err":
                    outs.append(o)
                    continue
                s0 = snap(o[1])
                try:
                    outs.append(("ok", UNOPS[t[1]](o[1])))
                except Exception as e:       # noqa: BLE001
                    outs.append(("err", errclass(e)))
                if not snap_eq(s0, snap(o[1])):
                    self.frames.append((f"frame:{t[1]}:operand", f"operand of {t[1]} changed"))
            self.compare(t, sub, None, outs, tol)
            return outs
        _, op, form, l, r = t
        ls = self._run(l, variants, tol)
        rs = self._run(r, variants, tol)
        outs = []
        for lo, ro in zip(ls, rs):
            if lo[0] == "err":
                outs.append(lo)
            elif ro[0] == "err":
                outs.append(ro)
            else:
                outs.append(self.apply_bin(op, form, lo[1], ro[1]))
        self.compare(t, ls, rs, outs, tol)
        return outs

    @staticmethod
    def inexact_operand(os_):
        for o in os_ or ():
            if o[0] == "ok":
                m = o[1]._magnitude if is_q(o[1]) else o[1]
                if isinstance(m, (float, Decimal)) and not is_nan(m):
                    return True
        return False

    def cancels(self, t, ls, rs, outs):
        """an inexact (float / Decimal) + or - whose result is tiny relative to its operands: rounding noise of the
        operands' scale dominates the result, here and in everything computed from it"""
        if not (t[0] == "bin" and t[1] in ("add", "sub")):
            return False
        if not (self.inexact_operand(ls) or self.inexact_operand(rs) or self.inexact_operand(outs)):
            return False

        def mag(o):
            if o[0] != "ok":
                return None
            p = self.phys(o[1])
            try:
                return abs(F(p[1]))
            except (TypeError, ValueError, OverflowError):
                return None
        for lo, ro, oo in zip(ls, rs, outs):
            ml, mr, mo = mag(lo), mag(ro), mag(oo)
            if None in (ml, mr, mo):
                continue
            if mo * 10 ** 6 < max(ml, mr):
                return True
        return False

    def compare(self, t, ls, rs, outs, tol):
        if self.div is not None:
            return
        try:
            if self.cancels(t, ls, rs, outs):
                self.div = ("cancellation", "")
                return
        except Skip:
            pass
        for k in range(1, len(outs)):
            if not self.same(outs[0], outs[k], tol):
                if t[0] == "bin" and t[1] in ("floordiv", "mod", "divmodq", "divmodr") and (self.inexact_operand(ls) or self.inexact_operand(rs)):
                    # // and % are discontinuous: with a float operand (Fraction ** Quantity goes through float) the
                    # two evaluations may legitimately fall on different sides; not an exact-arithmetic case
                    self.div = ("float-discontinuity", "")
                    return
                self.div = self.report(t, ls, rs, outs, k)
                return


def describe(o):
    try:
        return describe_(o)
    except ValueError:
        return "<a number with more than 4300 digits>"


def describe_(o):
    if o[0] == "err":
        return o[1]
    v = o[1]
    if is_q(v):
        return f"{v._magnitude!r} {dict(v._units)}"
    return repr(v)


# ---------------------------------------------------------------- the check
def run(ck):
    import numpy as np
    import pint
    rng = random.Random(ck.seed)
    thorough = ck.tier == "thorough"
    ck.rule = ("Fraction registry, exact comparison: random expression trees (depth <= 4 quick / 6 thorough) over "
               "+ - * / // % divmod ** neg abs in the forms __op__, __rop__, __iop__, leaves drawn from every exact "
               "multiplicative unit of the registry (compound, prefixed, delta_ units; bare numbers 0 / NaN / non-zero); each "
               "tree evaluated by pint, by the model in Coq (both leaf assignments), and with every leaf re-expressed in a "
               "random compatible unit (prefix, other unit of the dimension, extra dimensionless factor: radian percent count "
               "ppm ... — the list is in the evidence); operands snapshotted around every application; ndarray (object dtype, exact) targets for the "
               "in-place twins (incl. dimensionless targets not in root units with bare operands); ==, <, <=, >, >= (also with operands written in "
               "offset units — kelvin <-> degC, degF, degRe — against the ordering of the root values, and a < b <=> b > a; and on NDARRAY quantities — object/float64/int64, "
               "dimensionless-but-scaled units included — vs bare numbers, arrays, quantities in both operand orders: operands unchanged, "
               "second evaluation agrees, every element agrees with the scalar comparison); every bundled context "
               "ACTIVE (dimension mismatch across the dimensions it relates must still raise; same-dimension results unchanged); "
               "float / Decimal / int magnitudes with tolerance (labelled tests); Python-int magnitudes in the Fraction registry with EXACT "
               "comparison where a float result is itself a failure; int magnitudes in the Decimal registry; malformed "
               "stream: mixed dimensions, bare numbers on dimensioned quantities, zero divisors, dimensioned exponents. "
               "non-trivial = distinct (tree shape with operators, forms and leaf units) whose re-expression changes at least one unit")
    ck.assumptions += [
        "units whose root factor is a float in the Fraction registry (planck_*, franklin, alpha-dependent: C02) are outside the exact domain and not drawn",
        "offset / logarithmic units are C06's; here they appear only in the F14 probe",
        "non-integer rational exponents: the unit part is compared exactly (KPowUnits), the magnitude part is a float test (rel. 1e-9)",
        "float registry: rel. tolerance 1e-9, no // % divmod (discontinuous); Decimal registry: rel. 1e-20; a tree is dropped at the first inexact + / - node whose result is below 1e-6 of its operands (cancellation: the comparison would be relative to a near-zero result)",
        "ndarray magnitudes are compared element by element against the scalar model; arrays are uniform w.r.t. the zero test",
        "reflected forms with a quantity on the left are explicit dunder calls; __rtruediv__/__rpow__ only with a bare left operand (the only operator path)",
    ]
    ok_build = ck.coq_build(["Properties/C03.vo", "Model/QuantityRun.vo", "Gen/DefaultReg.vo"])

    import time
    t_mark = [time.time()]
    timing = ck.extra.setdefault("seconds", {})
    timing["coq build"] = round(time.time() - ck.t0, 1)

    def lap(name):
        timing[name] = round(time.time() - t_mark[0], 1)
        t_mark[0] = time.time()

    W = World(F)
    W.build_universe()
    W.exact_ureg = W.ureg
    ureg, Q = W.ureg, W.Q
    units = W.units
    neg_units = sorted(n for n in units if W.rootfac[n] < 0)
    DIMLESS = [n for n in DIMLESS_WANTED if n in W.dimkey and not W.dimkey[n]] or ["radian"]
    ck.extra["dimensionless_units_used_for_re-expression"] = DIMLESS
    ck.extra["exact_multiplicative_units"] = len(units)
    ck.extra["negative_scale_units"] = neg_units
    cases, descs, fails = [], [], []
    seen_fail = set()

    def add_case(term, desc):
        cases.append(term)
        descs.append(desc)

    def fail(key, desc, rp):
        if key not in seen_fail:
            seen_fail.add(key)
            fails.append((key, desc, rp))

    # ---------------- generators
    def rmag(kind="frac"):
        r = rng.random()
        if r < 0.06:
            return F(0)
        n = rng.randint(-12, 12) or 3
        if kind == "int" or r < 0.3:
            return F(n)
        return F(n, rng.choice([1, 2, 3, 4, 5, 8, 10]))

    def runits():
        r = rng.random()
        if r < 0.07:
            return {}
        k = 1 if r < 0.55 else (2 if r < 0.9 else 3)
        d = {}
        for _ in range(k):
            n = rng.choice(units)
            if rng.random() < 0.25 and n in W.prefixable:
                n = rng.choice(PREFIXES) + n
            e = rng.choice([1, 1, 1, -1, -1, 2, -2, 3])
            d[n] = d.get(n, F(0)) + e
        return {k: v for k, v in d.items() if v != 0}

    def alt_name(n):
        """another way to write unit n: itself, prefixed, or another unit of its dimension"""
        r = rng.random()
        base = n in W.dimkey
        if r < 0.2:
            return n
        if r < 0.45 and n in W.prefixable:
            return rng.choice(PREFIXES) + n
        try:
            key = W.dimkey[n] if base else frozenset(W.dim({n: F(1)}).items())
        except Exception:
            return n
        cl = W.classes.get(key)
        if not cl:
            return n
        m = rng.choice(cl)
        if rng.random() < 0.3 and m in W.prefixable:
            m = rng.choice(PREFIXES) + m
        return m

    def alt_units(d):
        out = {}
        for n, e in d.items():
            m = alt_name(n)
            out[m] = out.get(m, F(0)) + e
        if rng.random() < (0.5 if not d else 0.15):
            m = rng.choice(DIMLESS)
            out[m] = out.get(m, F(0)) + rng.choice([1, 1, -1, 2])
        return {k: v for k, v in out.items() if v != 0}

    def reexpress(spec):
        """the same physical quantity in other units (exact)"""
        if spec[0] == "N":
            return spec
        _, m, d = spec
        for _ in range(6):
            d2 = alt_units(d)
            if any(F(e).denominator != 1 for e in d2.values()):
                continue
            try:
                f1, f2 = W.fac(d), W.fac(d2)
            except Skip:
                continue
            if f1 is None or f2 is None or W.dim(d) != W.dim(d2):
                continue
            m2 = m if is_nan(m) else m * f1 / f2
            if exact(m2) and max(abs(F(m2).numerator), F(m2).denominator) > 10 ** 40:
                continue
            return ("Q", m2, d2)
        return spec

    def leaf(kind="frac"):
        return ("leaf", ("Q", rmag(kind), runits()))

    def bare(malformed=False):
        r = rng.random()
        if r < 0.3:
            return ("leaf", ("N", 0))
        if r < 0.4:
            return ("leaf", ("N", float("nan")))
        if r < 0.5:
            return ("leaf", ("N", F(0)))
        return ("leaf", ("N", rng.choice([1, 2, 3, -2, F(1, 2), F(-3, 4), F(5, 2)])))

    def quick_eval(t):
        """value of a subtree on pint (for type-directed generation); None when it raises"""
        ev = Evaluator(W, lambda *a: None)
        leaves = collect(t)
        try:
            o = ev.run(t, [dict(enumerate(leaves))], F(0))[0]
        except Skip:
            return None
        return o[1] if o[0] == "ok" else None

    def collect(t):
        if t[0] == "leaf":
            return [t[1]]
        if t[0] == "un":
            return collect(t[2])
        return collect(t[3]) + collect(t[4])

    def partner(v, depth, malformed):
        """a right operand for + - // % divmod: mostly the same dimension as v in other units"""
        if malformed and rng.random() < 0.5:
            return gen(max(depth, 0), False) if rng.random() < 0.5 else bare()
        if v is None or not is_q(v):
            return bare() if rng.random() < 0.5 else leaf()
        d = units_of(v)
        if any(e.denominator != 1 for e in d.values()):
            return leaf()
        if rng.random() < 0.1 and not W.dim(d):
            return bare()
        if rng.random() < 0.08:
            return ("leaf", ("N", rng.choice([0, float("nan"), F(0)])))
        base = ("leaf", ("Q", rmag(), alt_units(d) if rng.random() < 0.85 else dict(d)))
        if depth >= 1 and rng.random() < 0.35:
            w = rng.random()
            if w < 0.4:
                return ("bin", "mul", rng.choice(["plain", "refl", "inpl"]) if rng.random() < 0.5 else "plain", base, ("leaf", ("N", rng.choice([2, F(1, 2), -3]))))
            if w < 0.7:
                return ("un", rng.choice(["neg", "abs", "pos"]), base)
            return ("bin", rng.choice(["add", "sub"]), "plain", base, ("leaf", ("Q", rmag(), alt_units(d))))
        return base

    def exponent(malformed):
        r = rng.random()
        if malformed and r < 0.4:
            return ("leaf", ("Q", rng.choice([F(2), F(0), F(1), F(1, 2)]), {rng.choice(units): F(1)}))
        if r < 0.55:
            return ("leaf", ("N", rng.choice([2, 2, 3, -1, -2, 0, 1, F(2), F(-1)])))
        if r < 0.65:
            return ("leaf", ("N", rng.choice([F(1, 2), F(-1, 2), F(3, 2), F(1, 3)])))
        e = rng.choice([F(2), F(3), F(-1), F(1), F(0), F(-2)])
        u = rng.choice([{}, {}, {rng.choice(DIMLESS): F(1)}, {"percent": F(1)}, {"radian": F(1)}])
        f = W.fac(u)
        return ("leaf", ("Q", e / f, u))

    def form_for(op, l_is_q):
        r = rng.random()
        if not l_is_q:
            return "plain" if r < 0.7 else "refl"
        if r < 0.6:
            return "plain"
        if r < 0.8:
            return "inpl"
        return "refl" if op not in ("div", "pow") else "plain"

    def gen(depth, malformed):
        if depth <= 0:
            return leaf("int") if rng.random() < 0.15 else leaf()
        r = rng.random()
        if r < 0.12:
            return ("un", rng.choice(["neg", "abs", "abs", "pos"]), gen(depth - 1, malformed))
        if r < 0.40:                                      # * /
            op = rng.choice(["mul", "div"])
            l = gen(depth - 1, malformed)
            w = rng.random()
            if w < 0.15:
                rt = bare()
            elif w < 0.25:
                return ("bin", op, rng.choice(["plain", "refl"]), bare(), l)       # number op quantity
            else:
                rt = gen(rng.randint(0, depth - 1), malformed)
            return ("bin", op, form_for(op, True), l, rt)
        if r < 0.86:                                      # + - // % divmod
            op = rng.choice(["add", "sub", "add", "sub", "floordiv", "mod", "divmodq", "divmodr"])
            l = gen(depth - 1, malformed)
            v = quick_eval(l)
            w = rng.random()
            if w < 0.08 and v is not None and is_q(v) and (not W.dim(units_of(v)) or rng.random() < 0.3):
                return ("bin", op, rng.choice(["plain", "refl"]), bare(), l)       # number op quantity
            rt = partner(v, depth - 2, malformed)
            return ("bin", op, form_for(op, v is not None and is_q(v)), l, rt)
        # powers
        if r < 0.95:
            l = gen(min(depth - 1, 1), malformed)
            return ("bin", "pow", rng.choice(["plain", "plain", "inpl"]), l, exponent(malformed))
        e = exponent(False)
        while e[1][0] != "Q":
            e = exponent(False)
        return ("bin", "pow", rng.choice(["plain", "refl"]), ("leaf", ("N", rng.choice([2, 3, F(1, 2), -2, 0]))), e)

    def has_fractional_pow(t, w):
        """does some ** node of t see a non-integer exponent?  (then the magnitude leaves the rationals)"""
        if t[0] == "leaf":
            return False
        if t[0] == "un":
            return has_fractional_pow(t[2], w)
        _, op, form, l, r = t
        if has_fractional_pow(l, w) or has_fractional_pow(r, w):
            return True
        if op == "pow":
            v = quick_eval(r)
            if v is None:
                return False
            if is_q(v):
                try:
                    m = v.to_root_units()._magnitude
                except Exception:
                    return False
            else:
                m = v
            return not (is_nan(m) or (exact(m) and F(m).denominator == 1))
        return False

    def obs_term(o):
        if o[0] == "err":
            return f"(ObsErr {o[1]})"
        v = o[1]
        if is_q(v):
            return f"(ObsQty {coq_omag(v._magnitude)} {coq_uc(units_of(v))})"
        return f"(ObsNum {coq_omag(v)})"

    def tree_key(t):
        if t[0] == "leaf":
            s = t[1]
            return "N" if s[0] == "N" else "Q" + ",".join(sorted(s[2]))
        if t[0] == "un":
            return f"{t[1]}({tree_key(t[2])})"
        return f"{t[1]}.{t[2]}({tree_key(t[3])};{tree_key(t[4])})"

    def units_in(o):
        return units_of(o[1]) if o[0] == "ok" and is_q(o[1]) else {}

    def make_report(world, tag, t_root, variants):
        def report(t, ls, rs, outs, k):
            """first node where variant k parts from variant 0: build the violation key"""
            if t[0] == "un":
                op, form = t[1], "-"
                kinds = "Q" if ls[0][0] == "ok" and is_q(ls[0][1]) else "N"
                involved = [units_in(ls[0]), units_in(ls[k])]
            else:
                op, form = t[1], t[2]
                kinds = ("Q" if ls[0][0] == "ok" and is_q(ls[0][1]) else "N") + ("Q" if rs[0][0] == "ok" and is_q(rs[0][1]) else "N")
                involved = [units_in(ls[0]), units_in(ls[k]), units_in(rs[0]), units_in(rs[k])]
            negs = sorted({n for d in involved for n in d if n in neg_units or any(n.endswith(x) and n != x for x in neg_units)})
            def inexact_result(o):
                if o[0] != "ok":
                    return False
                m = o[1]._magnitude if is_q(o[1]) else o[1]
                return not exact(m) and not is_nan(m)
            def fractional(o):
                if o is None or o[0] != "ok":
                    return False
                try:
                    m = o[1].to_root_units()._magnitude if is_q(o[1]) else o[1]
                    return not is_nan(m) and F(m).denominator != 1
                except Exception:       # noqa: BLE001
                    return False
            if op == "abs" and negs:
                key = "cov:abs:negative-scale"
            elif op == "pow" and negs and rs and fractional(rs[0]):
                # (unit with a negative scale) ** non-integer: (g_e**2) ** (3/2) is g_e**3 for pint, |g_e|**3 for the reals
                key = "cov:pow-fractional:negative-scale"
            elif tag == ":int-exact" and (inexact_result(outs[0]) or inexact_result(outs[k])):
                # int / Fraction operands went in, a float came out (in one way of writing the operands at least)
                key = f"exact-arithmetic:{op}:{form}:{kinds}"
            else:
                key = f"cov{tag}:{op}:{form}:{kinds}"
            desc = (f"{op}[{form}] is not covariant: {describe(outs[0])} vs {describe(outs[k])} after re-expressing the operands "
                    f"({describe(ls[0])}{' , ' + describe(rs[0]) if rs else ''}  ~  {describe(ls[k])}{' , ' + describe(rs[k]) if rs else ''})")
            rp = {"kind": "tree", "registry": tag or "Fraction", "tree": jsonable_tree(t_root),
                  "variants": [[jsonable_tree(("leaf", s))[1] for s in v.values()] for v in variants],
                  "diverging_node": show_tree(t)}
            fail(key, desc, rp)
            return (key, desc)
        return report

    # ---------------- stream 1: exact trees
    import os
    import faulthandler
    import signal
    faulthandler.register(signal.SIGUSR1, all_threads=True)      # kill -USR1 <pid> prints where the run is
    scale = float(os.environ.get("C03_SCALE", "1") or 1)      # development aid only; evidence records it

    def N(quick, thor):
        return max(1, int((thor if thorough else quick) * scale))
    ck.extra["scale"] = scale
    n_trees = N(4000, 50000)
    n_tree_model = N(550, 7000)
    maxdepth = 6 if thorough else 4
    n_model = 0
    skipped = 0
    for i in range(n_trees):
        malformed = rng.random() < 0.12
        depth = rng.randint(1, maxdepth)
        t = gen(depth, malformed)
        leaves = collect(t)
        va = dict(enumerate(leaves))
        vc = dict(enumerate(reexpress(s) for s in leaves))
        variants = [va, vc]
        ev = Evaluator(W, None)
        ev.report = make_report(W, "", t, variants)
        try:
            outs = ev.run(t, variants, F(0))
        except Skip:
            skipped += 1
            continue
        except RecursionError:
            skipped += 1
            continue
        for key, desc in ev.frames:
            fail(key, desc, {"kind": "tree", "tree": jsonable_tree(t), "variants": [[jsonable_tree(("leaf", s))[1] for s in v.values()] for v in variants]})
        if ev.div is not None and ev.div[0] in ("float-discontinuity", "cancellation"):
            ck.count(f"tree:{ev.div[0]} (skipped)")
            continue
        changed = any(a != c for a, c in zip(va.values(), vc.values()))
        ck.case(key=("tree", tree_key(t)), nontrivial=changed,
                sample={"tree": show_tree(t), "re-expressed leaves": [show_spec(s) for s in vc.values()], "result": describe(outs[0])} if len(ck.samples) < 4 else None)
        ck.count("tree:malformed" if malformed else "tree:valid")
        ck.count("root:" + (outs[0][1] if outs[0][0] == "err" else ("quantity" if is_q(outs[0][1]) else "number")))
        for nd in walk(t):
            if nd[0] == "bin":
                ck.count(f"op:{nd[1]}:{nd[2]}")
            elif nd[0] == "un":
                ck.count(f"op:{nd[1]}")
        # model: both leaf assignments
        if i >= n_tree_model:
            continue
        try:
            if has_fractional_pow(t, W):
                ck.count("tree:fractional-power (model: units only)")
                continue
            for v, o in zip(variants, outs):
                tt = subst(t, list(v.values()))
                add_case(f"KTree cfg_scalar {coq_tree(tt)} {obs_term(o)}", {"tree": show_tree(tt), "pint": describe(o)})
                n_model += 1
        except Skip:
            skipped += 1
    ck.extra["trees_skipped_outside_exact_domain"] = skipped

    lap('trees')
    # ---------------- stream 2: single applications, every op x form x operand kind; reflected agreement
    def single(op, form, ls, rs, tag="single"):
        l, r = W.mk(ls), W.mk(rs)
        ev = Evaluator(W, None)
        o = ev.apply_bin(op, form, l, r)
        for key, desc in ev.frames:
            fail(key, desc, {"kind": "single", "op": op, "form": form, "l": show_spec(ls), "r": show_spec(rs)})
        return o

    def integral_exponent(spec):
        """does spec, used as an exponent, keep magnitudes rational?  (dimensioned quantities are refused: fine)"""
        if spec[0] == "N":
            v = spec[1]
        elif W.dim(spec[2]):
            return True
        else:
            v = spec[1] * W.fac(spec[2])
        return is_nan(v) or F(v).denominator == 1

    pairs_n = N(300, 2500)
    for i in range(pairs_n):
        d = runits()
        a = ("Q", rmag(), d)
        w = rng.random()
        if w < 0.6:
            b = ("Q", rmag(), alt_units(d))
        elif w < 0.75:
            b = ("Q", rmag(), runits())
        else:
            b = bare()[1]
        op = rng.choice(BINOPS)
        if op == "pow":
            b = exponent(rng.random() < 0.2)[1]
        try:
            o_plain = single(op, "plain", a, b)
            if op != "pow" or integral_exponent(b):
                add_case(f"KOp cfg_scalar {COQ_OP[op]} FPlain {coq_operand(a)} {coq_operand(b)} {obs_term(o_plain)}",
                         {"op": op, "form": "plain", "l": show_spec(a), "r": show_spec(b), "pint": describe(o_plain)})
            else:
                ck.count("single:fractional-power (model: units only)")
            ck.case(key=("single", op, "plain", tuple(sorted(a[2])), show_spec(b) if b[0] == "N" else tuple(sorted(b[2]))))
            # a op b through the reflected method of b (explicit call) must agree with the plain form
            if b[0] == "Q" and op not in ("div", "pow"):
                o_refl = single(op, "refl", a, b)
                add_case(f"KOp cfg_scalar {COQ_OP[op]} FRefl {coq_operand(a)} {coq_operand(b)} {obs_term(o_refl)}",
                         {"op": op, "form": "refl", "l": show_spec(a), "r": show_spec(b), "pint": describe(o_refl)})
                ev = Evaluator(W, None)
                if not ev.same(o_plain, o_refl, F(0)):
                    fail(f"reflected-agree:{op}:QQ", f"b.{RNAME[op]}(a) = {describe(o_refl)} but a {op} b = {describe(o_plain)}",
                         {"kind": "single", "op": op, "l": show_spec(a), "r": show_spec(b)})
                ck.count("reflected-agree:QQ")
            # number op quantity: reflected dispatch by Python
            n = bare()[1]
            o_r = single(op, "plain", n, a)
            if op != "pow" or integral_exponent(a):
                add_case(f"KOp cfg_scalar {COQ_OP[op]} FPlain {coq_operand(n)} {coq_operand(a)} {obs_term(o_r)}",
                         {"op": op, "form": "plain(number left)", "l": show_spec(n), "r": show_spec(a), "pint": describe(o_r)})
            ck.count("reflected:number-left")
            # scalar in-place: same result as the plain form
            if op not in ("divmodq", "divmodr"):
                o_i = single(op, "inpl", a, b)
                ev = Evaluator(W, None)
                if not (o_i[0] == o_plain[0] and (o_i[0] == "err" and o_i[1] == o_plain[1] or o_i[0] == "ok" and snap_eq(snap(o_i[1]), snap(o_plain[1])))):
                    fail(f"inplace-agree:{op}:scalar", f"a {op}= b gives {describe(o_i)} but a {op} b gives {describe(o_plain)}",
                         {"kind": "single", "op": op, "l": show_spec(a), "r": show_spec(b)})
                ck.count("inplace-agree:scalar")
        except Skip:
            continue

    lap('singles')
    # ---------------- stream 3: ndarray targets (object dtype, exact): in-place twins
    def arr(ms):
        return np.array([F(m) for m in ms], dtype=object)

    def dimless_nonroot():
        """a dimensionless container that is not the root one: percent, ppm, m/km, ..."""
        r = rng.random()
        if r < 0.4:
            return {rng.choice(DIMLESS): F(rng.choice([1, 1, 2, -1]))}
        u = rng.choice(units)
        v = alt_name(u)
        if v == u and u in W.prefixable:
            v = rng.choice(PREFIXES) + u
        d = {u: F(1)}
        d[v] = d.get(v, F(0)) - 1
        return {k: e for k, e in d.items() if e != 0}

    nd_n = N(350, 2000)
    for i in range(nd_n):
        d = runits() if rng.random() < 0.75 else dimless_nonroot()
        n = rng.randint(1, 3)
        am = [rmag() for _ in range(n)]
        op = rng.choice(["add", "sub", "mul", "div", "floordiv", "mod", "pow"])
        w = rng.random()
        if op == "pow":
            bs = exponent(rng.random() < 0.15)[1]
            if any(x == 0 for x in am) and rng.random() < 0.8:
                am = [x or F(1) for x in am]                # uniform w.r.t. 0 ** negative
            elif any(x == 0 for x in am):
                am = [F(0)] * n
            if bs[0] == "Q" and F(bs[1]) == 0:
                continue                                    # F80: probed separately
            ev_ = bs[1] if bs[0] == "N" else (bs[1] * W.fac(bs[2]) if not W.dim(bs[2]) else F(2))
            if not is_nan(ev_) and F(ev_).denominator != 1:
                continue                                    # magnitude would leave the rationals
            bm = None
        elif w < (0.7 if W.dim(d) else 0.35):
            bs = ("Q", None, alt_units(d) if rng.random() < 0.8 else runits())
            bm = [rmag() for _ in range(n)] if rng.random() < 0.6 else [rmag()]
            if any(x == 0 for x in bm) and not all(x == 0 for x in bm) and op in ("div", "floordiv", "mod"):
                bm = [x or F(1) for x in bm]
        else:
            z = rng.random() < 0.5
            bs = ("N", None)
            bm = [F(0)] * n if z else [F(rng.choice([1, 2, -3])) for _ in range(n)]
            if rng.random() < 0.5:
                bm = bm[:1]
        try:
            A = Q(arr(am), regk.mkuc(ureg, d))
            if bm is None:
                B = W.mk(bs)
            elif bs[0] == "Q":
                B = Q(arr(bm) if len(bm) > 1 or rng.random() < 0.5 else bm[0], regk.mkuc(ureg, bs[2]))
            else:
                B = arr(bm) if len(bm) > 1 else bm[0]
            A2, B2 = copy.deepcopy(A), copy.deepcopy(B)
            buf = A._magnitude
            sb = snap(B)
            try:
                R = INPL[op](A, B)
                oi = ("ok", R)
            except Exception as e:      # noqa: BLE001
                oi = ("err", errclass(e))
            sb_after = snap(B)
            if not snap_eq(sb, sb_after):
                fail(f"frame:{op}:inpl-ndarray:right-operand", f"right operand of ndarray {op}= changed: {sb} -> {sb_after}",
                     {"kind": "ndarray", "op": op, "a": [str(x) for x in am], "a_units": {k: str(v) for k, v in d.items()}, "b": repr(B2)})
            try:
                P = PLAIN[op](A2, B2)
                op_ = ("ok", P)
            except Exception as e:      # noqa: BLE001
                op_ = ("err", errclass(e))
            agree = oi[0] == op_[0] and (oi[1] == op_[1] if oi[0] == "err" else snap_eq(snap(oi[1]), snap(op_[1])))
            if not agree:
                fail(f"inplace-agree:{op}:ndarray", f"ndarray a {op}= b gives {describe(oi)} but a {op} b gives {describe(op_)}",
                     {"kind": "ndarray", "op": op, "a": [str(x) for x in am], "a_units": {k: str(v) for k, v in d.items()}, "b": repr(B2)})
            if oi[0] == "ok" and (R is not A):
                fail(f"inplace-identity:{op}:ndarray", "in-place form on an ndarray target returned a new object", {"op": op})
            ck.count("ndarray:" + op + (":same-buffer" if oi[0] == "ok" and R._magnitude is buf else ""))
            ck.case(key=("nd", op, tuple(sorted(d)), repr(bs[0])))
            # element-wise against the scalar model
            for j in range(n):
                aj = ("Q", am[j], d)
                if bm is None:
                    bj = bs
                elif bs[0] == "Q":
                    bj = ("Q", bm[j] if len(bm) > 1 else bm[0], bs[2])
                else:
                    bj = ("N", bm[j] if len(bm) > 1 else bm[0])
                if oi[0] == "ok":
                    rm = R._magnitude
                    rj = rm[j] if isinstance(rm, np.ndarray) and rm.ndim else rm
                    ot = f"(ObsQty {coq_omag(rj)} {coq_uc(units_of(R))})"
                else:
                    ot = f"(ObsErr {oi[1]})"
                if is_q(B):
                    bmag = B._magnitude
                    bj_after = bmag[j] if isinstance(bmag, np.ndarray) and bmag.ndim and len(bmag) > 1 else (bmag[0] if isinstance(bmag, np.ndarray) and bmag.ndim else bmag)
                    after = f"(ObsQty {coq_omag(bj_after)} {coq_uc(units_of(B))})"
                else:
                    bv = B[j] if isinstance(B, np.ndarray) and len(B) > 1 else (B[0] if isinstance(B, np.ndarray) else B)
                    after = f"(ObsNum {coq_omag(bv)})"
                add_case(f"KInpl cfg_coded {COQ_OP[op]} (Qn {coq_mag(aj[1])} {coq_uc(d)}) {coq_operand(bj)} {ot} {after}",
                         {"ndarray": op, "a": show_spec(aj), "b": show_spec(bj), "pint": describe(oi)})
        except Skip:
            continue

    lap('ndarray')
    # ---------------- stream 4: ==, <, <=, >, >= covariance; mismatch => DimensionalityError
    cmp_n = N(600, 3000)
    cmp_model = N(40, 600)
    for i in range(cmp_n):
        d = runits()
        a = ("Q", rmag(), d)
        w = rng.random()
        if w < 0.55:
            b = ("Q", rmag() if rng.random() < 0.7 else a[1] * W.fac(d) / W.fac(d), alt_units(d))
            if rng.random() < 0.3:                      # physically equal partner
                d2 = b[2]
                if W.dim(d2) == W.dim(d):
                    b = ("Q", a[1] * W.fac(d) / W.fac(d2), d2)
        elif w < 0.7:
            b = ("Q", rmag(), runits())
        else:
            b = ("N", rng.choice([0, 0, float("nan"), 1, F(1, 2), -2]))
        a2, b2 = reexpress(a), reexpress(b)
        negs = sorted({n for s in (a, b, a2, b2) if s[0] == "Q" for n in s[2] if n in neg_units or any(n.endswith(x) for x in neg_units)})
        for name in ["eq"] + list(CMPS):
            def go(x, y):
                X, Y = W.mk(x), W.mk(y)
                sx, sy = snap(X), snap(Y)
                try:
                    r = (X == Y) if name == "eq" else CMPS[name](X, Y)
                    o = ("ok", bool(r))
                except Exception as e:      # noqa: BLE001
                    o = ("err", errclass(e))
                if not (snap_eq(sx, snap(X)) and snap_eq(sy, snap(Y))):
                    fail(f"frame:{name}", f"{name} modified an operand", {"a": show_spec(x), "b": show_spec(y)})
                return o
            o1, o2 = go(a, b), go(a2, b2)
            if o1 != o2:
                key = f"cov:cmp:negative-scale" if (negs and name != "eq") else f"cov:{name}:{'Q' if b[0] == 'Q' else 'N'}"
                fail(key, f"{name} is not covariant: {show_spec(a)} {name} {show_spec(b)} = {o1[1]} but {show_spec(a2)} {name} {show_spec(b2)} = {o2[1]}",
                     {"kind": "cmp", "op": name, "a": show_spec(a), "b": show_spec(b), "a2": show_spec(a2), "b2": show_spec(b2)})
            if name != "eq" and b[0] == "Q" and W.dim(b[2]) != W.dim(d) and o1 != ("err", "XDim"):
                fail(f"dimerr:{name}", f"{show_spec(a)} {name} {show_spec(b)} (different dimensionality) gave {o1} instead of DimensionalityError",
                     {"kind": "cmp", "op": name, "a": show_spec(a), "b": show_spec(b)})
            try:
                for (x, y, o) in (((a, b, o1), (a2, b2, o2)) if i < cmp_model else ()):
                    res = f"(Ok {coq_bool(o[1])})" if o[0] == "ok" else "(Err " + {"XDim": "EDim", "XValue": "EValue", "XType": "EType", "XZeroDiv": "EZeroDiv", "XOffset": "EOffset"}.get(o[1], "EOther") + ")"
                    if name == "eq":
                        add_case(f"KEq (Qn {coq_mag(x[1])} {coq_uc(x[2])}) {coq_operand(y)} {res}", {"eq": [show_spec(x), show_spec(y)], "pint": o})
                    else:
                        add_case(f"KCmp {COQ_CMP[name]} (Qn {coq_mag(x[1])} {coq_uc(x[2])}) {coq_operand(y)} {res}", {name: [show_spec(x), show_spec(y)], "pint": o})
            except Skip:
                pass
        ck.case(key=("cmp", tuple(sorted(d)), show_spec(b) if b[0] == "N" else tuple(sorted(b[2]))))
        ck.count("cmp/eq pairs")

    # ---------------- stream 4b: ordering / equality when an operand is written in an OFFSET unit (kelvin <-> degC, degF, ...)
    offs = []
    seen_o = set()
    for k_, d_ in ureg._units.items():
        if d_.name in seen_o:
            continue
        seen_o.add(d_.name)
        cv = d_.converter
        if not d_.is_multiplicative and type(cv).__name__ == "OffsetConverter" and exact(cv.scale) and exact(cv.offset):
            ref = regk.ucd(d_.reference)
            try:
                fr = W.fac(ref)
            except Skip:
                continue
            if fr:
                offs.append((d_.name, F(cv.scale), F(cv.offset), fr, frozenset(W.dim(ref).items())))
    ck.extra["offset_units"] = [o[0] for o in offs]

    def write_abs(root, how):
        """the quantity whose value in root units is `root`, written in a multiplicative or an offset unit"""
        if how[0] == "M":
            return ("Q", root / W.fac(how[1]), how[1])
        name, sc, of, fr, _ = how[1]
        return ("Q", (root / fr - of) / sc, {name: F(1)})

    def pick_writing(dimkey_):
        r = rng.random()
        cands = [o for o in offs if o[4] == dimkey_]
        if r < 0.55 and cands:
            return ("O", rng.choice(cands))
        # delta_ units are temperature DIFFERENCES: not the same physical quantity as an absolute temperature (C06)
        u_ = rng.choice([x for x in W.classes[dimkey_] if not x.startswith("delta_")])
        if rng.random() < 0.3 and u_ in W.prefixable:
            u_ = rng.choice(PREFIXES) + u_
        return ("M", {u_: F(1)})

    off_n = N(300, 2500)
    off_model = N(30, 600)
    for i in range(off_n if offs else 0):
        dk = rng.choice(offs)[4]
        ra = F(rng.randint(0, 6000), 10)
        rb = ra + F(rng.randint(-60, 60), rng.choice([1, 2, 10])) if rng.random() < 0.6 else F(rng.randint(0, 6000), 10)
        wa, wb, wa2, wb2 = pick_writing(dk), pick_writing(dk), pick_writing(dk), pick_writing(dk)
        if rng.random() < 0.3:
            # exact-zero MAGNITUDES: 0 kelvin, 0 degC (= 273.15 K), 0 degF ... on either side — where __eq__'s
            # both-zero shortcut decides; the other variant writes the same two quantities in other units
            def zero_root(w_):
                return F(0) if w_[0] == "M" else w_[1][2] * w_[1][3]
            ra = zero_root(wa)
            rb = zero_root(wb) if rng.random() < 0.8 else ra
        try:
            a, b, a2, b2 = write_abs(ra, wa), write_abs(rb, wb), write_abs(ra, wa2), write_abs(rb, wb2)
        except Skip:
            continue
        kinds = wa[0] + wb[0] + "~" + wa2[0] + wb2[0]
        names = sorted({w[1][0] for w in (wa, wb, wa2, wb2) if w[0] == "O"})
        for name in ["eq"] + list(CMPS):
            def go2(x, y):
                X, Y = W.mk(x), W.mk(y)
                sx, sy = snap(X), snap(Y)
                try:
                    r_ = (X == Y) if name == "eq" else CMPS[name](X, Y)
                    o = ("ok", bool(r_))
                except Exception as e:      # noqa: BLE001
                    o = ("err", errclass(e))
                if not (snap_eq(sx, snap(X)) and snap_eq(sy, snap(Y))):
                    fail(f"frame:{name}:offset", f"{name} modified an operand", {"a": show_spec(x), "b": show_spec(y)})
                return o
            truth = ("ok", (ra == rb) if name == "eq" else CMPS[name](ra, rb))
            o1, o2 = go2(a, b), go2(a2, b2)
            for (x, y, o) in ((a, b, o1), (a2, b2, o2)):
                if o != truth:
                    fail(f"cov:{'eq' if name == 'eq' else 'cmp'}:offset-unit",
                         f"{show_spec(x)} {name} {show_spec(y)} is {o[1]}, but the same two quantities written as {show_spec(a2 if x is a else a)} , "
                         f"{show_spec(b2 if y is b else b)} (root values {ra} , {rb}) give {truth[1]}",
                         {"kind": "cmp-offset", "op": name, "a": show_spec(x), "b": show_spec(y), "root_values": [str(ra), str(rb)], "offset_units": names})
            if name == "eq":
                # symmetry: a == b  <=>  b == a; and the same answers with ndarray magnitudes (all elements alike)
                o3 = go2(b, a)
                if o3 != o1:
                    fail("reflected-agree:eq:offset-unit", f"{show_spec(a)} == {show_spec(b)} is {o1[1]} but {show_spec(b)} == {show_spec(a)} is {o3[1]} "
                         f"(root values {ra} , {rb})", {"kind": "cmp-offset", "op": "eq", "a": show_spec(a), "b": show_spec(b), "root_values": [str(ra), str(rb)]})
                if i % 3 == 0:
                    for (x, y) in ((a, b), (b, a), (a2, b2)):
                        try:
                            X = Q(arr([x[1], x[1]]), regk.mkuc(ureg, x[2]))
                            Y = Q(arr([y[1], y[1]]), regk.mkuc(ureg, y[2])) if rng.random() < 0.5 else W.mk(y)
                            sx, sy = snap(X), snap(Y)
                            r_ = X == Y
                            oa = ("ok", tuple(bool(v_) for v_ in np.ravel(np.asarray(r_))))
                        except Exception as e:      # noqa: BLE001
                            oa = ("err", errclass(e))
                        if oa != ("ok", (truth[1], truth[1])) or not (snap_eq(sx, snap(X)) and snap_eq(sy, snap(Y))):
                            fail("cov:eq:offset-unit:ndarray", f"ndarray [{x[1]}, {x[1]}] {dict(x[2])} == {show_spec(y)} gives {oa} (operands unchanged: "
                                 f"{snap_eq(sx, snap(X)) and snap_eq(sy, snap(Y))}), root values {ra} , {rb} say {truth[1]}",
                                 {"kind": "cmp-offset", "op": "eq-ndarray", "a": show_spec(x), "b": show_spec(y), "root_values": [str(ra), str(rb)]})
            if name != "eq":
                # reflected agreement: a < b  <=>  b > a
                sw = {"lt": "gt", "le": "ge", "gt": "lt", "ge": "le"}[name]
                o3 = ("ok", None)
                try:
                    o3 = ("ok", bool(CMPS[sw](W.mk(b), W.mk(a))))
                except Exception as e:      # noqa: BLE001
                    o3 = ("err", errclass(e))
                if o3 != o1:
                    fail("reflected-agree:cmp:offset-unit", f"{show_spec(a)} {name} {show_spec(b)} is {o1[1]} but {show_spec(b)} {sw} {show_spec(a)} is {o3[1]}",
                         {"kind": "cmp-offset", "op": name, "a": show_spec(a), "b": show_spec(b)})
                if i < off_model:
                    try:
                        for (x, y, o) in ((a, b, o1), (a2, b2, o2)):
                            res = f"(Ok {coq_bool(o[1])})" if o[0] == "ok" else "(Err EOther)"
                            add_case(f"KCmp {COQ_CMP[name]} (Qn {coq_mag(x[1])} {coq_uc(x[2])}) {coq_operand(y)} {res}", {name: [show_spec(x), show_spec(y)], "pint": o})
                    except Skip:
                        pass
        ck.case(key=("cmp-offset", kinds, tuple(names), str(ra), str(rb)))
        ck.count("cmp/eq with offset units:" + kinds)
    # ---------------- stream 4c: comparisons of NDARRAY quantities: nothing is modified, evaluating twice agrees, and every
    # element agrees with the scalar comparison (bare numbers / arrays / quantities, both operand orders)
    Wf = World(float)
    Wf.setup_universe(W)
    Wf.exact_ureg = W.ureg
    Wf.fac = W.fac

    import warnings

    def canon_cmp(fn):
        try:
            with warnings.catch_warnings():
                warnings.simplefilter("ignore")          # NaN comparisons on float arrays
                r_ = fn()
            if r_ is NotImplemented:
                return ("err", "XType")
            return ("ok", tuple(bool(x) for x in np.ravel(np.asarray(r_))))
        except Skip:
            raise
        except Exception as e:      # noqa: BLE001
            return ("err", errclass(e))

    ALLCMP = dict(CMPS, eq=operator.eq, ne=operator.ne)
    ndc_n = N(260, 2000)
    for i in range(0 if os.environ.get('C03_NO_NDCMP') else ndc_n):
        flavour = rng.choice(["object", "object", "float64", "int64"])
        Wx = W if flavour == "object" else Wf
        d = dimless_nonroot() if rng.random() < 0.6 else runits()
        n = rng.randint(1, 3)
        ints = flavour == "int64"
        am = [F(rng.randint(-300, 300)) if ints or rng.random() < 0.5 else rmag() for _ in range(n)]

        def mkarr(ms):
            if flavour == "object":
                return np.array([F(m) for m in ms], dtype=object)
            if flavour == "int64":
                return np.array([int(m) for m in ms], dtype=np.int64)
            return np.array([float(m) for m in ms], dtype=np.float64)

        def scal(m):
            return F(m) if flavour == "object" else (int(m) if ints else float(m))
        w = rng.random()
        try:
            fa = W.fac(d)
        except Skip:
            continue
        if w < 0.5:                              # bare number, near the physical values so that truth values vary
            ref = am[rng.randrange(n)] * (fa if not W.dim(d) and fa is not None else 1)
            bv = rng.choice([0, 1, 2, F(1, 2), float("nan"), ref, ref + 1, F(ref) / 2 if ref else 1])
            if flavour != "object" and isinstance(bv, F):
                bv = float(bv)
            kind, mkB, elemB = "number", (lambda: bv), (lambda j: bv)
        elif w < 0.65:                           # bare array (right operand only)
            bl = [rng.choice([0, 1, 2, -3]) for _ in range(n)] if rng.random() < 0.7 else [0] * n
            kind, mkB, elemB = "array", (lambda: mkarr(bl)), (lambda j: scal(bl[j]))
        else:                                    # quantity: same dimension in other units mostly, scalar or array
            d2 = alt_units(d) if rng.random() < 0.85 else runits()
            try:
                if W.fac(d2) is None:
                    continue
            except Skip:
                continue
            bl = [F(rng.randint(-300, 300)) if ints else rmag() for _ in range(n if rng.random() < 0.6 else 1)]
            kind = "quantity"
            mkB = (lambda: Wx.Q(mkarr(bl) if len(bl) > 1 else scal(bl[0]), regk.mkuc(Wx.ureg, d2)))
            elemB = (lambda j: Wx.Q(scal(bl[j] if len(bl) > 1 else bl[0]), regk.mkuc(Wx.ureg, d2)))
        for name, fn in ALLCMP.items():
            for order in (("AB", "BA") if kind != "array" else ("AB",)):
                try:
                    A, B = Wx.Q(mkarr(am), regk.mkuc(Wx.ureg, d)), mkB()
                    sA, sB = snap(A), snap(B)
                    call = (lambda: fn(A, B)) if order == "AB" else (lambda: fn(B, A))
                    o1 = canon_cmp(call)
                    fA, fB = snap_eq(sA, snap(A)), snap_eq(sB, snap(B))
                    o2 = canon_cmp(call)
                    rp = {"kind": "ndarray-cmp", "op": name, "order": order, "dtype": flavour, "a": [str(x) for x in am],
                          "a_units": {k: str(v) for k, v in d.items()}, "b": repr(sB[1:]) if sB[0] == "Q" else repr(sB[1])}
                    if not (fA and fB):
                        fail(f"frame:{name}:ndarray-cmp:{'array' if not fA else 'other'}-operand",
                             f"comparison {name} ({order}, {flavour} array {[str(x) for x in am]} {dict(d)} vs {kind} {rp['b']}) modified an operand: "
                             f"array quantity {sA[1]!r} -> {snap(A)[1]!r}; other {sB!r} -> {snap(B)!r}", rp)
                    if o1 != o2:
                        fail(f"repeat:{name}:ndarray-cmp", f"evaluating {name} ({order}) twice on the same objects gives {o1} then {o2} "
                             f"({flavour} array {[str(x) for x in am]} {dict(d)} vs {kind} {rp['b']})", rp)
                    # element by element against the scalar comparison on fresh objects.  pint's zero / NaN rule for bare
                    # operands looks at the operand AS A WHOLE (zero_or_nan(other, all)): a partly-zero bare array next to a
                    # dimensioned quantity is just "a bare number", so element-wise agreement is not demanded there
                    if kind == "array" and W.dim(d) and any(x == 0 for x in bl) and not all(x == 0 for x in bl):
                        ck.count("ndarray-cmp:elementwise-not-applicable (partly-zero bare array, dimensioned quantity)")
                        continue
                    exp = []
                    for j in range(n):
                        Aj, Bj = Wx.Q(scal(am[j]), regk.mkuc(Wx.ureg, d)), elemB(j)
                        exp.append(canon_cmp((lambda: fn(Aj, Bj)) if order == "AB" else (lambda: fn(Bj, Aj))))
                    errs = {e[1] for e in exp if e[0] == "err"}
                    o1b = o1
                    if o1[0] == "ok" and len(o1[1]) == 1 and n > 1:
                        o1 = ("ok", o1[1] * n)           # a scalar answer (== between different dimensions) stands for every element
                    if o1[0] == "ok":
                        want = ("ok", tuple(e[1][0] for e in exp)) if not errs else None
                    else:
                        want = ("err", o1[1]) if o1[1] in errs else None
                    if want != o1 and len(errs) <= 1 and (not errs or all(e[0] == "err" for e in exp)):
                        fail(f"elementwise:{name}:ndarray-cmp:{kind}", f"{name} ({order}) on the {flavour} array gives {o1} but element by element {exp} "
                             f"(array {[str(x) for x in am]} {dict(d)} vs {kind} {rp['b']})", rp)
                except Skip:
                    continue
        ck.case(key=("nd-cmp", flavour, kind, tuple(sorted(d))))
        ck.count(f"ndarray-cmp:{flavour}:{kind}")
    lap('cmp')
    # ---------------- stream 5: oracles on the statement itself at every + / - node of fresh pairs
    rule_n = N(500, 2500)
    for i in range(rule_n):
        d = runits()
        a = ("Q", rmag(), d)
        dimless = not W.dim(d)
        for op in ("add", "sub"):
            n = rng.choice([0, F(0), float("nan"), 1, F(1, 2), -3, 0.0])
            for form, l, r in (("plain", a, ("N", n)), ("plain", ("N", n), a), ("inpl", a, ("N", n))):
                try:
                    o = single(op, form, l, r)
                except Skip:
                    continue
                accepted = o[0] == "ok"
                should = dimless or n == 0 or is_nan(n)
                if accepted != should or (not accepted and o[1] != "XDim"):
                    fail(f"bare-number-rule:{op}:{form}", f"{show_spec(l)} {op} {show_spec(r)}: accepted={accepted} ({describe(o)}), rule says {should}",
                         {"kind": "single", "op": op, "form": form, "l": show_spec(l), "r": show_spec(r)})
                ck.count("bare-number-rule")
            b = ("Q", rmag(), runits())
            if W.dim(b[2]) != W.dim(d):
                for form in ("plain", "refl", "inpl"):
                    o = single(op, form, a, b)
                    if o != ("err", "XDim"):
                        fail(f"dimerr:{op}:{form}", f"{show_spec(a)} {op} {show_spec(b)} (different dimensionality) gave {describe(o)}",
                             {"kind": "single", "op": op, "form": form, "l": show_spec(a), "r": show_spec(b)})
                    ck.count("dimension-mismatch")
        ck.case(key=("rule", tuple(sorted(d))))
        # phys: the model's physical value is pint's to_root_units magnitude and dimensionality
        if i % 3 == 0:
            try:
                qa = W.mk(a)
                add_case(f"KPhys (Qn {coq_mag(a[1])} {coq_uc(d)}) {coq_omag(qa.to_root_units()._magnitude)} {coq_uc(W.dim(d))}", {"phys": show_spec(a)})
            except Skip:
                pass
        if i % 5 == 0:
            e = rng.choice([F(1, 2), F(-3, 2), F(2, 3), F(2), F(0), F(-1)])
            pu = (ureg.Unit(regk.mkuc(ureg, d)) ** e)._units
            add_case(f"KPowUnits {coq_uc(d)} {coq_q(e)} {coq_uc({k: F(v) for k, v in pu.items()})}", {"units**": [str(d), str(e)]})

    lap('rules')
    # ---------------- stream 5b: an ACTIVE context must not make + - < accept another dimensionality, nor change results
    Wc = World(F)
    Wc.setup_universe(W)
    Wc.exact_ureg = W.ureg
    ctx_n = N(6, 30)
    seen_ctx = set()
    for cname, ctx in list(Wc.ureg._contexts.items()):
        if ctx.name in seen_ctx:
            continue
        seen_ctx.add(ctx.name)
        kw = {}
        if ctx.name == "chemistry":
            kw = {"mw": Wc.Q(F(18), "gram/mole")}
        rel = []
        for (src, dst) in ctx.funcs:
            ks, kd = frozenset(regk.ucd(src).items()), frozenset(regk.ucd(dst).items())
            if ks in W.classes and kd in W.classes and ks != kd:
                rel.append((ks, kd))
        try:
            cm = Wc.ureg.context(ctx.name, **kw)
            cm.__enter__()
        except Exception:
            continue
        try:
            for (ks, kd) in rel:
                for _ in range(ctx_n):
                    a = ("Q", rmag() or F(1), {rng.choice(W.classes[ks]): F(1)})
                    b = ("Q", rmag() or F(1), {rng.choice(W.classes[kd]): F(1)})
                    evc = Evaluator(Wc, None)
                    for op in ("add", "sub"):
                        for form in ("plain", "refl", "inpl"):
                            o = evc.apply_bin(op, form, Wc.mk(a), Wc.mk(b))
                            if o != ("err", "XDim"):
                                fail(f"dimerr:{op}:{form}:context-active",
                                     f"with context '{ctx.name}' active, {show_spec(a)} {op} {show_spec(b)} (different dimensionality) gave {describe(o)} instead of DimensionalityError",
                                     {"kind": "context", "context": ctx.name, "op": op, "form": form, "l": show_spec(a), "r": show_spec(b)})
                        A = Wc.Q(arr([a[1], a[1] + 1]), regk.mkuc(Wc.ureg, a[2]))
                        o = evc.apply_bin(op, "inpl", A, Wc.mk(b))
                        if o != ("err", "XDim"):
                            fail(f"dimerr:{op}:inpl-ndarray:context-active",
                                 f"with context '{ctx.name}' active, ndarray {show_spec(a)} {op}= {show_spec(b)} gave {describe(o)} instead of DimensionalityError",
                                 {"kind": "context", "context": ctx.name, "op": op, "l": show_spec(a), "r": show_spec(b)})
                    for name in CMPS:
                        try:
                            CMPS[name](Wc.mk(a), Wc.mk(b))
                            o = ("ok", None)
                        except Exception as e:      # noqa: BLE001
                            o = ("err", errclass(e))
                        if o != ("err", "XDim"):
                            fail(f"dimerr:{name}:context-active", f"with context '{ctx.name}' active, {show_spec(a)} {name} {show_spec(b)} did not raise DimensionalityError",
                                 {"kind": "context", "context": ctx.name, "op": name, "l": show_spec(a), "r": show_spec(b)})
                    ck.case(key=("ctx", ctx.name, tuple(a[2]), tuple(b[2])))
                    ck.count("context-active:dimension-mismatch")
            # same dimension: the active context changes nothing (exact)
            for _ in range(ctx_n * 3):
                d = runits()
                a, b = ("Q", rmag(), d), ("Q", rmag(), alt_units(d))
                for op in ("add", "sub", "mod", "floordiv"):
                    try:
                        o_in = Evaluator(Wc, None).apply_bin(op, "plain", Wc.mk(a), Wc.mk(b))
                        o_out = Evaluator(W, None).apply_bin(op, "plain", W.mk(a), W.mk(b))
                    except Skip:
                        continue
                    same_ = o_in[0] == o_out[0] and (o_in[1] == o_out[1] if o_in[0] == "err" else snap_eq(snap(o_in[1]), snap(o_out[1])))
                    if not same_:
                        fail(f"context-independent:{op}", f"with context '{ctx.name}' active, {show_spec(a)} {op} {show_spec(b)} = {describe(o_in)}, without: {describe(o_out)}",
                             {"kind": "context", "context": ctx.name, "op": op, "l": show_spec(a), "r": show_spec(b)})
                ck.count("context-active:same-dimension")
        finally:
            cm.__exit__(None, None, None)
    lap('contexts')
    # ---------------- known-defect probes (exact inputs; the keys are matched by known_findings/C03.json)
    # F14: autoconvert_offset_to_baseunit, ndarray a *= b with b in an offset unit
    Wa = World(F, autoconvert_offset_to_baseunit=True)
    for unit in ("degree_Celsius", "degree_Fahrenheit"):
        for op in ("mul", "div"):
            A = Wa.Q(arr([1, 2]), "meter")
            B = Wa.Q(F(10), unit)
            sb = snap(B)
            try:
                INPL[op](A, B)
            except Exception:       # noqa: BLE001
                pass
            if not snap_eq(sb, snap(B)):
                fail(f"frame:{op}:inpl-ndarray:right-operand:offset-unit-autoconvert",
                     f"autoconvert_offset_to_baseunit=True: ndarray a {op}= b with b = 10 {unit} leaves b = {snap(B)[1]} {snap(B)[2]}",
                     {"kind": "f14", "op": op, "unit": unit})
            # the plain form and the scalar in-place form do not touch b
            for tgt in (Wa.Q(arr([1, 2]), "meter"), Wa.Q(F(3), "meter")):
                B = Wa.Q(F(10), unit)
                sb = snap(B)
                try:
                    PLAIN[op](tgt, B)
                    if not isinstance(tgt._magnitude, np.ndarray):
                        INPL[op](tgt, B)
                except Exception:   # noqa: BLE001
                    pass
                if not snap_eq(sb, snap(B)):
                    fail(f"frame:{op}:plain:right-operand:offset-unit-autoconvert", f"a {op} b modified b ({unit})", {"kind": "f14", "op": op, "unit": unit})
            ck.case(key=("f14", unit, op))
            ck.count("probe:F14")
    # the model exhibits F14 with the switch on and not with it off; pint decides which one K runs with
    A, B = Wa.Q(arr([2]), "meter"), Wa.Q(F(10), "degree_Celsius")
    INPL["mul"](A, B)
    f14_present = units_of(B) != {"degree_Celsius": F(1)}
    ck.extra["F14_switch_selected"] = f14_present
    add_case(f"KInpl (QCfg true {coq_bool(f14_present)} true) OMul (Qn (Fin (mkq (2) 1)) (mkuc [(\"meter\", mkq (1) 1)])) "
             f"(Qty (Qn (Fin (mkq (10) 1)) (mkuc [(\"degree_Celsius\", mkq (1) 1)]))) "
             f"(ObsQty {coq_omag(A._magnitude[0])} {coq_uc(units_of(A))}) (ObsQty {coq_omag(B._magnitude)} {coq_uc(units_of(B))})",
             {"probe": "F14", "model switch c_f14": f14_present})
    # F81: abs / ordering on a unit with a negative scale
    for nu in neg_units:
        a = ("Q", F(1), {nu: F(1)})
        a2 = ("Q", W.rootfac[nu], {})
        ev = Evaluator(W, None)
        o1 = ("ok", abs(W.mk(a)))
        o2 = ("ok", abs(W.mk(a2)))
        if not ev.same(o1, o2, F(0)):
            fail("cov:abs:negative-scale", f"abs is not covariant for a unit with a negative scale: abs({show_spec(a)}) = {describe(o1)} but abs({show_spec(a2)}) = {describe(o2)}",
                 {"kind": "f81", "unit": nu})
        b, b2 = ("Q", F(2), {nu: F(1)}), ("Q", 2 * W.rootfac[nu], {})
        if (W.mk(a) < W.mk(b)) != (W.mk(a2) < W.mk(b2)) or (W.mk(a) > 0) != (W.mk(a2) > 0):
            fail("cov:cmp:negative-scale", f"ordering is not covariant for a unit with a negative scale: {show_spec(a)} < {show_spec(b)} is {W.mk(a) < W.mk(b)}, "
                 f"{show_spec(a2)} < {show_spec(b2)} is {W.mk(a2) < W.mk(b2)}", {"kind": "f81", "unit": nu})
        add_case(f"KUn UAbs {coq_operand(a)} {obs_term(o1)}", {"probe": "F81 abs"})
        add_case(f"KCmp CLt (Qn {coq_mag(a[1])} {coq_uc(a[2])}) {coq_operand(b)} (Ok {coq_bool(W.mk(a) < W.mk(b))})", {"probe": "F81 cmp"})
        ck.case(key=("f81", nu))
        ck.count("probe:F81")
    # F80: ndarray a **= Q(0, dimensionless-unit)
    for eu in ({}, {"percent": F(1)}, {"radian": F(1)}):
        A = Q(arr([2, 3]), "meter")
        A2 = Q(arr([2, 3]), "meter")
        E = Q(F(0), regk.mkuc(ureg, eu))
        try:
            oi = ("ok", INPL["pow"](A, E))
        except Exception as e:      # noqa: BLE001
            oi = ("err", errclass(e))
        try:
            op_ = ("ok", PLAIN["pow"](A2, E))
        except Exception as e:      # noqa: BLE001
            op_ = ("err", errclass(e))
        agree = oi[0] == op_[0] and (oi[1] == op_[1] if oi[0] == "err" else snap_eq(snap(oi[1]), snap(op_[1])))
        if not agree:
            fail("inplace-agree:pow:ndarray:zero-quantity-exponent",
                 f"ndarray a **= Q(0, {eu}) gives {describe(oi)} but a ** Q(0, {eu}) gives {describe(op_)}; a afterwards: {snap(A)[1]} {snap(A)[2]}",
                 {"kind": "f80", "exponent_units": {k: str(v) for k, v in eu.items()}})
        ot = f"(ObsErr {oi[1]})" if oi[0] == "err" else f"(ObsQty {coq_omag(oi[1]._magnitude[0])} {coq_uc(units_of(oi[1]))})"
        sw = "cfg_coded" if oi[0] == "err" else "cfg_repaired"
        add_case(f"KInpl {sw} OPow (Qn (Fin (mkq (2) 1)) (mkuc [(\"meter\", mkq (1) 1)])) (Qty (Qn (Fin (mkq (0) 1)) {coq_uc(eu)})) {ot} "
                 f"(ObsQty (OExactM (mkq (0) 1)) {coq_uc(eu)})", {"probe": "F80", "switch": sw})
        ck.case(key=("f80", tuple(eu)))
        ck.count("probe:F80")

    lap('probes')
    # ---------------- stream 6: float and Decimal registries, int magnitudes (tolerance; labelled tests)
    for nit, tol, ntr, tag in ((float, F(1, 10 ** 9), N(400, 2500), ":float"), (Decimal, F(1, 10 ** 20), N(200, 1200), ":Decimal"),
                               (F, F(1, 10 ** 9), N(300, 1500), ":int"), (Decimal, F(1, 10 ** 20), N(250, 1200), ":Decimal-int"),
                               (F, F(0), N(900, 6000), ":int-exact")):
        # ":int-exact": Python-int magnitudes in the Fraction registry, EXACT comparison, and a float result is a failure
        # ("in exact (rational) arithmetic the agreement is exact"); ":Decimal-int": int magnitudes in the Decimal registry
        Wn = World(nit, as_int=("int" in tag))
        Wn.setup_universe(W)
        Wn.exact_ureg = W.ureg
        Wn.fac = W.fac
        for i in range(ntr):
            t = gen(rng.randint(1, 3), False)
            if tag != ":int-exact" and any(nd[0] == "bin" and nd[1] in ("floordiv", "mod", "divmodq", "divmodr") for nd in walk(t)):
                continue
            if tag == ":int-exact":
                # stay where Python itself keeps int / Fraction exact: no NaN, ** only with a bare non-negative int
                # (int ** negative int and Fraction ** Quantity are floats in Python, not in pint)
                if any(nd[0] == "leaf" and is_nan(nd[1][1]) for nd in walk(t)):
                    continue
                if any(nd[0] == "bin" and nd[1] == "pow" and not (nd[3][0] != "leaf" or nd[3][1][0] == "Q") for nd in walk(t)):
                    continue
                if any(nd[0] == "bin" and nd[1] == "pow" and not (nd[4][0] == "leaf" and nd[4][1][0] == "N" and exact(nd[4][1][1])
                                                                   and F(nd[4][1][1]).denominator == 1 and nd[4][1][1] >= 0) for nd in walk(t)):
                    continue
            if tag == ":Decimal-int" and any(nd[0] == "bin" and nd[1] == "div" and (nd[2] == "inpl" or (nd[3][0] == "leaf" and nd[3][1][0] == "N")) for nd in walk(t)):
                continue          # F82 (number / int quantity and int quantity /= ... are floats) is reported by the :int-exact stream
            if nit is Decimal and any(nd[0] == "leaf" and nd[1][0] == "N" and (is_nan(nd[1][1]) or isinstance(nd[1][1], F)) for nd in walk(t)):
                continue
            if nit is Decimal and any(nd[0] == "bin" and nd[1] == "pow" for nd in walk(t)):
                continue
            if any(nd[0] == "bin" and nd[1] == "pow" and not (nd[4][0] == "leaf" and nd[4][1][0] == "N" and exact(nd[4][1][1]) and F(nd[4][1][1]).denominator == 1)
                   for nd in walk(t)):
                continue          # a float / Decimal exponent read off a quantity makes the UNIT exponents inexact: outside "exact arithmetic"
            leaves = collect(t)
            va = dict(enumerate(leaves))
            vc = dict(enumerate(reexpress(s) for s in leaves))
            ev = Evaluator(Wn, None)
            ev.strict = tag == ":int-exact"
            ev.report = make_report(Wn, tag, t, [va, vc])
            if tag == ":int-exact":
                try:
                    ev.run(t, [va, vc], F(0))
                except (Skip, RecursionError):
                    ck.count(f"tree{tag}:skipped")
                    continue
                for key, desc in ev.frames:
                    fail(key + tag, desc, {"kind": "tree", "registry": tag, "tree": jsonable_tree(t)})
                ck.case(key=("tree" + tag, tree_key(t)))
                ck.count("tree" + tag)
                continue
            # cancellation guard: compare only when the exact evaluation is not close to zero relative to its leaves
            try:
                exact_out = Evaluator(W, lambda *a: None).run(t, [va], F(0))[0]
                if exact_out[0] == "ok" and any(nd[0] == "bin" and nd[1] in ("add", "sub") for nd in walk(t)):
                    p = Evaluator(W, None).phys(exact_out[1])
                    big = max([abs(F(s[1])) for s in leaves if not is_nan(s[1])] + [F(1)])
                    if exact(p[1]) and abs(p[1]) < big / 10 ** 6:
                        ck.count(f"tree{tag}:skipped-cancellation")
                        continue
                ev.run(t, [va, vc], tol)
            except (Skip, RecursionError, ArithmeticError, TypeError):
                ck.count(f"tree{tag}:skipped")
                continue
            for key, desc in ev.frames:
                fail(key + tag, desc, {"kind": "tree", "registry": tag, "tree": jsonable_tree(t)})
            if ev.div is not None and ev.div[0] in ("float-discontinuity", "cancellation"):
                ck.count(f"tree{tag}:skipped-{ev.div[0]} at an inner node")
                continue
            ck.case(key=("tree" + tag, tree_key(t)))
            ck.count("tree" + tag)

    lap('float/Decimal/int')
    # ---------------- model side
    bad = None
    if ok_build:
        bad = ck.coq_mismatches("c03", HEADER, cases, "ok", shard=160)
    lap('model in Coq')
    ck.extra["model_vs_impl_cases"] = len(cases)
    ck.extra["model_vs_impl_disagreements"] = None if bad is None else len(bad)
    for key, desc, rp in fails:
        ck.violation(key, desc, rp)
    if bad:
        ck.broken.append(f"correspondence QuantityRun.c03_ok: {len(bad)} disagreements, first: {descs[bad[0]]}")
        if not ck.violations:
            ck.violation("correspondence", "model and implementation disagree; no property oracle failed",
                         {"first_disagreement": descs[bad[0]], "coq_case": cases[bad[0]], "n": len(bad),
                          "others": [descs[i] for i in bad[1:40]]}, no_input=True)


def walk(t):
    yield t
    if t[0] == "un":
        yield from walk(t[2])
    elif t[0] == "bin":
        yield from walk(t[3])
        yield from walk(t[4])


def subst(t, leaves):
    it = iter(leaves)

    def go(t):
        if t[0] == "leaf":
            return ("leaf", next(it))
        if t[0] == "un":
            return ("un", t[1], go(t[2]))
        return ("bin", t[1], t[2], go(t[3]), go(t[4]))
    return go(t)


def replay(ck, path):
    """re-run the oracle of a replay file on the current tree"""
    rp = json.load(open(path))
    r = rp["replay"]
    print(json.dumps(rp, indent=1)[:3000])
    if r.get("kind") != "tree":
        return 0
    W = World(F)
    W.build_universe()
    W.exact_ureg = W.ureg
    t = tree_from_json(r["tree"])
    variants = [dict(enumerate(tree_from_json(["leaf", s])[1] for s in v)) for v in r["variants"]]
    found = []
    ev = Evaluator(W, lambda t_, ls, rs, outs, k: found.append((show_tree(t_), describe(outs[0]), describe(outs[k]))) or True)
    outs = ev.run(t, variants, F(0))
    print("outcomes:", [describe(o) for o in outs])
    print("diverging node:", found[:1], "frames:", ev.frames)
    return 1 if (found or ev.frames) else 0
