"""C04 — units form a commutative group under *, /, ** with a canonical representation.

Theorems: coq/Properties/C04.v (over Model/UC.v).  Correspondence K: every operation of
UnitsContainer / ParserHelper / Unit / Quantity-units is run on the real classes and the
result is compared, inside Coq, with the model's result (Model/UCRun.v).  Oracles: the
group laws, ==/hash agreement, canonical form and operand immutability on the real objects.
"""
import copy
import itertools
import json
import random
from decimal import Decimal
from fractions import Fraction as F

from .common import coq_bool, coq_list, coq_opt, coq_q, coq_str, coq_uc

HEADER = "From PintV Require Import Model.UC Model.UCRun.\nOpen Scope string_scope.\n"


NONDYADIC = [F(1, 3), F(-2, 3), F(3, 5), F(1, 7), F(2, 9), F(-1, 10), F(5, 6)]


def fd(uc):
    """real container -> dict name -> Fraction (exact)"""
    return {k: F(v) for k, v in uc._d.items()}


def coq_ph(scale, d):
    return f"(PH {coq_q(scale)} {coq_uc(d)})"


class Impl:
    """the implementation side for one numeric configuration"""

    def __init__(self, nit):
        from pint.util import ParserHelper, UnitsContainer
        self.UC, self.PH, self.nit = UnitsContainer, ParserHelper, nit

    def num(self, fr):
        fr = F(fr)
        if fr.denominator == 1:
            return int(fr)
        if self.nit is float:
            return float(fr)          # only dyadic values are generated
        if self.nit is Decimal:
            return Decimal(fr.numerator) / Decimal(fr.denominator)
        return fr

    def mk(self, d):
        return self.UC({k: self.num(v) for k, v in d.items()}, non_int_type=self.nit)

    def mkph(self, scale, d):
        return self.PH(self.num(scale) if self.nit is not float else F(scale),
                       {k: self.num(v) for k, v in d.items()}, non_int_type=self.nit)


def snapshot(o):
    return (dict(o._d), o._hash)


def run(ck):
    rng = random.Random(ck.seed)
    thorough = ck.tier == "thorough"
    ck.rule = ("small scope: all containers over names {a,b,[c]} with exponents -2..2 (125), all ordered pairs "
               "for * and /, all x 9 exponents for **, add/remove/rename/==; random containers over 8 names with "
               "int/Fraction/Decimal/dyadic-float exponents; ParserHelper with scales; Unit and Quantity layers; "
               "random op sequences over a pool with hash() calls interleaved. non-trivial = distinct "
               "(operation, canonical operands) with at least one non-empty operand")
    ck.assumptions += ["hash(frozenset(items)) idealised as injective; collisions only make __eq__ fall through to dict comparison",
                       "float exponents restricted to dyadic values where IEEE arithmetic is exact"]
    ck.coq_build(["Properties/C04.vo", "Model/UCRun.vo", "Model/PiRun.vo"])

    names = ["a", "b", "[c]"]
    small = [dict((n, F(e)) for n, e in zip(names, es) if e != 0)
             for es in itertools.product(range(-2, 3), repeat=3)]
    pows = [F(-2), F(-1), F(-1, 2), F(0), F(1, 2), F(1), F(2), F(3), F(3, 2)]
    cases = []      # (coq term, python-side description for replay)
    oracle_fail = []

    def add_case(term, desc, key):
        cases.append((term, desc))
        ck.case(key=key, nontrivial=True, sample=desc if len(ck.samples) < 6 else None)

    def oracle(cond, key, desc, replay):
        if not cond:
            oracle_fail.append((key, desc, replay))

    # ---------------------------------------------------------------- binary ops, exhaustive small scope
    for nit in (float, F, Decimal):
        im = Impl(nit)
        pairs = list(itertools.product(small, small))
        if not thorough and nit is not float:
            pairs = rng.sample(pairs, 2500)
        for da, db in pairs:
            a, b = im.mk(da), im.mk(db)
            sa, sb = snapshot(a), snapshot(b)
            if rng.random() < 0.3:
                hash(a)
                sa = snapshot(a)
            m, d = a * b, a / b
            add_case(f"KMul {coq_uc(da)} {coq_uc(db)} {coq_uc(fd(m))}", {"op": "mul", "a": str(da), "b": str(db), "nit": nit.__name__}, ("mul", nit.__name__, str(da), str(db)))
            add_case(f"KDiv {coq_uc(da)} {coq_uc(db)} {coq_uc(fd(d))}", {"op": "div", "a": str(da), "b": str(db), "nit": nit.__name__}, ("div", nit.__name__, str(da), str(db)))
            ck.count("binary")
            rp = {"a": {k: str(v) for k, v in da.items()}, "b": {k: str(v) for k, v in db.items()}, "non_int_type": nit.__name__}
            m2 = b * a
            oracle(m == m2 and hash(m) == hash(m2), "comm", "a*b != b*a (or hashes differ)", rp)
            oracle(all(v != 0 for v in m._d.values()) and all(v != 0 for v in d._d.values()), "zero-entry", "zero exponent survives * or /", rp)
            oracle(len((a / a)._d) == 0 and (a / a) == im.mk({}), "div-self", "a/a is not dimensionless", rp)
            oracle(snapshot(a) == sa and snapshot(b)[0] == sb[0], "mutation", "operand mutated by * or /", rp)
            oracle((a == b) == (fd(a) == fd(b)), "eq", "== disagrees with exponent-wise equality", rp)
            oracle(d == a * b ** -1, "div-inv", "a/b != a*b**-1", rp)
            if a == b:
                oracle(hash(a) == hash(b), "hash", "equal containers with different hashes", rp)
        # powers
        for da in small:
            for e in pows:
                if nit is float and e.denominator not in (1, 2):
                    continue
                a = im.mk(da)
                sa = snapshot(a)
                r = a ** im.num(e)
                add_case(f"KPow {coq_uc(da)} {coq_q(e)} {coq_uc(fd(r))}", {"op": "pow", "a": str(da), "e": str(e), "nit": nit.__name__}, ("pow", nit.__name__, str(da), str(e)))
                ck.count("pow")
                rp = {"a": {k: str(v) for k, v in da.items()}, "e": str(e), "non_int_type": nit.__name__}
                oracle(all(v != 0 for v in r._d.values()), "zero-entry", "zero exponent survives **", rp)
                oracle(snapshot(a) == sa, "mutation", "operand mutated by **", rp)
                if e == 0:
                    oracle(r == im.mk({}) and hash(r) == hash(im.mk({})), "pow-zero", "u**0 is not dimensionless", rp)
                for e2 in (F(2), F(-1), F(1, 2), F(0)):
                    oracle((a ** im.num(e)) ** im.num(e2) == a ** im.num(e * e2), "pow-pow", "(u**a)**b != u**(a*b)", dict(rp, e2=str(e2)))
        # triples: associativity (oracle on implementation; the model's law is a theorem)
        trip = [(rng.choice(small), rng.choice(small), rng.choice(small)) for _ in range(20000 if thorough else 3000)]
        for da, db, dc in trip:
            a, b, c = im.mk(da), im.mk(db), im.mk(dc)
            oracle((a * b) * c == a * (b * c), "assoc", "(a*b)*c != a*(b*c)", {"a": str(da), "b": str(db), "c": str(dc)})
            oracle((a * b) ** 2 == a ** 2 * b ** 2, "pow-distr", "(a*b)**2 != a**2*b**2", {"a": str(da), "b": str(db)})
            ck.case(key=("assoc", nit.__name__, str(da), str(db), str(dc)))
        ck.count("triples", len(trip))

        # add / remove / rename / eq
        for _ in range(1500 if thorough else 400):
            da = rng.choice(small)
            a = im.mk(da)
            k = rng.choice(names + ["z"])
            v = F(rng.choice([-2, -1, 0, 1, 2, -da.get(k, 0)]))
            r = a.add(k, im.num(v))
            add_case(f"KAdd {coq_uc(da)} {coq_str(k)} {coq_q(v)} {coq_uc(fd(r))}", {"op": "add", "a": str(da), "k": k, "v": str(v)}, ("add", str(da), k, str(v)))
            oracle(all(x != 0 for x in r._d.values()), "zero-entry", "zero exponent survives add", {"a": str(da), "k": k, "v": str(v)})
            ks = rng.sample(names + ["z"], rng.randint(0, 2))
            try:
                r = fd(a.remove(ks))
            except KeyError:
                r = None
            add_case(f"KRemove {coq_uc(da)} {coq_list([coq_str(x) for x in ks])} {coq_opt(coq_uc(r) if r is not None else None)}", {"op": "remove", "a": str(da), "ks": ks}, ("remove", str(da), tuple(ks)))
            o, n = rng.choice(names), rng.choice(names + ["z"])
            try:
                r = fd(a.rename(o, n))
            except KeyError:
                r = None
            add_case(f"KRename {coq_uc(da)} {coq_str(o)} {coq_str(n)} {coq_opt(coq_uc(r) if r is not None else None)}", {"op": "rename", "a": str(da), "o": o, "n": n}, ("rename", str(da), o, n))
            db = rng.choice(small + [da])
            add_case(f"KEq {coq_uc(da)} {coq_uc(db)} {coq_bool(a == im.mk(db))}", {"op": "eq", "a": str(da), "b": str(db)}, ("eq", str(da), str(db)))
            ck.count("add/remove/rename/eq")

    # ---------------------------------------------------------------- ParserHelper (exact scales)
    im = Impl(F)
    scales = [F(1), F(2), F(-3, 2), F(0), F(5, 7)]
    for _ in range(4000 if thorough else 1200):
        da, db = rng.choice(small), rng.choice(small)
        s1, s2 = rng.choice(scales), rng.choice(scales)
        a, b = im.mkph(s1, da), im.mkph(s2, db)

        def unchanged(after):
            # none of these operations mutates its operands (scale included); asked right after each operation
            oracle((F(a.scale), fd(a)) == (s1, {k: v for k, v in da.items() if v != 0}) and (F(b.scale), fd(b)) == (s2, {k: v for k, v in db.items() if v != 0}),
                   "mutation-parserhelper", f"ParserHelper operand changed by {after}: a is now ({a.scale}, {fd(a)}), b is now ({b.scale}, {fd(b)})",
                   {"a": [str(s1), str(da)], "b": [str(s2), str(db)], "after": after})
        m = a * b
        unchanged("a * b")
        add_case(f"KPhMul {coq_ph(s1, da)} {coq_ph(s2, db)} {coq_ph(F(m.scale), fd(m))}", {"op": "phmul", "a": [str(s1), str(da)], "b": [str(s2), str(db)]}, ("phmul", str(s1), str(da), str(s2), str(db)))
        try:
            d = a / b
            dd = coq_ph(F(d.scale), fd(d))
        except ZeroDivisionError:
            dd = None
        unchanged("a / b")
        add_case(f"KPhDiv {coq_ph(s1, da)} {coq_ph(s2, db)} {coq_opt(dd)}", {"op": "phdiv", "a": [str(s1), str(da)], "b": [str(s2), str(db)]}, ("phdiv", str(s1), str(da), str(s2), str(db)))
        oracle(all(x != 0 for x in m._d.values()), "zero-entry", "zero exponent survives ParserHelper *", {"a": str(da), "b": str(db)})
        p0 = a ** 0
        oracle(len(p0._d) == 0, "pow-zero", "ParserHelper ** 0 keeps entries", {"a": str(da)})
        ck.count("parserhelper")

    # ---------------------------------------------------------------- Unit / Quantity layers on a real registry
    import pint
    for nit in (float, F):
        ureg = pint.UnitRegistry(non_int_type=nit, cache_folder=None)
        im = Impl(nit)
        base = ["meter", "second", "gram", "kelvin", "radian", "inch", "hertz", "newton"]
        def rnd():
            return {n: F(rng.choice([-3, -2, -1, 1, 2, 3, F(1, 2), F(-3, 2)])) for n in rng.sample(base, rng.randint(0, 4))}
        for _ in range(3000 if thorough else 800):
            da, db = rnd(), rnd()
            ua, ub = ureg.Unit(im.mk(da)), ureg.Unit(im.mk(db))
            sa, sb = snapshot(ua._units), snapshot(ub._units)
            m, d = ua * ub, ua / ub
            e = rng.choice(pows)
            p = ua ** im.num(e)
            add_case(f"KMul {coq_uc(da)} {coq_uc(db)} {coq_uc(fd(m._units))}", {"op": "Unit.mul", "a": str(da), "b": str(db)}, ("umul", nit.__name__, str(da), str(db)))
            add_case(f"KDiv {coq_uc(da)} {coq_uc(db)} {coq_uc(fd(d._units))}", {"op": "Unit.div", "a": str(da), "b": str(db)}, ("udiv", nit.__name__, str(da), str(db)))
            add_case(f"KPow {coq_uc(da)} {coq_q(e)} {coq_uc(fd(p._units))}", {"op": "Unit.pow", "a": str(da), "e": str(e)}, ("upow", nit.__name__, str(da), str(e)))
            qa, qb = ureg.Quantity(2, ua), ureg.Quantity(3, ub)
            qm, qd = qa * qb, qa / qb
            add_case(f"KMul {coq_uc(da)} {coq_uc(db)} {coq_uc(fd(qm._units))}", {"op": "Quantity.mul", "a": str(da), "b": str(db)}, ("qmul", nit.__name__, str(da), str(db)))
            add_case(f"KDiv {coq_uc(da)} {coq_uc(db)} {coq_uc(fd(qd._units))}", {"op": "Quantity.div", "a": str(da), "b": str(db)}, ("qdiv", nit.__name__, str(da), str(db)))
            if e.denominator == 1:
                qp = qa ** int(e)
                add_case(f"KPow {coq_uc(da)} {coq_q(e)} {coq_uc(fd(qp._units))}", {"op": "Quantity.pow", "a": str(da), "e": str(e)}, ("qpow", nit.__name__, str(da), str(e)))
            rp = {"a": {k: str(v) for k, v in da.items()}, "b": {k: str(v) for k, v in db.items()}, "layer": "Unit", "non_int_type": nit.__name__}
            oracle(ua * ub == ub * ua and hash(ua * ub) == hash(ub * ua), "comm", "Unit a*b != b*a", rp)
            oracle((ua / ua) == ureg.Unit("") and (ua ** 0) == ureg.Unit(""), "div-self", "Unit u/u or u**0 not dimensionless", rp)
            oracle(hash(ua ** 0) == hash(ureg.Unit("")), "pow-zero", "hash(u**0) != hash(dimensionless)", rp)
            oracle(snapshot(ua._units) == sa and snapshot(ub._units)[0] == sb[0], "mutation", "Unit operand mutated", rp)
            # rational exponents that are NOT dyadic can only be produced by ** : the laws must hold for them too,
            # whatever the numeric type of the container (exponents add exactly; both operand orders agree)
            ea, eb = rng.choice(NONDYADIC), rng.choice(NONDYADIC)
            for layer, xa, xb in (("Unit", ua ** ea, ub ** eb), ("UnitsContainer", ua._units ** ea, ub._units ** eb),
                                  ("Quantity", ureg.Quantity(2, ua) ** ea, ureg.Quantity(3, ub) ** eb) if all(v > 0 for v in [2, 3]) else ("Unit", ua ** ea, ub ** eb)):
                rq = dict(rp, layer=layer, ea=str(ea), eb=str(eb))
                ab, ba = xa * xb, xb * xa
                ca = ab._units if hasattr(ab, "_units") else ab
                cb = ba._units if hasattr(ba, "_units") else ba
                oracle(ca == cb and hash(ca) == hash(cb) and dict(ca.items()) == dict(cb.items()), "comm-rational",
                       f"{layer}: a**{ea} * b**{eb} differs from b**{eb} * a**{ea}: {dict(ca.items())} vs {dict(cb.items())}", rq)
                exact = all(isinstance(v, (int, F)) for v in list(da.values()) + list(db.values())) and nit is F or \
                    all(F(v).denominator == 1 for v in list(da.values()) + list(db.values()))
                if exact:
                    want = {}
                    for k, v in da.items():
                        want[k] = want.get(k, 0) + F(v) * ea
                    for k, v in db.items():
                        want[k] = want.get(k, 0) + F(v) * eb
                    want = {k: v for k, v in want.items() if v != 0}
                    got = {k: v for k, v in ca.items()}
                    oracle(set(got) == set(want) and all(not isinstance(got[k], float) and F(got[k]) == want[k] for k in want), "exponents-add-rational",
                           f"{layer}: exponents of a**{ea} * b**{eb} are {got}, the exact sums are {want}", rq)
            # dimensionality homomorphism on the real registry
            if all(x.denominator == 1 for x in list(da.values()) + list(db.values())):
                oracle((ua * ub).dimensionality == ua.dimensionality * ub.dimensionality, "dim-hom", "dim(a*b) != dim(a)*dim(b)", rp)
                oracle((ua / ub).dimensionality == ua.dimensionality / ub.dimensionality, "dim-hom", "dim(a/b) != dim(a)/dim(b)", rp)
                oracle((ua ** 2).dimensionality == ua.dimensionality ** 2, "dim-hom", "dim(a**2) != dim(a)**2", rp)
            ck.count("unit/quantity layer")

    # ---------------------------------------------------------------- in-place forms on array quantities whose dimensionality was already read
    # (the dimensionality of a product / quotient / power is the product / quotient / power of the dimensionalities —
    # also when the operation rewrites the object in place and a per-object memo is warm)
    import numpy as np
    for nit in (float, F):
        ureg = pint.UnitRegistry(non_int_type=nit, cache_folder=None)
        names = ["meter", "second", "gram", "kelvin", "inch", "hertz", "newton"]
        for _ in range(500 if thorough else 150):
            da = {n: rng.choice([-2, -1, 1, 2]) for n in rng.sample(names, rng.randint(1, 3))}
            db = {n: rng.choice([-2, -1, 1, 2]) for n in rng.sample(names, rng.randint(0, 2))}
            q = ureg.Quantity(np.array([1.5, 2.0, 4.0]), ureg.UnitsContainer(da))
            o = ureg.Quantity(2.0, ureg.UnitsContainer(db))
            warm = rng.random() < 0.7
            if warm:
                q.dimensionality, q.check("[length]"), q.is_compatible_with("meter")
            op = rng.choice(["**=0", "**=2", "**=-1", "**=0.0", "*=", "/=", "**=Q0"])
            try:
                if op == "*=":
                    q *= o
                elif op == "/=":
                    q /= o
                elif op == "**=Q0":
                    q **= ureg.Quantity(0, "")
                else:
                    q **= (0.0 if op == "**=0.0" else int(op[3:]))
            except Exception as e:
                oracle(False, "inplace-dim-raises", f"array quantity {op} raised {type(e).__name__}", {"a": str(da), "b": str(db), "op": op})
                continue
            want = ureg.get_dimensionality(q._units)
            rq = {"a": {k: str(v) for k, v in da.items()}, "b": {k: str(v) for k, v in db.items()}, "op": op, "dimensionality_read_before": warm, "non_int_type": nit.__name__}
            oracle(q.dimensionality == want, "inplace-dim", f"after {op} on an array quantity of {da}: units are {dict(q._units)} but .dimensionality reports {dict(q.dimensionality)}", rq)
            oracle(q.dimensionless == (len(want) == 0) and q.check(want), "inplace-dim-pred", f"after {op} on an array quantity of {da}: dimensionless/check disagree with the units {dict(q._units)}", rq)
            ck.case(key=("inplace-dim", nit.__name__, str(sorted(da.items())), op, warm))
        ck.count("in-place dimensionality")

    # ---------------------------------------------------------------- equality at the Unit layer = equality of exponents
    # (different expressions of the SAME physical unit — hertz and 1/second, newton and kg·m/s², radian and nothing —
    # are different unit expressions: they must not compare equal, and equal units must hash alike)
    directed = [({"hertz": 1}, {"second": -1}), ({"newton": 1}, {"kilogram": 1, "meter": 1, "second": -2}), ({"radian": 1}, {}),
                ({"becquerel": 1}, {"hertz": 1}), ({"joule": 1}, {"newton": 1, "meter": 1}), ({"watt": 1}, {"joule": 1, "second": -1}),
                ({"meter": 1, "radian": 1}, {"meter": 1}), ({"pascal": 1, "meter": 2}, {"newton": 1}), ({"liter": 1}, {"decimeter": 3}),
                ({"count": 1}, {}), ({"meter": 1}, {"meter": 1}), ({"meter": 1, "second": -1}, {"second": -1, "meter": 1}),
                ({"steradian": 1}, {"radian": 2}), ({"gray": 1}, {"sievert": 1}), ({"meter": 1}, {"kilometer": 1})]
    for nit in (float, F):
        ureg = pint.UnitRegistry(non_int_type=nit, cache_folder=None)
        im = Impl(nit)
        rnd_pairs = []
        for _ in range(400 if thorough else 120):
            da = {n: F(rng.choice([-2, -1, 1, 2, 3])) for n in rng.sample(["meter", "second", "gram", "kelvin", "radian", "inch", "hertz", "newton"], rng.randint(0, 3))}
            db = dict(da) if rng.random() < 0.3 else {n: F(rng.choice([-2, -1, 1, 2, 3])) for n in rng.sample(["meter", "second", "gram", "kelvin", "radian", "inch", "hertz", "newton"], rng.randint(0, 3))}
            rnd_pairs.append((da, db))
        for dx, dy in [(a, b) for a, b in directed] + [(b, a) for a, b in directed] + rnd_pairs:
            ux, uy = ureg.Unit(im.mk({k: F(v) for k, v in dx.items()})), ureg.Unit(im.mk({k: F(v) for k, v in dy.items()}))
            if rng.random() < 0.5:
                hash(ux), hash(uy), ux.dimensionality
            same = fd(ux._units) == fd(uy._units)
            rq = {"a": {k: str(v) for k, v in dx.items()}, "b": {k: str(v) for k, v in dy.items()}, "layer": "Unit", "non_int_type": nit.__name__}
            oracle((ux == uy) == same and (ux != uy) == (not same), "unit-eq", f"Unit {dict(dx)} == Unit {dict(dy)} is {ux == uy}; same exponents: {same}", rq)
            oracle((not (ux == uy)) or hash(ux) == hash(uy), "unit-eq-hash", f"Unit {dict(dx)} == Unit {dict(dy)} but their hashes differ", rq)
            oracle(len({ux, uy}) == (1 if same else 2), "unit-set", f"a set of Unit {dict(dx)} and Unit {dict(dy)} has {len({ux, uy})} members; same exponents: {same}", rq)
            ck.case(key=("unit-eq", nit.__name__, str(sorted(dx.items())), str(sorted(dy.items()))))
        ck.count("unit equality")

    # ---------------------------------------------------------------- op sequences with cached hashes
    im = Impl(F)
    for _ in range(1500 if thorough else 300):
        init = [rng.choice(small) for _ in range(3)]
        objs = [im.mk(d) for d in init]
        ops = []
        for _ in range(rng.randint(4, 14)):
            n = len(objs)
            kind = rng.choice(["hash", "hash", "eq", "eq", "mul", "div", "pow", "copy", "add"])
            i, j = rng.randrange(n), rng.randrange(n)
            if kind == "hash":
                hash(objs[i]); ops.append(f"SHash {i}")
            elif kind == "eq":
                if rng.random() < 0.3:   # make an equal pair likely
                    j = rng.choice([x for x in range(n) if fd(objs[x]) == fd(objs[i])])
                r = objs[i] == objs[j]
                ops.append(f"SEq {i} {j} {coq_bool(r)}")
                oracle(r == (fd(objs[i]) == fd(objs[j])), "eq", "== wrong after a history of operations", {"init": str(init), "ops": list(ops)})
            elif kind == "mul":
                objs.append(objs[i] * objs[j]); ops.append(f"SMul {i} {j}")
            elif kind == "div":
                objs.append(objs[i] / objs[j]); ops.append(f"SDiv {i} {j}")
            elif kind == "pow":
                e = rng.choice(pows)
                objs.append(objs[i] ** e); ops.append(f"SPow {i} {coq_q(e)}")
            elif kind == "copy":
                objs.append(copy.copy(objs[i]) if rng.random() < 0.5 else objs[i].copy()); ops.append(f"SCopy {i}")
            else:
                k, v = rng.choice(names), F(rng.choice([-1, 1, 2]))
                objs.append(objs[i].add(k, v)); ops.append(f"SAdd {i} {coq_str(k)} {coq_q(v)}")
        obs = [f"({coq_uc(fd(o))}, {coq_bool(o._hash is not None)})" for o in objs]
        for o in objs:
            oracle(o._hash is None or o._hash == hash(frozenset(o._d.items())), "stale-hash", "cached hash does not match contents", {"init": str(init), "ops": ops})
        add_case(f"KSeq {coq_list([coq_uc(d) for d in init])} {coq_list(['(' + o + ')' for o in ops])} {coq_list(obs)}",
                 {"op": "seq", "init": [str(d) for d in init], "ops": ops}, ("seq", str(init), tuple(ops)))
        ck.count("sequences")

    # ---------------------------------------------------------------- Buckingham pi
    pi_cases = pi_stream(ck, rng, thorough, oracle)

    # ---------------------------------------------------------------- differ inside Coq
    badpi = ck.coq_mismatches("c04pi", PI_HEADER, [c for c, _ in pi_cases], "pi_ok")
    if badpi:
        ck.broken.append(f"correspondence Model.PiRun.pi_ok: {len(badpi)} disagreements, first: {json.dumps(pi_cases[badpi[0]][1])}")
        if not oracle_fail:
            ck.violation("correspondence-pi", "model and implementation of column_echelon_form/pi_theorem disagree; no oracle failed",
                         {"first_disagreement": pi_cases[badpi[0]][1], "n": len(badpi)}, no_input=True)
    ck.extra["pi_cases"] = len(pi_cases)
    bad = ck.coq_mismatches("c04", HEADER, [c for c, _ in cases], "c04_ok")
    ck.extra["model_vs_impl_cases"] = len(cases)
    ck.extra["model_vs_impl_disagreements"] = None if bad is None else len(bad)
    seen = set()
    for key, desc, rp in oracle_fail:
        if key in seen:
            continue
        seen.add(key)
        ck.violation(key, desc, rp)
    if bad:
        first = cases[bad[0]]
        shown = ck.coq_show(HEADER, f"c04_ok ({first[0]})")
        if not oracle_fail:
            ck.violation("correspondence", "model and implementation disagree; no property oracle failed",
                         {"first_disagreement": first[1], "coq_case": first[0], "n_disagreements": len(bad), "coq": shown},
                         no_input=True)
        ck.broken.append(f"correspondence Model.UCRun.c04_ok: {len(bad)} disagreements, first: {json.dumps(first[1])}")


PI_HEADER = "From PintV Require Import Model.UC Model.Pi Model.PiRun.\n"


def coq_vec(v):
    return coq_list([coq_q(x) for x in v])


def rank(rows):
    """independent rank computation over Fractions"""
    m = [list(map(F, r)) for r in rows]
    rk, col = 0, 0
    ncols = len(m[0]) if m else 0
    while rk < len(m) and col < ncols:
        piv = next((i for i in range(rk, len(m)) if m[i][col] != 0), None)
        if piv is None:
            col += 1
            continue
        m[rk], m[piv] = m[piv], m[rk]
        for i in range(len(m)):
            if i != rk and m[i][col] != 0:
                f = m[i][col] / m[rk][col]
                m[i] = [a - f * b for a, b in zip(m[i], m[rk])]
        rk += 1
        col += 1
    return rk


def pi_stream(ck, rng, thorough, oracle):
    """column_echelon_form (exact K) and pi_theorem (K + basis oracles) on random dimension matrices"""
    from pint.util import UnitsContainer, column_echelon_form, pi_theorem
    out = []
    dims_all = ["[length]", "[time]", "[mass]", "[current]", "[temperature]"]
    for it in range(1500 if thorough else 300):
        n, d = rng.randint(1, 6), rng.randint(1, 5)
        A = [[rng.choice([-2, -1, 0, 0, 0, 1, 1, 2, 3]) for _ in range(d)] for _ in range(n)]   # n quantities x d dimensions
        if rng.random() < 0.2 and n > 1:      # force dependencies
            A[-1] = [a + 2 * b for a, b in zip(A[0], A[1 % n])]
        matrix = [[A[q][k] for q in range(n)] for k in range(d)]    # what pint builds: d rows x n cols
        ech, ident, _ = column_echelon_form(matrix, transpose_result=False)
        out.append((f"KEchelon {coq_list([coq_vec(r) for r in A])} {d} {coq_list([coq_vec(r) for r in ech])} {coq_list([coq_vec(r) for r in ident])}",
                    {"op": "column_echelon_form", "A": A}))
        ck.case(key=("echelon", str(A)), sample={"op": "column_echelon_form", "quantity_dims": A} if it < 2 else None)
        # invariants of the echelon step on the implementation itself
        for e, t in zip(ech, ident):
            comb = [sum(F(t[q]) * A[q][k] for q in range(n)) for k in range(d)]
            oracle(comb == [F(x) for x in e], "pi-echelon-invariant", "echelon row is not the recorded combination of input rows", {"A": A})
        # pi_theorem through the public API; dimension columns in the order pint will use
        quantities = {}
        for q in range(n):
            quantities[f"q{q}"] = UnitsContainer({dims_all[k]: A[q][k] for k in range(d) if A[q][k] != 0})
        dimset = set()
        for v in quantities.values():
            dimset = dimset.union(v.keys())
        order = list(dimset)
        if not order:
            # every input is dimensionless: the basis is the inputs themselves
            try:
                r0 = pi_theorem(quantities)
                v0 = [[F(r.get(f"q{q}", 0)).limit_denominator(10000) for q in range(n)] for r in r0]
                oracle(len(r0) == n and rank(v0) == n, "pi-no-dimensions", "pi_theorem on all-dimensionless inputs does not return a basis (one independent group per input)", {"quantities": {k: dict(v) for k, v in quantities.items()}})
            except IndexError:
                oracle(False, "pi-no-dimensions", "pi_theorem raises IndexError when every input is dimensionless", {"quantities": {k: dict(v) for k, v in quantities.items()}})
            continue
        res = pi_theorem(quantities)
        Aord = [[quantities[f"q{q}"][dname] for dname in order] for q in range(n)]
        vecs = [[F(r.get(f"q{q}", 0)).limit_denominator(10000) for q in range(n)] for r in res]
        out.append((f"KPi {coq_list([coq_vec(r) for r in Aord])} {len(order)} {coq_list([coq_vec(v) for v in vecs])}",
                    {"op": "pi_theorem", "quantities": {k: dict(v) for k, v in quantities.items()}}))
        rp = {"quantities": {k: dict(v) for k, v in quantities.items()}}
        for v in vecs:
            tot = [sum(v[q] * Aord[q][k] for q in range(n)) for k in range(len(order))]
            oracle(all(x == 0 for x in tot), "pi-dimensionless", "pi_theorem returned a monomial that is not dimensionless", rp)
        oracle(len(vecs) == n - rank(Aord), "pi-count", f"pi_theorem returned {len(vecs)} groups, nullity is {n - rank(Aord)}", rp)
        oracle(not vecs or rank(vecs) == len(vecs), "pi-independent", "pi_theorem groups are linearly dependent", rp)
        ck.case(key=("pi", str(Aord)))
        ck.count("pi_theorem")
    return out


def replay(ck, path):
    print(open(path).read())
    return 0
