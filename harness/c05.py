"""C05 — equality, ordering and hashing agree with physical value.

Theorems: coq/Properties/C05.v over Model/QCompare.v (branch-for-branch model of
PlainQuantity.__eq__/compare/__hash__/__bool__ and of the conversion path through
NonMultiplicativeRegistry._convert) on the registry regenerated from /repo (T1).
Correspondence (Fraction registry, exact): model vs pint on every observable of ==, !=, <, <=, >,
>=, hash(), bool(), to_root_units for unit pairs x magnitudes.  Oracles on pint alone:
reflexivity, symmetry, transitivity, a == b => hash(a) == hash(b), a == b <=> same
dimensionality and equal physical value (computed here from the definitions with Fractions,
without pint's conversion code), trichotomy, DimensionalityError on cross-dimension ordering
while == is False, the bare-number rule; float registry: order away from ties.

Violation keys:  <law>:<region>:<units of a>,<units of b>
  law    in eq-spec | eq-raises | symmetry | reflexivity | ne | transitivity | hash | trichotomy | order | cross-dim
            | number-rule | unit-eq | unit-order | float-order | bool
  a law suffixed @<config> was observed in a non-default registry configuration (autoconvert, autoconvert-live)
  region in both-zero-offset   (both magnitudes zero and an offset unit involved: F1)
            delta-vs-offset    (an offset unit against a delta_ unit: F85)
            stale-state         (history only: an object changed in place compares / hashes unlike a fresh quantity with its magnitude, units)
            zero-type           (number-rule only: the verdict against a bare zero depends on the Python type spelling the zero)
            system-<name>       (hash only: under default system <name>, or 'switch:<name>' for a live default_system switch)
            context-<name>      (cross-dim only: ordering across dimensions while context <name> is active)
            dimensionless-base-units (hash only: equal quantities whose root-unit containers differ
                                only in dimensionless base units: F2)
            other
"""
import json
import math
import random
from fractions import Fraction as F

from . import regk
from .common import coq_bool, coq_list, coq_opt, coq_q, coq_str

HEADER = ("From PintV Require Import Model.UC Model.Eval Model.Registry Model.QCompare Model.QCompareRun "
          "Gen.DefaultDefs Gen.DefaultReg.\nOpen Scope string_scope.\n")

NAN = float("nan")
OFFSET_FAMILY = ["degree_Celsius", "degree_Fahrenheit", "degree_Reaumur", "kelvin", "degree_Rankine",
                 "delta_degree_Celsius", "delta_degree_Fahrenheit", "delta_degree_Reaumur"]


# ------------------------------------------------------------------ small helpers
def isnan(m):
    return isinstance(m, float) and math.isnan(m)


def mstr(m):
    return "nan" if isnan(m) else str(F(m))


def mparse(s):
    return NAN if s == "nan" else F(s)


def ustr(d):
    if not d:
        return "dimensionless"
    return "*".join(k if v == 1 else f"{k}^{v}" for k, v in sorted(d.items()))


def coq_mag(m):
    return "NaN" if isnan(m) else f"(Fin {coq_q(F(m))})"


def coq_units(d):
    return "(mkuc [" + "; ".join(f"({coq_str(k)}, {coq_q(v)})" for k, v in sorted(d.items())) + "])"


def coq_qty(m, d):
    return f"(Qty {coq_mag(m)} {coq_units(d)})"


def xerr(e):
    import pint
    if isinstance(e, pint.errors.DimensionalityError):
        return "XDim"
    if isinstance(e, pint.errors.OffsetUnitCalculusError):
        return "XOffset"
    if isinstance(e, ZeroDivisionError):
        return "XZeroDiv"
    if isinstance(e, ValueError):
        return "XValue"
    if isinstance(e, TypeError):
        return "XType"
    return "XOther"


class Obs:
    """outcome of one operation on the implementation: a value or an error class"""
    __slots__ = ("val", "err")

    def __init__(self, fn):
        self.val, self.err = None, None
        try:
            self.val = fn()
        except Exception as e:       # noqa: BLE001 — the class is the observation
            self.err = xerr(e)

    def coq(self, show):
        return f"(Raised {self.err})" if self.err else f"(Got {show(self.val)})"

    def js(self):
        return self.err if self.err else self.val


def cmp4(a, b):
    return (bool(a < b), bool(a <= b), bool(a > b), bool(a >= b))


def coq_cmp4(t):
    return "(" + ", ".join(coq_bool(x) for x in t) + ")"


def plain_bool(x):
    if x is True or x is False:
        return x
    raise TypeError(f"comparison returned {type(x).__name__}, not bool")


# ------------------------------------------------------------------ independent physical value
class Inexact(Exception):
    pass


class Phys:
    """Physical value of a quantity computed from the registry's *definitions* (scale, offset,
    reference of each unit) with Fractions — none of pint's conversion code is used."""

    def __init__(self, ureg):
        self.u = ureg
        self._root = {}

    def defn(self, name):
        """definition of a unit name as it appears in a container (canonical, alias or prefixed): name resolution
        only (C08), which also registers a prefixed name on first use — no conversion code"""
        return self.u._units[self.u.get_name(name)]

    def root(self, units):
        key = tuple(sorted(units.items()))
        if key in self._root:
            return self._root[key]
        fac = [F(1)]
        root = {}

        def rec(name, e, depth=0):
            if depth > 60:
                raise Inexact(name)
            d = self.defn(name)
            if d.is_base:
                root[d.name] = root.get(d.name, 0) + e
                return
            s = d.converter.scale
            if isinstance(s, bool) or not isinstance(s, (int, F)):
                raise Inexact(name)
            if F(e).denominator != 1:
                if F(s) != 1:
                    raise Inexact(name)
            else:
                if s == 0:
                    raise Inexact(name)
                fac[0] *= F(s) ** int(e)
            for k, v in d.reference.items():
                rec(k, e * F(v), depth + 1)

        try:
            for k, v in units.items():
                rec(k, F(v))
            out = (fac[0], {k: v for k, v in root.items() if v != 0})
        except Inexact:
            out = None
        self._root[key] = out
        return out

    def dim(self, units):
        r = self.root(units)
        if r is None:
            return None
        out = {}
        for b, e in r[1].items():
            for dname, dv in self.defn(b).reference.items():
                if dname != "[]":
                    out[dname] = out.get(dname, 0) + e * F(dv)
        return frozenset((k, v) for k, v in out.items() if v != 0)

    def nonmult(self, units):
        return [k for k in units if not self.defn(k).is_multiplicative]

    def value(self, m, units):
        """(dimension, magnitude in root units) — absolute for a single offset unit; None outside
        the domain (NaN, inexact units, offset units in compound position, logarithmic units)"""
        if isnan(m):
            return None
        nm = self.nonmult(units)
        if not nm:
            r = self.root(units)
            if r is None:
                return None
            return (self.dim(units), F(m) * r[0])
        if len(units) == 1 and units[nm[0]] == 1:
            d = self.defn(nm[0])
            cv = d.converter
            if type(cv).__name__ != "OffsetConverter":
                return None
            ref = {k: F(v) for k, v in d.reference.items()}
            r = self.root(ref)
            if r is None or not isinstance(cv.scale, (int, F)) or not isinstance(cv.offset, (int, F)):
                return None
            return (self.dim(units), (F(m) * F(cv.scale) + F(cv.offset)) * r[0])
        return None

    def positive(self, units):
        """positively scaled: the value in root units grows with the magnitude"""
        p1, p0 = self.value(1, units), self.value(0, units)
        return p1 is not None and p0 is not None and p1[1] > p0[1]

    def equalise(self, x, ua, ub):
        """the magnitude y with  y [ub]  physically equal to  x [ua]  (None if impossible)"""
        pa = self.value(x, ua)
        p1, p0 = self.value(1, ub), self.value(0, ub)
        if pa is None or p1 is None or p0 is None or pa[0] != p1[0] or p1[1] == p0[1]:
            return None
        return (pa[1] - p0[1]) / (p1[1] - p0[1])

    def root_units_differ_only_dimensionless(self, ua, ub):
        ra, rb = self.root(ua), self.root(ub)
        if ra is None or rb is None:
            return False

        def strip(r):
            return {k: v for k, v in r.items() if set(self.defn(k).reference) != {"[]"}}
        return ra[1] != rb[1] and strip(ra[1]) == strip(rb[1])


def has_delta(units):
    return any(k.startswith("delta_") for k in units)


def region(ph, a, b):
    (x, ua), (y, ub) = a, b
    offa, offb = bool(ph.nonmult(ua)), bool(ph.nonmult(ub))
    if (not isnan(x) and x == 0) and (not isnan(y) and y == 0) and (offa or offb):
        return "both-zero-offset"
    if (offa and has_delta(ub)) or (offb and has_delta(ua)):
        return "delta-vs-offset"
    return "other"


# ------------------------------------------------------------------ the world: registry + laws
CONFIGS = {                       # registry configurations besides the default one
    "autoconvert": dict(kw={"autoconvert_offset_to_baseunit": True}, live={}),
    "autoconvert-live": dict(kw={}, live={"autoconvert_offset_to_baseunit": True}),   # switched on a live registry
}


class World:
    def __init__(self, nit=F, config=None):
        self.config = config
        c = CONFIGS.get(config, dict(kw={}, live={}))
        self.ureg = regk.registry(nit, **c["kw"])
        for k, v in c["live"].items():
            setattr(self.ureg, k, v)
        self.ph = Phys(self.ureg)

    def q(self, m, units):
        return self.ureg.Quantity(m, regk.mkuc(self.ureg, units))

    def unit(self, units):
        return self.ureg.Unit(regk.mkuc(self.ureg, units))

    # -------- observations on one ordered pair
    def observe(self, a, b, want_hash=True):
        qa, qb = self.q(*a), self.q(*b)
        o = {
            "eq": Obs(lambda: plain_bool(qa == qb)),
            "eq_rev": Obs(lambda: plain_bool(qb == qa)),
            "ne": Obs(lambda: plain_bool(qa != qb)),
            "cmp": Obs(lambda: cmp4(qa, qb)),
            "hash_eq": None,
        }
        if want_hash and (o["eq"].val is True or o["eq_rev"].val is True) and not isnan(a[0]) and not isnan(b[0]):
            h = Obs(lambda: hash(qa) == hash(qb))
            o["hash_eq"] = h.val if h.err is None else None
            o["hash_err"] = h.err
        return o

    # -------- laws on one ordered pair, from the observations; returns [(key, desc)]
    def pair_laws(self, a, b, o):
        ph = self.ph
        (x, ua), (y, ub) = a, b
        reg = region(ph, a, b)
        tag = f"{ustr(ua)},{ustr(ub)}"
        what = f"a = {mstr(x)} [{ustr(ua)}], b = {mstr(y)} [{ustr(ub)}]"
        out = []

        def fail(law, desc, r=None):
            out.append((f"{law}:{r or reg}:{tag}", f"{desc}; {what}"))

        eq, eqr, ne, cmp_ = o["eq"], o["eq_rev"], o["ne"], o["cmp"]
        pa, pb = ph.value(x, ua), ph.value(y, ub)
        in_domain = (isnan(x) or pa is not None or ph.root(ua) is None) and True
        da, db = ph.dim(ua), ph.dim(ub)
        if eq.err or eqr.err:
            fail("eq-raises", f"== raised {eq.err or eqr.err} instead of returning a bool")
            return out
        if eq.val != eqr.val:
            fail("symmetry", f"a == b is {eq.val} but b == a is {eqr.val}")
        if ne.err or ne.val != (not eq.val):
            fail("ne", f"a != b is {ne.js()} while a == b is {eq.val}")
        nan = isnan(x) or isnan(y)
        known = da is not None and db is not None and (nan or (pa is not None and pb is not None))
        if known:
            spec = (not nan) and pa == pb            # same dimension and same value
            if eq.val != spec:
                fail("eq-spec", f"a == b is {eq.val} but physically {'equal' if spec else 'different'} "
                                f"(values in root units {pa and pa[1]} vs {pb and pb[1]})")
            if eq.val and o.get("hash_eq") is False:
                r = None
                if reg == "other" and spec and ph.root_units_differ_only_dimensionless(ua, ub):
                    r = "dimensionless-base-units"
                fail("hash", "a == b but hash(a) != hash(b)", r)
            if eq.val and o.get("hash_err"):
                fail("hash", f"a == b but hash raised {o['hash_err']}")
            if da != db:
                if cmp_.err != "XDim":
                    fail("cross-dim", f"ordering across dimensions gave {cmp_.js()} instead of DimensionalityError")
                if eq.val:
                    fail("cross-dim", "== across dimensions is True")
            elif cmp_.err:
                fail("trichotomy", f"ordering of same-dimension quantities raised {cmp_.err}")
            else:
                lt, le, gt, ge = cmp_.val
                if nan:
                    if lt or le or gt or ge or eq.val:
                        fail("order", f"comparison with NaN answered True: {cmp_.val}, == {eq.val}")
                else:
                    if [lt, eq.val, gt].count(True) != 1:
                        fail("trichotomy", f"not exactly one of <, ==, > holds: < {lt}, == {eq.val}, > {gt}")
                    if ph.positive(ua) and ph.positive(ub) and (lt != (pa[1] < pb[1]) or gt != (pa[1] > pb[1])):
                        fail("order", f"< is {lt}, > is {gt} but root-unit magnitudes are {pa[1]} and {pb[1]}")
                    if le != (lt or eq.val) or ge != (gt or eq.val):
                        fail("order", f"<= / >= inconsistent with <, ==, >: {cmp_.val}, == {eq.val}")
        return out

    def number_laws(self, a, n, oeq, one, ocmp):
        """comparison of a quantity with a bare number"""
        ph = self.ph
        x, ua = a
        tag = f"{ustr(ua)},number"
        what = f"a = {mstr(x)} [{ustr(ua)}], n = {mstr(n)}"
        out = []

        def fail(law, desc):
            out.append((f"{law}:other:{tag}", f"{desc}; {what}"))
        if ph.nonmult(ua):
            return out                      # offset units against bare numbers: ambiguous by design (C06)
        d = ph.dim(ua)
        if d is None:
            return out
        zn = isnan(n) or n == 0
        defined = (not d) or zn
        if defined and ocmp.err:
            fail("number-rule", f"ordering against the number raised {ocmp.err} though the quantity is dimensionless or n is zero/NaN")
        if not defined and ocmp.err != "XValue":
            fail("number-rule", f"ordering a dimensioned quantity against a non-zero number gave {ocmp.js()} instead of ValueError")
        if oeq.err:
            fail("number-rule", f"== with a number raised {oeq.err}")
            return out
        if one.err or one.val != (not oeq.val):
            fail("ne", f"a != n is {one.js()} while a == n is {oeq.val}")
        pa = ph.value(x, ua)
        if isnan(x) or isnan(n):
            exp = False
        elif not d:
            exp = pa is not None and pa[1] == F(n)
            if pa is None:
                return out
        elif n == 0:
            exp = F(x) == 0
        else:
            exp = False
        if oeq.val != exp:
            fail("number-rule", f"a == n is {oeq.val}, expected {exp}")
        if defined and not ocmp.err and not (isnan(x) or isnan(n)):
            v = pa[1] if not d else F(x)
            lt, le, gt, ge = ocmp.val
            if (lt, le, gt, ge) != (v < F(n), v <= F(n), v > F(n), v >= F(n)):
                fail("number-rule", f"ordering against the number is {ocmp.val} for value {v}")
        return out


def row_term(a, b, o):
    h = o.get("hash_eq")
    return (f"(Row {coq_mag(a[0])} {coq_mag(b[0])} {o['eq'].coq(coq_bool)} {o['eq_rev'].coq(coq_bool)} "
            f"{o['ne'].coq(coq_bool)} {o['cmp'].coq(coq_cmp4)} {coq_opt(None if h is None else coq_bool(h))})")


def operand_term(n):
    return "ONone" if n is None else f"(ONum {coq_mag(n)})"



# ------------------------------------------------------------------ default systems and contexts (pint alone)
SYSTEMS = [None, "mks", "cgs", "imperial", "US", "SI", "atomic", "Planck"]
LIVE_SWITCHES = ["atomic", "cgs", "Planck", "imperial"]


def system_registry(label, nit=F):
    """label: a system name / None (constructor argument) or 'switch:<name>' (default_system assigned on a live
    registry, before anything was hashed or converted — stale-cache effects of later switches are C13/C14's)"""
    import pint
    if isinstance(label, str) and label.startswith("switch:"):
        ureg = pint.UnitRegistry(non_int_type=nit, cache_folder=None)
        ureg.default_system = label.split(":", 1)[1]
        return ureg
    kw = {} if label is None else {"system": label}
    return pint.UnitRegistry(non_int_type=nit, cache_folder=None, **kw)


def hash_law_one(ureg, ph, a, b):
    """a, b = (magnitude, units dict).  None when the law says nothing (not equal, or the system's base units of an
    operand are not exact rationals); else (ok, description)"""
    qa = ureg.Quantity(a[0], regk.mkuc(ureg, a[1]))
    qb = ureg.Quantity(b[0], regk.mkuc(ureg, b[1]))
    for q in (qa, qb):
        base = Obs(lambda: regk.ucd(ureg._get_base_units(q._units)[1]))
        if base.err or ph.root(base.val) is None:
            return None                     # float factors (bohr, planck_*): outside the exact clause
    e1, e2 = Obs(lambda: plain_bool(qa == qb)), Obs(lambda: plain_bool(qb == qa))
    if e1.val is not True or e2.val is not True:
        return None
    h = Obs(lambda: (hash(qa) == hash(qb), qb in {qa}, {qa: "x"}.get(qb) == "x", qa in {qb}))
    ok = h.err is None and all(h.val)
    return ok, f"a == b but (hash equal, b in {{a}}, dict lookup, a in {{b}}) = {h.js()}"


def system_pairs(ph, temps_offset, temps_mult, rng, n_other):
    """equal pairs: offset vs multiplicative, offset vs offset, multiplicative vs multiplicative temperatures, and a
    few other dimensions whose system base unit differs from the root unit (mass: gram/kilogram/pound)"""
    out = []
    for o in temps_offset:
        for m in temps_mult + temps_offset:
            if m == o:
                continue
            for x in (0, 25, -40, F(3, 2)):
                y = ph.equalise(x, {o: F(1)}, {m: F(1)})
                if y is not None:
                    out.append(((x, {o: F(1)}), (y, {m: F(1)})))
    for m1 in temps_mult:
        for m2 in temps_mult:
            if m1 != m2:
                y = ph.equalise(F(5), {m1: F(1)}, {m2: F(1)})
                if y is not None:
                    out.append(((F(5), {m1: F(1)}), (y, {m2: F(1)})))
    other = [("inch", "centimeter"), ("gram", "kilogram"), ("pound", "gram"), ("newton", "dyne"), ("yard", "meter"),
             ("joule", "erg"), ("percent", "ppm"), ("hertz", "becquerel"), ("minute", "second"), ("watt", "milliwatt")]
    for a, b in other[:n_other]:
        y = ph.equalise(F(3, 2), {a: F(1)}, {b: F(1)})
        if y is not None:
            out.append(((F(3, 2), {a: F(1)}), (y, {b: F(1)})))
    return out


LOG_PAIRS = [((0, "decibelmilliwatt"), (1, "milliwatt")), ((0, "decibelmicrowatt"), (1, "microwatt")),
             ((0, "decibel"), (1, "")), ((0, "decibelwatt"), (1, "watt")), ((1, "octave"), (2, ""))]


def run_systems(ck, fails, thorough):
    """== => equal hash (and set / dict lookup) under every default system, incl. a live default_system switch"""
    rng = random.Random(ck.seed + 5)
    n = nskip = 0
    for label in SYSTEMS + ["switch:" + s for s in LIVE_SWITCHES]:
        ureg = system_registry(label)
        ph = Phys(ureg)
        name = label or "default"
        toff = [t for t in ("degree_Celsius", "degree_Fahrenheit", "degree_Reaumur") if t in ureg._units]
        tmul = [t for t in ("kelvin", "degree_Rankine", "millikelvin", "atomic_unit_of_temperature", "delta_degree_Celsius")
                if Obs(lambda: ureg.get_name(t)).err is None]
        for t in tmul:
            ureg.get_name(t)
        tmul = [t for t in tmul if ph.root({t: F(1)}) is not None]
        for a, b in system_pairs(ph, toff, tmul, rng, 10 if thorough else 6):
            if region(ph, a, b) != "other":
                continue                      # delta vs offset: F85's region
            r = hash_law_one(ureg, ph, a, b)
            if r is None:
                nskip += 1
                continue
            n += 1
            ck.case(key=("system-hash", name, ustr(a[1]), ustr(b[1]), mstr(a[0])))
            if not r[0]:
                fails.append((f"hash:system-{name}:{ustr(a[1])},{ustr(b[1])}",
                              f"default system {name}: {r[1]}; a = {mstr(a[0])} [{ustr(a[1])}], b = {mstr(b[0])} [{ustr(b[1])}]",
                              {"law": "system-hash", "system": label, "a": [mstr(a[0]), {k: str(v) for k, v in a[1].items()}],
                               "b": [mstr(b[0]), {k: str(v) for k, v in b[1].items()}]}))
    # logarithmic vs linear (float registry: the Fraction registry cannot evaluate log converters); values are exact
    # powers, and only pairs equal in both directions are judged
    for label in [None, "mks", "cgs", "imperial", "US", "SI"]:
        ureg = system_registry(label, float)
        name = label or "default"
        for (x, ua), (y, ub) in LOG_PAIRS:
            qa, qb = ureg.Quantity(x, ua), ureg.Quantity(y, ub)
            if Obs(lambda: plain_bool(qa == qb) and plain_bool(qb == qa)).val is not True:
                nskip += 1
                continue
            h = Obs(lambda: (hash(qa) == hash(qb), qb in {qa}, {qa: "x"}.get(qb) == "x"))
            n += 1
            ck.case(key=("system-hash-log", name, ua, ub))
            if h.err or not all(h.val):
                fails.append((f"hash:system-{name}:{ua},{ub or 'dimensionless'}",
                              f"default system {name} (float registry): {x} {ua} == {y} {ub or 'dimensionless'} but (hash equal, set lookup, dict lookup) = {h.js()}",
                              {"law": "system-hash-log", "system": label, "a": [x, ua], "b": [y, ub]}))
    ck.count("system-hash", n)
    ck.count("system-hash:skipped-inexact-or-unequal", nskip)


CONTEXT_PAIRS = [("spectroscopy", (F(1, 2), {"meter": F(1)}), (3, {"hertz": F(1)})),
                 ("spectroscopy", (1, {"electron_volt": F(1)}), (3, {"nanometer": F(1)})),
                 ("boltzmann", (1, {"kelvin": F(1)}), (1, {"joule": F(1)})),
                 ("energy", (1, {"joule": F(1)}), (1, {"mole": F(-1), "joule": F(1)})),
                 ("chemistry", (1, {"gram": F(1)}), (1, {"mole": F(1)}))]


def run_contexts(ck, fails):
    """an active context does not make quantities of different dimensionality orderable"""
    w = World(F)
    n = 0
    for ctx, a, b in CONTEXT_PAIRS:
        if ctx not in w.ureg._contexts or w.ph.dim(a[1]) is None or w.ph.dim(a[1]) == w.ph.dim(b[1]):
            continue
        qa, qb = w.q(*a), w.q(*b)
        kw = {"mw": w.q(18, {"gram": F(1), "mole": F(-1)})} if ctx == "chemistry" else {}
        for x, y in ((qa, qb), (qb, qa)):
            with w.ureg.context(ctx, **kw):
                o = Obs(lambda: cmp4(x, y))
            n += 1
            ck.case(key=("ctx-order", ctx, str(x.units), str(y.units)))
            if o.err != "XDim":
                fails.append((f"cross-dim:context-{ctx}:{ustr(a[1])},{ustr(b[1])}",
                              f"with context {ctx} active, ordering {x} against {y} gave {o.js()} instead of DimensionalityError",
                              {"law": "context-order", "context": ctx, "a": [mstr(a[0]), {k: str(v) for k, v in a[1].items()}],
                               "b": [mstr(b[0]), {k: str(v) for k, v in b[1].items()}]}))
    ck.count("context-order", n)


# ------------------------------------------------------------------ bare zeros of every numeric type (pint alone)
def bare_zeros():
    import numpy as np
    from decimal import Decimal as D
    return [("int 0", 0), ("float 0.0", 0.0), ("float -0.0", -0.0), ("Fraction(0)", F(0)), ("Decimal(0)", D(0)),
            ("Decimal('0.00')", D("0.00")), ("Decimal('-0')", D("-0")), ("Decimal('0E+3')", D("0E+3")),
            ("numpy.int64(0)", np.int64(0)), ("numpy.float64(0.0)", np.float64(0.0)), ("numpy.float32(0)", np.float32(0)),
            ("numpy.uint8(0)", np.uint8(0)), ("bool False", False), ("complex 0j", 0j)]


def six_ops():
    import operator
    return [("==", operator.eq), ("!=", operator.ne), ("<", operator.lt), ("<=", operator.le), (">", operator.gt), (">=", operator.ge)]


def outcome(fn):
    """value of a comparison as a plain bool, or the error class — never an exception"""
    try:
        r = fn()
        if type(r).__name__ in ("bool", "bool_"):
            return bool(r)
        return "returned " + type(r).__name__
    except Exception as e:      # noqa: BLE001
        return xerr(e)


def zero_law_one(ureg, nit, x, units_text, zname, z, opname, op, order):
    """A dimensioned multiplicative quantity against a bare zero: the verdict is that of the magnitudes alone,
    whatever Python type spells the zero.  Returns None if it holds, else a description."""
    xm = nit(x)
    q = ureg.Quantity(xm, units_text)
    got = outcome((lambda: op(q, z)) if order == 0 else (lambda: op(z, q)))
    exp = outcome((lambda: op(xm, z)) if order == 0 else (lambda: op(z, xm)))
    if got == exp:
        return None
    lhs, rhs = (f"Q({x}, '{units_text}')", zname) if order == 0 else (zname, f"Q({x}, '{units_text}')")
    return f"{lhs} {opname} {rhs} gives {got}; the magnitudes alone give {exp} ({nit.__name__} registry)"


def run_bare_zeros(ck, fails, thorough):
    from decimal import Decimal as D
    import warnings
    warnings.filterwarnings("ignore", category=RuntimeWarning)
    n = 0
    for nit in (float, F, D):
        ureg = regk.registry(nit)
        units = ["meter", "1/second", "kilogram*meter/second**2"] + (["inch", "hertz", "mole/liter"] if thorough else [])
        for units_text in units:
            for x in (0, 3, -2):
                for zname, z in bare_zeros():
                    for opname, op in six_ops():
                        for order in (0, 1):
                            n += 1
                            d = zero_law_one(ureg, nit, x, units_text, zname, z, opname, op, order)
                            if d is not None:
                                fails.append((f"number-rule:zero-type:{zname.split('(')[0].split(' ')[0]},{opname}",
                                              "comparison with a bare zero depends on the Python type of the zero: " + d,
                                              {"law": "zero-type", "registry": nit.__name__, "x": x, "units": units_text,
                                               "zero": zname, "op": opname, "order": order}))
                    ck.case(key=("bare-zero", nit.__name__, units_text, x, zname), n=12)
    ck.count("bare-zero comparisons", n)


# ------------------------------------------------------------------ histories: a quantity object after in-place steps (pint alone)
HIST_START = [(500, "nanometer"), (0, "kelvin"), (300, "kelvin"), (2, "electron_volt"), (3, "terahertz"), (0, "meter"), (F(3, 2), "inch")]
HIST_TARGETS = {"sp": ["terahertz", "hertz", "electron_volt", "joule", "nanometer", "meter"],
                "boltzmann": ["electron_volt", "joule", "kelvin", "millikelvin"],
                None: []}
HIST_PARTNERS = [(1, "hertz"), (1, "meter"), (0, "kelvin"), (0, "joule"), (0, "meter"), (0, "hertz"), (1, "joule"), (300, "kelvin"),
                 (600, "terahertz"), (F(1, 2), "micrometer"), (0, "electron_volt")]


def hist_apply(ureg, q, step):
    """one in-place step on the object q; returns a label or None if pint refuses it (then q is unchanged)"""
    kind = step[0]
    try:
        if kind == "touch":
            _ = q.dimensionality
            _ = q.dimensionless
        elif kind == "ito":                      # plain rescale / conversion through whatever context is enabled
            q.ito(step[1])
        elif kind == "ito-ctx":                  # context passed explicitly
            q.ito(step[1], step[2])
        elif kind == "ito-base":
            q.ito_base_units()
        elif kind == "ito-root":
            q.ito_root_units()
        elif kind == "ito-reduced":
            q.ito_reduced_units()
        elif kind == "imul":
            q *= ureg.Quantity(*step[1])
        elif kind == "idiv":
            q /= ureg.Quantity(*step[1])
        elif kind == "ipow":
            q **= step[1]
        return True
    except Exception:      # noqa: BLE001 — a refused step is not this oracle's business
        return False


def hist_observe(q, partners):
    out = []
    for p in partners:
        out.append((outcome(lambda: q == p), outcome(lambda: p == q), outcome(lambda: q != p), outcome(lambda: q < p),
                    outcome(lambda: q <= p), outcome(lambda: q > p), outcome(lambda: q >= p), outcome(lambda: p < q)))
    return out


def hist_check(ureg, q, where, desc, fails, rp):
    """q (an object with a history) must compare and hash like a fresh quantity with the same magnitude and units"""
    fresh = ureg.Quantity(q.magnitude, q.units)
    partners = [ureg.Quantity(*p) for p in HIST_PARTNERS]
    a, b = hist_observe(q, partners), hist_observe(fresh, partners)
    names = ["q == p", "p == q", "q != p", "q < p", "q <= p", "q > p", "q >= p", "p < q"]
    for p, ra, rb in zip(HIST_PARTNERS, a, b):
        for nm, x, y in zip(names, ra, rb):
            if x != y:
                fails.append((f"history:stale-state:{where}", f"after {desc} ({where} the context block) q = {q!s}: {nm} with p = {p[0]} {p[1]} gives {x}, "
                              f"but a fresh Quantity({q.magnitude}, '{q.units}') gives {y}", rp))
                return
    h = outcome(lambda: hash(q) == hash(fresh) and bool(q == fresh) and (fresh in {q}))
    if h is not True and not isnan(q.magnitude):
        fails.append((f"history:stale-state:{where}", f"after {desc} ({where} the context block) q = {q!s}: (hash(q) == hash(fresh) and q == fresh and fresh in {{q}}) "
                      f"is {h} for fresh = Quantity({q.magnitude}, '{q.units}')", rp))


def run_histories(ck, fails, thorough, seed):
    """quantity objects whose dimensionality was read, then changed in place (through an enabled context, an explicit
    context, base/root/reduced units, *=, /=, **=): ==, ordering and hash must be those of the current (magnitude, units)"""
    rng = random.Random(seed + 8)
    ureg = regk.registry(F)
    n = 0
    plans = []
    for ctx in ("sp", "boltzmann", None):
        for start in HIST_START:
            for tgt in HIST_TARGETS[ctx]:
                for explicit in (False, True):
                    plans.append((ctx, start, [("touch",), ("ito-ctx", tgt, ctx) if explicit else ("ito", tgt)], explicit))
    for _ in range(400 if thorough else 120):
        ctx = rng.choice(["sp", "boltzmann", None])
        steps = [("touch",)]
        for _ in range(rng.randint(1, 4)):
            k = rng.choice(["ito", "ito", "ito-ctx", "ito-base", "ito-root", "ito-reduced", "imul", "idiv", "ipow", "touch"])
            if k in ("ito", "ito-ctx"):
                c2 = ctx or rng.choice(["sp", "boltzmann"])
                tgt = rng.choice(HIST_TARGETS[c2] + ["centimeter", "kilohertz"])
                steps.append((k, tgt, c2) if k == "ito-ctx" else (k, tgt))
            elif k in ("imul", "idiv"):
                steps.append((k, rng.choice([(2, "second"), (3, "meter"), (1, "hertz"), (F(1, 2), "kelvin"), (2, "")])))
            elif k == "ipow":
                steps.append((k, rng.choice([2, -1, 1])))
            else:
                steps.append((k,))
        plans.append((ctx, rng.choice(HIST_START), steps, None))
    for ctx, start, steps, _ in plans:
        q = ureg.Quantity(*start)
        desc = f"Q({start[0]}, '{start[1]}')" + "".join("; " + " ".join(str(t) for t in st) for st in steps) + (f" with context {ctx} enabled on the registry" if ctx else "")
        rp = {"law": "history", "context": ctx, "start": [str(start[0]), start[1]], "steps": [[str(t) for t in st] for st in steps]}
        if ctx:
            with ureg.context(ctx):
                done = [hist_apply(ureg, q, st) for st in steps]
                hist_check(ureg, q, "inside", desc, fails, rp)
        else:
            done = [hist_apply(ureg, q, st) for st in steps]
        hist_check(ureg, q, "after", desc, fails, rp)
        n += 1
        ck.case(key=("history", ctx, str(start), str(steps)), n=2 * (8 * len(HIST_PARTNERS) + 1))
    ck.count("histories", n)

# ------------------------------------------------------------------ the run
def detect_quirks(w):
    """replay the _refuted witnesses on the implementation to select the model's switches"""
    z = Obs(lambda: bool(w.q(0, {"degree_Celsius": F(1)}) == w.q(0, {"kelvin": F(1)})))
    h = Obs(lambda: hash(w.q(1, {"hertz": F(1)})) != hash(w.q(1, {"becquerel": F(1)})))
    return z.val is True, h.val is not False


def run(ck):
    rng = random.Random(ck.seed)
    thorough = ck.tier == "thorough"
    ck.rule = ("Fraction registry, exact. Same-dimension pairs of rational canonical units (thorough: every ordered pair; quick: "
               "a sample + every pair inside temperature/dimensionless) x magnitude rows {0,1,-1,3/2, the physically equal value, "
               "NaN}: ==, reversed ==, !=, <, <=, >, >=, hash equality on every true ==; offset and delta units (all ordered pairs "
               "x 15 magnitudes incl. the zeros of every scale); dimensionless families; compound units incl. x radian/count/bit; "
               "cross-dimension pairs; bare numbers and None; bool(); to_root_units; Unit-level ==, <; random triples for "
               "transitivity; float registry order away from ties. non-trivial = distinct (kind, units, magnitudes)")
    ck.assumptions += [
        "registry mode: autoconvert_offset_to_baseunit=False, no active context, default system (hash goes through base units = "
        "root units with gram renamed to kilogram; the model hashes root units and only hash *equality* is compared)",
        "units whose factor goes through a non-integer power (planck_*, franklin, alpha-dependent) are outside the exact clauses",
        "agreement of <, > with the order of root-unit magnitudes is claimed for positively scaled units only (the registry has negative constants such as electron_g_factor); exactly-one-of and model correspondence are checked for all",
        "registry mode autoconvert_offset_to_baseunit=True (constructor and live switch): Quantity-Quantity ==, ordering, hash of "
        "multiplicative and single offset units are compared with the same model (C05_autoconvert_mode_irrelevant); bare-number "
        "branches and compound offset units in that mode are C06's",
        "bare zeros: int, float +-0.0, Fraction, four Decimal spellings, numpy int64/float64/float32/uint8, bool False, complex 0j, in the "
        "float, Fraction and Decimal registries, both operand orders, six operators; the expected verdict is Python's own on the bare "
        "magnitudes (so Fraction-vs-Decimal TypeError is Python's, not pint's)",
        "histories (dimensionality read, then ito through an enabled or explicit context sp/boltzmann, ito_base/root/reduced_units, *=, /=, **=): "
        "the object must compare and hash like a fresh Quantity(magnitude, units), inside and after the context block — oracle on pint alone",
        "logarithmic units are outside the model (C06); offset units in compound position only through their error class",
        "the model hashes in root units of the default system only; under the other default systems (cgs, imperial, US, SI, atomic, "
        "Planck, None, and default_system assigned on a live registry before first use) == => equal hash / set / dict lookup is an "
        "oracle on pint alone, restricted to operands whose system base units have exact rational factors (bohr, planck_* are floats); "
        "log-vs-linear pairs in the float registry on exact powers only",
        "Python's hash() is idealised as injective on (class, magnitude, units); hash(NaN) is identity-based and excluded",
    ]
    ok = ck.coq_build(["Properties/C05.vo", "Model/QCompareRun.vo", "Gen/DefaultReg.vo"])

    w = World(F)
    ureg, ph = w.ureg, w.ph
    zq, hq = detect_quirks(w)
    ck.extra["quirks_selected"] = {"zero_shortcut_any_unit": zq, "hash_on_units": hq}
    qk = f"(Quirks {coq_bool(zq)} {coq_bool(hq)})"
    header = HEADER + f"Definition ok (c : c05case) : bool := c05_ok {qk} default_reg c.\n"

    canon = regk.canonical_names(ureg)
    mult = [n for n in canon if regk.multiplicative(ureg, n)]
    rational = [n for n in mult if ph.root({n: F(1)}) is not None]
    ck.extra["inexact_units_excluded"] = sorted(n for n in mult if n not in rational)
    classes = {}
    for n in rational:
        classes.setdefault(ph.dim({n: F(1)}), []).append(n)

    cases, descs, fails = [], [], []

    def add(term, desc):
        cases.append(term)
        descs.append(desc)

    def record(fl, replay):
        for key, desc in fl:
            fails.append((key, desc, replay))

    def do_pair(ua, ub, rows, kind, want_hash=True, world=None):
        """rows: list of (x, y). Observes, applies the laws, emits one KPair case."""
        ww = world or w
        terms = []
        for x, y in rows:
            a, b = (x, ua), (y, ub)
            o = ww.observe(a, b, want_hash)
            terms.append(row_term(a, b, o))
            fl = ww.pair_laws(a, b, o)
            if ww.config:
                fl = [(f"{k.split(':', 1)[0]}@{ww.config}:{k.split(':', 1)[1]}", f"[registry configuration {ww.config}] {d}") for k, d in fl]
            record(fl, {"law": "pair", "config": ww.config, "a": [mstr(x), {k: str(v) for k, v in ua.items()}],
                        "b": [mstr(y), {k: str(v) for k, v in ub.items()}]})
            ck.case(key=(kind, ustr(ua), ustr(ub), mstr(x), mstr(y)), nontrivial=(ua != ub or x != y),
                    sample={"a": f"{mstr(x)} {ustr(ua)}", "b": f"{mstr(y)} {ustr(ub)}", "==": o["eq"].js(),
                            "<,<=,>,>=": o["cmp"].js(), "hash_eq": o.get("hash_eq")} if len(ck.samples) < 6 and ua != ub else None)
            ck.count("eq:" + str(o["eq"].js()))
            ck.count("cmp:" + (o["cmp"].err or "ok"))
            if o.get("hash_eq") is not None:
                ck.count("hash_checked")
        add(f"KPair {coq_units(ua)} {coq_units(ub)} {coq_list(terms)}", {"pair": [ustr(ua), ustr(ub)], "rows": [[mstr(x), mstr(y)] for x, y in rows]})
        ck.count("pairs:" + kind)

    def std_rows(ua, ub):
        rows = [(0, 0), (1, 1), (-1, -1), (F(3, 2), F(3, 2)), (0, 1), (NAN, 1), (1, NAN)]
        for x in (F(3, 2),):
            y = ph.equalise(x, ua, ub)
            if y is not None:
                rows.append((x, y))
                rows.append((x, y + F(1, 7)))          # just beside the tie
        return rows

    stage = ['setup']
    try:
        # ---- (1) same-dimension pairs of rational canonical multiplicative units
        stage[0] = '(1) same-dimension pairs of rational canonical multiplicative u'
        pairs = [(a, b) for cl in classes.values() for a in cl for b in cl]
        ck.extra["same_dimension_pairs_total"] = len(pairs)
        small = {d: cl for d, cl in classes.items() if not d}
        chosen = pairs if thorough else rng.sample(pairs, 320)
        for a, b in chosen:
            do_pair({a: F(1)}, {b: F(1)}, std_rows({a: F(1)}, {b: F(1)}), "same-dim")
        # reflexivity on the very same object and on a copy
        for n in (rational if thorough else rng.sample(rational, 120)):
            for x in (0, 1, F(-7, 3)):
                q1 = w.q(x, {n: F(1)})
                if Obs(lambda: bool(q1 == q1) and bool(q1 == w.q(x, {n: F(1)})) and hash(q1) == hash(w.q(x, {n: F(1)}))).val is not True:
                    fails.append((f"reflexivity:other:{n},{n}", f"{x} {n} is not equal to itself / hash unstable", {"law": "pair", "a": [mstr(x), {n: "1"}], "b": [mstr(x), {n: "1"}]}))
                ck.case(key=("refl", n, mstr(x)))
        ck.count("reflexivity")

        # ---- (2) offset and delta units: every ordered pair x magnitudes
        stage[0] = '(2) offset and delta units: every ordered pair x magnitudes'
        temps = [t for t in OFFSET_FAMILY if t in ureg._units]
        special = [0, 1, -1, F(3, 2), F(27315, 100), F(-27315, 100), F(-45967, 100), 32, F(49167, 100), F(-21852, 100), 100, 212, 80, 373]
        for a in temps:
            for b in temps:
                ua, ub = {a: F(1)}, {b: F(1)}
                rows = [(x, x) for x in special[:6]] + [(0, 1), (NAN, 0), (0, NAN)]
                for x in (special if thorough else special[:5] + rng.sample(special[5:], 2)):
                    y = ph.equalise(x, ua, ub)
                    if y is not None:
                        rows += [(x, y), (x, y + 1)]
                # values equal through kelvin although == refuses the conversion (delta vs offset)
                do_pair(ua, ub, rows, "offset-delta")
        # offset units in compound position: only error classes / shortcut answers
        for a in ("degree_Celsius", "degree_Fahrenheit"):
            for other in ({"meter": F(1)}, {"kelvin": F(-1)}):
                ua = {a: F(1), **other}
                ub = {"kelvin": F(1), **other}
                ub = {k: v for k, v in ub.items() if v != 0}
                do_pair(ua, ub, [(0, 0), (1, 1), (1, 2)], "offset-compound", want_hash=False)
                do_pair(ub, ua, [(0, 0), (1, 1)], "offset-compound", want_hash=False)
            do_pair({a: F(2)}, {"kelvin": F(2)}, [(0, 0), (1, 1)], "offset-compound", want_hash=False)

        # ---- (3) dimensionless families, incl. the empty container
        stage[0] = '(3) dimensionless families, incl. the empty container'
        dl = [{n: F(1)} for n in classes.get(frozenset(), [])] + [{}]
        fam = [u for u in dl if not u or list(u)[0] in ("radian", "count", "bit", "percent", "ppm", "steradian", "byte", "permille", "turn", "revolution")]
        for ua in (dl if thorough else fam):
            for ub in (dl if thorough else fam):
                do_pair(ua, ub, std_rows(ua, ub), "dimensionless")
        # ---- (4) compound units and the same unit times a dimensionless base unit (F2's shape)
        stage[0] = '(4) compound units and the same unit times a dimensionless base'
        ints = [F(-2), F(-1), F(1), F(2), F(3)]
        dimless_base = [n for n in rational if ureg._units[n].is_base and set(ureg._units[n].reference) == {"[]"}]
        ck.extra["dimensionless_base_units"] = dimless_base
        for _ in range(700 if thorough else 110):
            da = {}
            for _ in range(rng.randint(1, 3)):
                da[rng.choice(rational)] = rng.choice(ints)
            db = {}
            for k, v in da.items():
                alt = rng.choice(classes[ph.dim({k: F(1)})])
                db[alt] = db.get(alt, 0) + v
            db = {k: v for k, v in db.items() if v != 0}
            if rng.random() < 0.4:
                k = rng.choice(dimless_base)
                db[k] = db.get(k, 0) + rng.choice([F(1), F(-1), F(2)])
                db = {k: v for k, v in db.items() if v != 0}
            do_pair(da, db, std_rows(da, db), "compound")
        for n, k in [("hertz", "becquerel"), ("meter", None), ("newton", None), ("second", None)]:
            ua = {n: F(1)}
            for b in ([{k: F(1)}] if k else [{n: F(1), d: F(1)} for d in dimless_base]):
                do_pair(ua, b, std_rows(ua, b), "dimless-base")
                do_pair(b, ua, std_rows(b, ua), "dimless-base")

        # ---- (5) cross-dimension pairs
        stage[0] = '(5) cross-dimension pairs'
        reps = [cl[0] for cl in classes.values()]
        for _ in range(600 if thorough else 120):
            a, b = rng.sample(rational, 2)
            if ph.dim({a: F(1)}) == ph.dim({b: F(1)}):
                continue
            do_pair({a: F(1)}, {b: F(1)}, [(0, 0), (1, 1), (0, 1), (NAN, 1)], "cross-dim", want_hash=False)
        for t in ("degree_Celsius", "delta_degree_Celsius"):
            do_pair({t: F(1)}, {"meter": F(1)}, [(0, 0), (1, 1)], "cross-dim", want_hash=False)
            do_pair({"meter": F(1)}, {t: F(1)}, [(0, 0), (1, 1)], "cross-dim", want_hash=False)

        # ---- (6) bare numbers, None, bool(), to_root_units
        stage[0] = '(6) bare numbers, None, bool(), to_root_units'
        numbers = [0, 1, -1, F(3, 2), NAN, F(1, 100), 200, None]
        qs = [({n: F(1)}) for n in (rational if thorough else rng.sample(rational, 30))] + fam + [{t: F(1)} for t in temps]
        for ua in qs:
            for x in (0, 1, F(3, 2), NAN):
                a = (x, ua)
                qa = w.q(x, ua)
                ob = Obs(lambda: plain_bool(bool(qa)))
                add(f"KBool {coq_qty(x, ua)} {ob.coq(coq_bool)}", {"bool": [mstr(x), ustr(ua)]})
                if not ph.nonmult(ua) and (ob.err or ob.val != (isnan(x) or x != 0)):
                    fails.append((f"bool:other:{ustr(ua)},-", f"bool({mstr(x)} {ustr(ua)}) is {ob.js()}", {"law": "bool", "a": [mstr(x), {k: str(v) for k, v in ua.items()}]}))
                orr = Obs(lambda: qa.to_root_units())
                if orr.err:
                    add(f"KToRoot {coq_qty(x, ua)} (Raised {orr.err}) (mkuc [])", {"to_root": [mstr(x), ustr(ua)]})
                else:
                    mg = orr.val.magnitude
                    add(f"KToRoot {coq_qty(x, ua)} (Got {coq_mag(mg)}) {coq_units(regk.ucd(orr.val._units))}", {"to_root": [mstr(x), ustr(ua)]})
                ck.case(key=("bool/root", ustr(ua), mstr(x)))
                pv = ph.value(x, ua)
                ns = list(numbers)
                if pv is not None and not pv[0]:
                    ns.append(pv[1])
                for n in ns:
                    oeq = Obs(lambda: plain_bool(qa == n))
                    one = Obs(lambda: plain_bool(qa != n))
                    ocmp = Obs(lambda: cmp4(qa, n))
                    add(f"KNum {coq_qty(x, ua)} {operand_term(n)} {oeq.coq(coq_bool)} {one.coq(coq_bool)} {ocmp.coq(coq_cmp4)}",
                        {"number": [mstr(x), ustr(ua), "None" if n is None else mstr(n)]})
                    if n is not None:
                        record(w.number_laws(a, n, oeq, one, ocmp), {"law": "number", "a": [mstr(x), {k: str(v) for k, v in ua.items()}], "n": mstr(n)})
                    ck.case(key=("num", ustr(ua), mstr(x), "None" if n is None else mstr(n)))
                    ck.count("number:" + (ocmp.err or "ok"))

        # ---- (7) Unit-level ==, <
        stage[0] = '(7) Unit-level ==, <'
        upairs = rng.sample(pairs, 500 if thorough else 80) + [(a, b) for a in temps for b in temps] + \
            [tuple(rng.sample(rational, 2)) for _ in range(200 if thorough else 30)]
        unit_vs_number_done = set()
        for a, b in upairs:
            U, V = w.unit({a: F(1)}), w.unit({b: F(1)})
            oe = Obs(lambda: plain_bool(U == V))
            oc = Obs(lambda: cmp4(U, V))
            add(f"KUnitEq {coq_units({a: F(1)})} (UUnit {coq_units({b: F(1)})}) {oe.coq(coq_bool)}", {"unit_eq": [a, b]})
            add(f"KUnitCmp {coq_units({a: F(1)})} (UUnit {coq_units({b: F(1)})}) {oc.coq(coq_cmp4)}", {"unit_cmp": [a, b]})
            if oe.err or oe.val != (a == b):
                fails.append((f"unit-eq:other:{a},{b}", f"Unit == Unit is {oe.js()}", {"law": "unit", "a": a, "b": b}))
            pa, pb = ph.value(1, {a: F(1)}), ph.value(1, {b: F(1)})
            if pa is not None and pb is not None:
                reg = region(ph, (1, {a: F(1)}), (1, {b: F(1)}))
                if pa[0] != pb[0]:
                    if oc.err != "XDim":
                        fails.append((f"unit-order:{reg}:{a},{b}", f"Unit ordering across dimensions gave {oc.js()}", {"law": "unit", "a": a, "b": b}))
                elif not (ph.positive({a: F(1)}) and ph.positive({b: F(1)})):
                    pass                                   # negatively scaled units: outside the ordering clause
                elif oc.err or oc.val != (pa[1] < pb[1], pa[1] <= pb[1], pa[1] > pb[1], pa[1] >= pb[1]):
                    fails.append((f"unit-order:{reg}:{a},{b}", f"Unit ordering is {oc.js()} for sizes {pa[1]}, {pb[1]}", {"law": "unit", "a": a, "b": b}))
            # Unit == Quantity and Unit == number
            y = ph.equalise(1, {a: F(1)}, {b: F(1)})
            for m in ([1] if y is None else [1, y]):
                qb = w.q(m, {b: F(1)})
                oq = Obs(lambda: plain_bool(U == qb))
                add(f"KUnitEq {coq_units({a: F(1)})} (UQty {coq_qty(m, {b: F(1)})}) {oq.coq(coq_bool)}", {"unit_eq_qty": [a, mstr(m), b]})
                pq = ph.value(m, {b: F(1)})
                if pa is not None and pq is not None and region(ph, (1, {a: F(1)}), (m, {b: F(1)})) == "other" and (oq.err or oq.val != (pa == pq)):
                    fails.append((f"unit-eq:other:{a},{b}", f"Unit == Quantity is {oq.js()}", {"law": "unit", "a": a, "b": b}))
            for n in ((0, 1, NAN) if a not in unit_vs_number_done else ()):
                on = Obs(lambda: plain_bool(U == n))
                ocn = Obs(lambda: cmp4(U, n))
                add(f"KUnitEq {coq_units({a: F(1)})} (UNum {coq_mag(n)}) {on.coq(coq_bool)}", {"unit_eq_num": [a, mstr(n)]})
                add(f"KUnitCmp {coq_units({a: F(1)})} (UNum {coq_mag(n)}) {ocn.coq(coq_cmp4)}", {"unit_cmp_num": [a, mstr(n)]})
            unit_vs_number_done.add(a)
            ck.case(key=("unit", a, b))
        ck.count("unit-level", len(upairs))

        # ---- (8) random triples for transitivity (oracle on pint alone)
        stage[0] = '(8) random triples for transitivity (oracle on pint alone)'
        pools = [cl for cl in classes.values() if len(cl) >= 3]
        ntr = 0
        for i in range(20000 if thorough else 2500):
            mode = rng.random()
            if mode < 0.25:
                names = [rng.choice(temps) for _ in range(3)]
            elif mode < 0.35:
                base = rng.choice(rational)
                names = None
                us = [{base: F(1)}] + [dict({base: F(1)}, **{rng.choice(dimless_base): F(1)}) for _ in range(2)]
                rng.shuffle(us)
            else:
                names = rng.sample(rng.choice(pools), 3)
            if names is not None:
                us = [{n: F(1)} for n in names]
            x = rng.choice([0, 0, 1, -1, F(3, 2), F(27315, 100), rng.randint(-500, 500), F(rng.randint(-99, 99), rng.randint(1, 12))])
            qs3 = [(x, us[0])]
            for u in us[1:]:
                y = ph.equalise(x, us[0], u)
                r = rng.random()
                if y is None or r < 0.1:
                    y = x
                elif r < 0.2:
                    y = 0
                qs3.append((y, u))
            Q3 = [w.q(*t) for t in qs3]
            e = [[None] * 3 for _ in range(3)]
            raised = False
            for i1 in range(3):
                for j1 in range(3):
                    oe = Obs(lambda: plain_bool(Q3[i1] == Q3[j1]))
                    e[i1][j1] = oe.val
                    if oe.err:
                        raised = True
                        fails.append((f"eq-raises:{region(ph, qs3[i1], qs3[j1])}:{ustr(qs3[i1][1])},{ustr(qs3[j1][1])}",
                                      f"== raised {oe.err} instead of returning a bool; a = {mstr(qs3[i1][0])} [{ustr(qs3[i1][1])}], b = {mstr(qs3[j1][0])} [{ustr(qs3[j1][1])}]",
                                      {"law": "pair", "a": [mstr(qs3[i1][0]), {k: str(v) for k, v in qs3[i1][1].items()}],
                                       "b": [mstr(qs3[j1][0]), {k: str(v) for k, v in qs3[j1][1].items()}]}))
            if raised:
                continue
            ntr += 1
            ck.case(key=("triple", tuple(ustr(u) for u in us), tuple(mstr(t[0]) for t in qs3)))
            for (i1, j1, k1) in ((0, 1, 2), (1, 0, 2), (0, 2, 1), (2, 1, 0), (1, 2, 0), (2, 0, 1)):
                if e[i1][j1] and e[j1][k1] and not e[i1][k1]:
                    # attribute the failure to the pair(s) on which == departs from physical equality
                    dev = []
                    for (p, q) in ((i1, j1), (j1, k1), (i1, k1)):
                        pp, pq_ = ph.value(*qs3[p]), ph.value(*qs3[q])
                        if pp is not None and pq_ is not None and e[p][q] != (pp == pq_):
                            dev.append((p, q))
                    rp = {"law": "triple", "qs": [[mstr(t[0]), {k: str(v) for k, v in t[1].items()}] for t in qs3]}
                    desc = (f"a == b and b == c but a != c for a = {mstr(qs3[i1][0])} [{ustr(qs3[i1][1])}], "
                            f"b = {mstr(qs3[j1][0])} [{ustr(qs3[j1][1])}], c = {mstr(qs3[k1][0])} [{ustr(qs3[k1][1])}]")
                    if not dev:
                        fails.append((f"transitivity:other:{ustr(qs3[i1][1])},{ustr(qs3[k1][1])}", desc, rp))
                    for (p, q) in dev:
                        fails.append((f"transitivity:{region(ph, qs3[p], qs3[q])}:{ustr(qs3[p][1])},{ustr(qs3[q][1])}", desc, rp))
                    break
            # every true == must come with equal hashes
            for i1 in range(3):
                for j1 in range(i1 + 1, 3):
                    if e[i1][j1] and Obs(lambda: hash(Q3[i1]) == hash(Q3[j1])).val is not True:
                        o = {"eq": Obs(lambda: True), "eq_rev": Obs(lambda: e[j1][i1]), "ne": Obs(lambda: False),
                             "cmp": Obs(lambda: cmp4(Q3[i1], Q3[j1])), "hash_eq": False}
                        fl = [kd for kd in w.pair_laws(qs3[i1], qs3[j1], o) if kd[0].startswith("hash:")]
                        record(fl, {"law": "pair", "a": [mstr(qs3[i1][0]), {k: str(v) for k, v in qs3[i1][1].items()}],
                                    "b": [mstr(qs3[j1][0]), {k: str(v) for k, v in qs3[j1][1].items()}]})
        ck.count("triples", ntr)

        # ---- (9) float registry: order away from ties
        stage[0] = '(9) float registry: order away from ties'
        wf_ = World(float)
        nfl = 0
        for _ in range(6000 if thorough else 1200):
            a, b = rng.choice(pairs)
            x, y = rng.uniform(-1e3, 1e3), rng.uniform(-1e3, 1e3)
            if rng.random() < 0.5:
                ye = ph.equalise(F(x), {a: F(1)}, {b: F(1)})
                if ye is not None:
                    try:
                        y = float(ye) * rng.choice([1 + 1e-6, 1 - 1e-6, 1.5, 0.5])
                    except OverflowError:
                        continue
            pa, pb = ph.value(F(x), {a: F(1)}), ph.value(F(y), {b: F(1)})
            if pa is None or pb is None or not (ph.positive({a: F(1)}) and ph.positive({b: F(1)})):
                continue
            big = max(abs(pa[1]), abs(pb[1]))
            if big == 0 or abs(pa[1] - pb[1]) <= big * F(1, 10 ** 9):
                continue                                       # a tie (within 1e-9 relative): not decided in floats
            qa, qb = wf_.q(x, {a: F(1)}), wf_.q(y, {b: F(1)})
            try:
                got = (bool(qa < qb), bool(qa == qb), bool(qa > qb), bool(qa <= qb), bool(qa >= qb))
            except Exception as ex:           # noqa: BLE001
                got = type(ex).__name__
            exp = (pa[1] < pb[1], False, pa[1] > pb[1], pa[1] < pb[1], pa[1] > pb[1])
            nfl += 1
            ck.case(key=("float", a, b, x, y))
            if got != exp:
                fails.append((f"float-order:other:{a},{b}", f"float registry: (<, ==, >, <=, >=) = {got} for {x!r} {a} vs {y!r} {b}; exact order says {exp}",
                              {"law": "float", "a": [repr(x), a], "b": [repr(y), b]}))
        ck.count("float-order", nfl)

        # ---- (14) histories: objects changed in place (enabled / explicit contexts, base/root/reduced units, *=, /=, **=)
        stage[0] = '(14) histories of in-place steps'
        run_histories(ck, fails, thorough, ck.seed)

        # ---- (13) bare zeros of every numeric type, three registries, both operand orders, six operators (pint alone);
        #      and the same zeros through the model (every spelling is [ONum (Fin 0)])
        stage[0] = '(13) bare zeros of every numeric type'
        run_bare_zeros(ck, fails, thorough)
        import numpy as _np
        for zname, z in [("float 0.0", 0.0), ("float -0.0", -0.0), ("Fraction(0)", F(0)), ("numpy.int64(0)", _np.int64(0)),
                         ("numpy.float64(0.0)", _np.float64(0.0)), ("bool False", False)]:
            for ua in ({"meter": F(1)}, {"second": F(-1)}, {"newton": F(1)}, {}, {"percent": F(1)}):
                for x in (0, 3, F(-3, 2)):
                    qa = w.q(x, ua)
                    oeq, one = Obs(lambda: plain_bool(bool(qa == z))), Obs(lambda: plain_bool(bool(qa != z)))
                    ocmp = Obs(lambda: tuple(bool(t) for t in cmp4(qa, z)))
                    add(f"KNum {coq_qty(x, ua)} (ONum (Fin {coq_q(0)})) {oeq.coq(coq_bool)} {one.coq(coq_bool)} {ocmp.coq(coq_cmp4)}",
                        {"number": [mstr(x), ustr(ua), zname]})
                    ck.case(key=("num-zero-type", ustr(ua), mstr(x), zname))

        # ---- (12) registry mode autoconvert_offset_to_baseunit (constructor argument and live switch): between two
        #      quantities ==, ordering and hashing of multiplicative and single offset units do not depend on it
        #      (C05_autoconvert_mode_irrelevant), so the same model and the same laws apply
        stage[0] = '(12) registry mode autoconvert_offset_to_baseunit'
        for config in CONFIGS:
            wc = World(F, config)
            for a in temps:
                for b in temps:
                    ua, ub = {a: F(1)}, {b: F(1)}
                    rows = [(0, 0), (1, 1), (0, 1), (F(27315, 100), 0), (0, F(27315, 100)), (NAN, 0)]
                    for x in (0, 32, F(-45967, 100)):
                        y = wc.ph.equalise(x, ua, ub)
                        if y is not None:
                            rows += [(x, y)]
                    do_pair(ua, ub, rows, "mode:" + config, world=wc)
            for a, b in rng.sample(pairs, 400 if thorough else 40):
                ua, ub = {a: F(1)}, {b: F(1)}
                do_pair(ua, ub, [(0, 0), (1, 1), (0, 1)] + std_rows(ua, ub)[-2:], "mode:" + config, world=wc)
            for ua in fam:
                do_pair(ua, {}, [(0, 0), (1, 1), (0, 1)], "mode:" + config, world=wc)
            for t in ("degree_Celsius", "kelvin"):
                do_pair({t: F(1)}, {"meter": F(1)}, [(0, 0), (1, 1)], "mode:" + config, want_hash=False, world=wc)
            # zero in a logarithmic unit is not zero (float registry: Fractions have no log); equality only
            import warnings
            warnings.filterwarnings("ignore", category=RuntimeWarning)      # log(0) while converting 0 W to dBm
            wl = World(float, config)
            for (ua, ub) in (("decibel", ""), ("decibelmilliwatt", "milliwatt"), ("decibelmilliwatt", "watt"), ("decibelwatt", "watt"), ("octave", "")):
                for qa, qb in ((wl.ureg.Quantity(0.0, ua), wl.ureg.Quantity(0.0, ub)), (wl.ureg.Quantity(0.0, ub), wl.ureg.Quantity(0.0, ua))):
                    o = Obs(lambda: bool(qa == qb))          # numpy bool in the float registry
                    ck.case(key=("mode-log", config, ua, ub))
                    if o.val is not False:
                        fails.append((f"eq-spec@{config}:log-zero:{ua},{ub or 'dimensionless'}",
                                      f"[registry configuration {config}] {qa} == {qb} is {o.js()}: zero in a logarithmic unit is the reference level, not zero",
                                      {"law": "none", "config": config, "a": [0, ua], "b": [0, ub]}))
        ck.count("mode-configs", len(CONFIGS))


    # ---- (10) every default system (incl. a live switch): == => same hash, set and dict lookup; (11) contexts
        stage[0] = '(10) every default system (incl. a live switch): == => same has'
        run_systems(ck, fails, thorough)
        run_contexts(ck, fails)

    except Exception as ex:       # noqa: BLE001 — a crash of the harness itself is reported, never silent
        import traceback
        ck.broken.append(f"harness stream {stage[0]!r} crashed: {type(ex).__name__}: {ex}")
        ck.build_log_tail = traceback.format_exc()[-3000:]

    # ---- model vs implementation
    # shuffled so that every shard gets the same mix of heavy (KPair) and light cases
    order = list(range(len(cases)))
    random.Random(ck.seed + 1).shuffle(order)
    cases = [cases[i] for i in order]
    descs = [descs[i] for i in order]
    shard = min(400, max(100, -(-len(cases) // 16)))
    bad = ck.coq_mismatches("c05", header, cases, "ok", shard=shard) if ok else None
    ck.extra["model_vs_impl_cases"] = len(cases)
    ck.extra["model_vs_impl_disagreements"] = None if bad is None else len(bad)
    seen, per_kind = set(), {}
    for key, desc, rp in fails:
        k0 = ":".join(key.split(":")[:2])
        if key in seen:
            continue
        seen.add(key)
        if ck._match_known(key) is None:
            per_kind[k0] = per_kind.get(k0, 0) + 1
            if per_kind[k0] > 3:            # at most three concrete inputs per (law, region)
                continue
        ck.violation(key, desc, rp)
    ck.extra["oracle_failures_by_law_region"] = {}
    for key, _, _ in fails:
        k0 = ":".join(key.split(":")[:2])
        ck.extra["oracle_failures_by_law_region"][k0] = ck.extra["oracle_failures_by_law_region"].get(k0, 0) + 1
    if bad:
        ck.broken.append(f"correspondence QCompareRun.c05_ok: {len(bad)} disagreements, first: {descs[bad[0]]}")
        unlisted = [f for f in fails if ck._match_known(f[0]) is None]
        if not unlisted:
            ck.violation("correspondence", "model and implementation disagree; no property oracle failed",
                         {"first_disagreement": descs[bad[0]], "coq_case": cases[bad[0]][:3000], "n": len(bad),
                          "others": [descs[i] for i in bad[1:10]]}, no_input=True)


# ------------------------------------------------------------------ replay
def replay(ck, path):
    data = json.load(open(path))
    print(json.dumps(data, indent=1)[:4000])
    rp = data.get("replay", {})
    if not isinstance(rp, dict) or "law" not in rp:
        return 0

    def spec(t):
        return (mparse(t[0]), {k: F(v) for k, v in t[1].items()})
    w = World(F, rp.get("config"))
    fl = []
    if rp["law"] == "pair":
        a, b = spec(rp["a"]), spec(rp["b"])
        fl = w.pair_laws(a, b, w.observe(a, b))
    elif rp["law"] == "number":
        a, n = spec(rp["a"]), mparse(rp["n"])
        qa = w.q(*a)
        fl = w.number_laws(a, n, Obs(lambda: plain_bool(qa == n)), Obs(lambda: plain_bool(qa != n)), Obs(lambda: cmp4(qa, n)))
    elif rp["law"] == "triple":
        qs = [spec(t) for t in rp["qs"]]
        Q3 = [w.q(*t) for t in qs]
        for i in range(3):
            for j in range(3):
                for k in range(3):
                    if len({i, j, k}) == 3 and Q3[i] == Q3[j] and Q3[j] == Q3[k] and not Q3[i] == Q3[k]:
                        fl.append((data.get("key", "transitivity"), f"a == b, b == c, a != c with (a, b, c) = operands {i}, {j}, {k}"))
    elif rp["law"] == "system-hash":
        ureg = system_registry(rp["system"])
        r = hash_law_one(ureg, Phys(ureg), spec(rp["a"]), spec(rp["b"]))
        if r is not None and not r[0]:
            fl.append((data.get("key", "hash"), r[1]))
    elif rp["law"] == "system-hash-log":
        ureg = system_registry(rp["system"], float)
        qa, qb = ureg.Quantity(*rp["a"]), ureg.Quantity(*rp["b"])
        if qa == qb and qb == qa and not (hash(qa) == hash(qb) and qb in {qa}):
            fl.append((data.get("key", "hash"), "a == b but hash / set lookup disagree"))
    elif rp["law"] == "history":
        ureg = regk.registry(F)
        q = ureg.Quantity(mparse(rp["start"][0]), rp["start"][1])

        def step(st):
            if st[0] in ("imul", "idiv"):
                import ast as _ast
                m_, u_ = st[1].strip("()").split(", ", 1)
                return (st[0], (eval(m_, {"Fraction": F}), _ast.literal_eval(u_)))
            if st[0] == "ipow":
                return (st[0], int(st[1]))
            return tuple(st)
        steps = [step(st) for st in rp["steps"]]
        if rp["context"]:
            with ureg.context(rp["context"]):
                for st in steps:
                    hist_apply(ureg, q, st)
                hist_check(ureg, q, "inside", "replayed history", fl, None)
        else:
            for st in steps:
                hist_apply(ureg, q, st)
        hist_check(ureg, q, "after", "replayed history", fl, None)
        fl = [(k, d) for k, d, _ in fl]
    elif rp["law"] == "zero-type":
        from decimal import Decimal as D
        nit = {"float": float, "Fraction": F, "Decimal": D}[rp["registry"]]
        z = dict(bare_zeros())[rp["zero"]]
        op = dict(six_ops())[rp["op"]]
        d = zero_law_one(regk.registry(nit), nit, rp["x"], rp["units"], rp["zero"], z, rp["op"], op, rp["order"])
        if d is not None:
            fl.append((data.get("key", "number-rule"), d))
    else:
        print("(no automatic replay for this law; the operands are listed above)")
        return 0
    for key, desc in fl:
        print(f"ORACLE-FAILS {key}: {desc}")
    print("reproduced" if fl else "not reproduced")
    return 1 if fl else 0
