"""C06 — offset and logarithmic units convert by their defining maps and refuse ambiguity.

Theorems: coq/Properties/C06.v (Model/Offset.v; Proofs/OffsetProofs.v, Proofs/LogConv.v).
Tie T4: harness/t4_converters.py regenerates Gen/Converters.v from the converter classes.
Correspondence K (Fraction registry, exact): conversions, to_root_units, + - * / ** unary,
comparisons, both operand orders, numbers as operands, scalar and ndarray (in-place twin)
magnitudes, the four registry modes, on the temperature units of the bundled registry, their
delta_ units and GENERATED offset units with random rational scale / offset.  The model's result
and the branch it took are compared inside Coq (Model/OffsetRun.v).  Logarithmic units: the
conversion plan is compared exactly, the float value against an independent 50-digit evaluation.
Oracles on pint alone: the defining affine maps, mutual inverse, path independence, delta units
convert by scale only, the documented table rows of docs/user/nonmult.rst, error classes, never a
number for ambiguous combinations.
"""
from __future__ import annotations

import decimal
import itertools
import json
import logging
import random
from fractions import Fraction as F

from . import t1_defs
from .common import REPO, coq_bool, coq_list, coq_opt, coq_q, coq_str, coq_uc

logging.getLogger("pint").setLevel(logging.ERROR)

K_ = "kelvin"
# ---------------------------------------------------------------- ground truth, independent of pint
# name -> (kind, S, O, reference unit, its factor to kelvin):  kelvin value = S*x + O
DEFAULT_UNITS = {
    "degree_Celsius": ("offset", F(1), F("273.15")),
    "degree_Fahrenheit": ("offset", F(5, 9), F("233.15") + F(200, 9)),
    "degree_Reaumur": ("offset", F(5, 4), F("273.15")),   # 80 degRe = 100 degC (the bundled 4/5 was repaired under C20)
    "kelvin": ("abs", F(1), F(0)),
    "degree_Rankine": ("abs", F(5, 9), F(0)),
}
REF_FACTOR = {"kelvin": F(1), "degree_Rankine": F(5, 9), "millikelvin": F(1, 1000)}


class U:
    """what the harness knows about one temperature-like unit"""

    def __init__(self, name, kind, S, O, ref, generated=False):
        self.name, self.kind, self.S, self.O, self.ref, self.generated = name, kind, F(S), F(O), ref, generated

    def root(self, x):
        return self.S * x + (self.O if self.kind == "offset" else 0)


def make_units(rng, n_gen):
    units, lines = [], []
    for n, (kind, S, O) in DEFAULT_UNITS.items():
        units.append(U(n, kind, S, O, "kelvin" if n != "kelvin" else "[temperature]"))
    for n in ("degree_Celsius", "degree_Fahrenheit", "degree_Reaumur"):
        units.append(U("delta_" + n, "delta", DEFAULT_UNITS[n][1], 0, "kelvin"))
    for i in range(n_gen):
        ref = rng.choices(["kelvin", "degree_Rankine", "millikelvin"], [8, 3, 1])[0]
        s = F(rng.randint(1, 40), rng.randint(1, 12))
        if rng.random() < 0.1:
            s = -s
        o = F(rng.choice([-1, 1]) * rng.randint(1, 60000), rng.choice([1, 2, 4, 5, 9, 10, 20, 100]))
        name = f"degG{i}"
        sym = f" = dG{i}" if i % 3 else ""
        stxt = f"{s.numerator} / {s.denominator}" if s > 0 else f"-{-s.numerator} / {s.denominator}"
        otxt = f"{o.numerator} / {o.denominator}" if o > 0 else f"-{-o.numerator} / {o.denominator}"
        lines.append(f"{name} = {stxt} * {ref}; offset: {otxt}{sym}")
        f = REF_FACTOR[ref]
        units.append(U(name, "offset", s * f, o * f, ref, True))
        units.append(U("delta_" + name, "delta", s * f, 0, ref, True))
    return units, lines


# ---------------------------------------------------------------- Coq literals
def coq_operand(x, u):
    return f"(ONum {coq_q(x)})" if u is None else f"(OQty {coq_q(x)} {coq_uc(u)})"


def err_class(e):
    import pint
    if isinstance(e, pint.errors.OffsetUnitCalculusError):
        return "XOffset"
    if isinstance(e, pint.errors.DimensionalityError):
        return "XDim"
    if isinstance(e, ZeroDivisionError):
        return "XZeroDiv"
    if isinstance(e, ValueError):
        return "XValue"
    return "XOther"


def exact(x):
    """magnitude -> Fraction, or None when pint left the exact domain"""
    import numpy as np
    if isinstance(x, bool) or isinstance(x, np.bool_):
        return None
    if isinstance(x, (int, F)):
        return F(x)
    if isinstance(x, np.integer):
        return F(int(x))
    return None


def ucd(c):
    return {k: F(v) for k, v in c.items()}


class Out:
    """canonical outcome of one implementation call: ('val', [mags], units) | ('bool', [bools]) | ('err', cls)"""

    def __init__(self, kind, vals=None, units=None, err=None):
        self.kind, self.vals, self.units, self.err = kind, vals, units, err

    def __repr__(self):
        if self.kind == "err":
            return f"raises {self.err}"
        if self.kind == "bool":
            return f"{self.vals}"
        return f"{[str(v) for v in self.vals]} {dict((k, str(v)) for k, v in (self.units or {}).items())}"


def run_impl(fn, n):
    """fn() -> Quantity | bool | ndarray of bool | magnitude;  n = number of array elements (0 = scalar)"""
    import numpy as np
    try:
        r = fn()
    except Exception as e:  # noqa: BLE001
        return Out("err", err=err_class(e))
    if hasattr(r, "_units") and hasattr(r, "_magnitude"):
        m = r._magnitude
        vals = [exact(v) for v in (list(m) if isinstance(m, np.ndarray) else [m] * max(n, 1))]
        if any(v is None for v in vals):
            return Out("err", err="XInexact")
        return Out("val", vals, ucd(r._units))
    if isinstance(r, np.ndarray):
        return Out("bool", [bool(v) for v in r])
    if isinstance(r, (bool, np.bool_)):
        return Out("bool", [bool(r)] * max(n, 1))
    return Out("err", err="XOther")


def coq_obs(o, i):
    if o.kind == "err":
        return f"(OFail {o.err if o.err != 'XInexact' else 'XOther'})"
    return f"(OVal {coq_q(o.vals[i])} {coq_uc(o.units)})"


def coq_obsn(o, i):
    if o.kind == "err":
        return f"(NFail {o.err if o.err != 'XInexact' else 'XOther'})"
    return f"(NVal {coq_q(o.vals[i])})"


def coq_obsb(o, i):
    if o.kind == "err":
        return f"(BFail {o.err if o.err != 'XInexact' else 'XOther'})"
    return f"(BVal {coq_bool(o.vals[i])})"


# ---------------------------------------------------------------- branch labels from pint's own predicates
def nm_units(q):
    return q._get_non_multiplicative_units()


LOG_SUB_DELTA = [True]     # defect switch F92 as probed on the implementation (set by run)


def addsub_tag(qa, qb, sub):
    """the if / elif chain of _add_sub evaluated with the implementation's own predicates"""
    def subok(q, n):
        return LOG_SUB_DELTA[0] or not q._get_unit_definition(n).is_logarithmic
    if qa is None:
        return "AEarly"
    if not hasattr(qb, "_units"):
        if qb == 0:
            return "ANumZero"
        try:
            return "ANumDimless" if qa.dimensionless else "ANumRefuse"
        except Exception:  # noqa: BLE001  (.dimensionless converts to root units first)
            return "AEarly"
    if qa.dimensionality != qb.dimensionality:
        return "ADimErr"
    na, nb = nm_units(qa), nm_units(qb)
    if not na and not nb:
        if qa._units == qb._units:
            return "AMultSame"
        if qa._get_delta_units() and not qb._get_delta_units():
            return "AMultToOther"
        return "AMultToSelf"
    if sub and len(na) == 1 and qa._units[na[0]] == 1 and subok(qa, na[0]) and not qb._has_compatible_delta(na[0]):
        return "ASubOffLeft"
    if sub and len(nb) == 1 and qb._units[nb[0]] == 1 and subok(qb, nb[0]) and not qa._has_compatible_delta(nb[0]):
        return "ASubOffRight"
    if len(na) == 1 and qa._units[na[0]] == 1 and qb._has_compatible_delta(na[0]):
        return "AOffDelta"
    if len(nb) == 1 and qb._units[nb[0]] == 1 and qa._has_compatible_delta(nb[0]):
        return "ADeltaOff"
    return "ARefuse"


def muldiv_tag(qa, qb, div):
    if not hasattr(qa, "_units"):          # number (op) quantity: __rmul__ / __rtruediv__
        q = qb
        n = nm_units(q)
        if not q._ok_for_muldiv(len(n)):
            return "MRefuse"
        if not div and len(n) == 1 and q._units[n[0]] != 1:
            return "MRefuse"
        return "MNumber"
    n = nm_units(qa)
    if not hasattr(qb, "_units"):
        if not qa._ok_for_muldiv(len(n)):
            return "MRefuse"
        if len(n) == 1 and (qa._units[n[0]] != 1 or div):
            return "MRefuse"
        return "MNumber"
    if not qa._ok_for_muldiv(len(n)):
        return "MRefuse"
    if len(n) == len(qa._units) == 1:
        try:
            qa.to_root_units()
        except Exception:  # noqa: BLE001
            return "MQuantity"
    if not qb._ok_for_muldiv(len(nm_units(qb))):
        return "MRefuse"
    return "MQuantity"


def pow_tag(q, e, auto):
    if e == 1:
        return "POne"
    if e == 0:
        return "PZero"
    if not nm_units(q):
        return "PPlain"
    return "PAutoRoot" if auto else "PRefuse"


# ---------------------------------------------------------------- the run
class Ctx:
    pass


def build_registries(lines, nit=F):
    import pint
    regs = {}
    for auto in (False, True):
        for asd in (True, False):
            r = pint.UnitRegistry(non_int_type=nit, cache_folder=None,
                                  autoconvert_offset_to_baseunit=auto, default_as_delta=asd)
            for ln in lines:
                r.define(ln)
            regs[(auto, asd)] = r
    return regs


def probe_quirks(ck):
    """Replay the witness of each listed finding on the implementation and select the model's defect
    switches (DESIGN 2.6): True = behaves as found, False = behaves as after the proposed repair."""
    import pint
    out = {}
    r = pint.UnitRegistry(non_int_type=F, cache_folder=None)
    r.define("degW90 = 3 / 2 * degree_Rankine; offset: 10")
    try:
        q = r.Quantity(F(1), "degree_Celsius") + r.Quantity(F(6), "delta_degW90")
        out["F90"] = False if (q._magnitude == 6 and dict(q._units) == {"degree_Celsius": 1}) else None
    except pint.errors.OffsetUnitCalculusError:
        out["F90"] = True
    except Exception:  # noqa: BLE001
        out["F90"] = None
    r = pint.UnitRegistry(non_int_type=F, cache_folder=None, autoconvert_offset_to_baseunit=True)
    try:
        v = r.Quantity(F(10), r.UnitsContainer({"degree_Celsius": 1, "meter": 1})).to(
            r.UnitsContainer({"degree_Fahrenheit": 1, "inch": 1}))._magnitude
        out["F91"] = True if v == 50 else (False if v == F(248997191, 12700) else None)
    except Exception:  # noqa: BLE001
        out["F91"] = None
    r = pint.UnitRegistry(cache_folder=None)
    try:
        q = r.Quantity(10, "decibelmilliwatt") - r.Quantity(4, "decibelmilliwatt")
        out["F92"] = True if dict(q._units) == {"delta_decibelmilliwatt": 1} else None
    except pint.errors.OffsetUnitCalculusError:
        out["F92"] = False
    except Exception:  # noqa: BLE001
        out["F92"] = None
    for k, v in out.items():
        if v is None:
            ck.broken.append(f"witness of {k} behaves neither as found nor as repaired")
            out[k] = True
    ck.extra["defect_switches"] = {k: ("as found" if v else "repaired") for k, v in out.items()}
    return out


def header(lines, qk):
    extra = coq_list([t1_defs.coq_rawdef(t1_defs.unit_line(ln)) for ln in lines])
    return ("From PintV Require Import Model.UC Model.Eval Model.Registry Model.UCRun Model.Offset Model.OffsetRun "
            "Gen.DefaultDefs.\nOpen Scope string_scope.\n"
            f"Definition extra : list rawdef := {extra}.\n"
            "Definition R : reg := reg_with default_raw extra.\n"
            f"Definition ok (c : c06case) : bool := c06_ok (Quirks {coq_bool(qk['F90'])} {coq_bool(qk['F91'])} "
            f"{coq_bool(qk['F92'])}) R c.\n")


def run(ck):
    import numpy as np
    import pint
    rng = random.Random(ck.seed)
    thorough = ck.tier == "thorough"
    n_gen = 200 if thorough else 20
    ck.rule = (f"Fraction registry, exact. Units: degC degF degRe kelvin degR + their delta_ units + {n_gen} GENERATED offset "
               "units (random rational scale, some negative, and offset; reference kelvin / degR / millikelvin) with their "
               "delta_ units; the definition lines are given to pint (define) and, through T1's reader, to the model. "
               "1 bundled units: every ordered pair x {to/ito, +, -, *, /, <, <=, >, >=, ==} x autoconvert on/off x scalar / "
               "ndarray (in-place twin), default_as_delta alternating (thorough: both); equal temperatures in different "
               "units; both magnitudes zero. 2 every ordered pair with a generated unit (thorough: 20000 sampled): "
               "conversion + 0-2 arithmetic operators (+ a comparison with prob. 0.2), random mode and magnitude kind; 600 / "
               "3000 path triples. 3 per unit: a number as the other operand in both orders, ** (-2..3, __ipow__ on arrays), "
               "unary -, abs, to_root_units / ito_root_units. 4 compound containers (offset unit squared, inverted, times or "
               "per a length, two offset units, offset x delta, delta per kelvin ...): predicates, pairs of equal "
               "dimensionality, numbers, powers, conversions. 5 string parsing under both default_as_delta values. 6 log "
               "units: every ordered pair of log units and related linear units — the conversion plan exactly, the float "
               "value |err| <= 1e-12*max(1,|expected|) against a 60-digit evaluation (a test), same-unit + - and * 2; 5c ONE registry parsing the same strings with as_delta switched between parses (argument and "
               "default_as_delta attribute, both orders; units, Quantity units, to_root_units) against registries that only "
               "ever used one value; 5b a Unit object as operand: Unit*Q, Q*Unit, Unit/Q, Q/Unit (scalar, array, in place), "
               "number*Unit, Unit*number, number/Unit, Unit/number in all four modes must equal the Quantity(1, unit) spelling; == / != against the logarithmic map incl. both magnitudes zero. == and != of the exact streams "
               "are judged by root-unit values also when both magnitudes are exactly zero (scalar, array, every mode). 7 ONE registry with autoconvert_offset_to_baseunit switched at run time (built in "
               "either mode; Fraction and float): random sequences of conversions of compound containers, single units, "
               "root units, powers, arithmetic — each answer must equal that of a never-switched registry in the current "
               "mode (and the model's); a difference is shrunk to a short reproducing sequence. "
               "Every operation is labelled with the branch pint's own predicates select; the model must take the same "
               "branch and return the same value and unit or the same exception class. non-trivial = distinct (stream, "
               "operator, units, autoconvert, magnitude kind)")
    ck.assumptions += [
        "logarithmic converters: the float results of numpy/libm log and exp are compared with a 50-digit evaluation "
        "of the same plan within 1e-12 — a test, not a proof; log_inverse is proved over Coq's real numbers",
        "to_base_units is modelled as to_root_units (default system mks: identical for temperature and power units)",
        "the in-place side effect of _imul_div on its right operand (F14, property C03) is not observed here",
    ]
    # the run model first (so that K can look for a failing input even when a proof or tie breaks)
    built_run = ck.coq_build(["Model/OffsetRun.vo", "Gen/DefaultReg.vo", "Gen/Converters.vo"])
    ck.coq_build(["Properties/C06.vo"])
    ck.extra["real_number_axioms_used_by"] = sorted(n for n, ax in ck.axioms.items() if ax)
    # when the model could not be built (translator or model broken) the oracles still run on pint alone,
    # so that a concrete failing input is reported whenever there is one

    import time
    t_ = {"start": time.time()}
    units, lines = make_units(rng, n_gen)
    by = {u.name: u for u in units}
    regs = build_registries(lines)
    qk = probe_quirks(ck)
    LOG_SUB_DELTA[0] = qk["F92"]
    HEADER = header(lines, qk)
    cases, descs = [], []
    seen_terms = set()
    fails = []

    def add(term, desc, key, count=None):
        if term in seen_terms:
            ck.case(key=key, nontrivial=False)
            return
        seen_terms.add(term)
        cases.append(term)
        descs.append(desc)
        ck.case(key=key, nontrivial=True, sample=desc if len(ck.samples) < 6 else None)
        if count:
            ck.count(count)

    def oracle(cond, key, desc, rp):
        if not cond:
            fails.append((key, desc, dict(rp, defs=[ln for ln in lines if any(tok in ln for tok in _names(rp))])))

    def _names(rp):
        s = json.dumps(rp, default=str)
        return [u.name for u in units if u.generated and u.name in s and not u.name.startswith("delta_")]

    def mags(n):
        """n random magnitudes (n = 0: one scalar)"""
        def one():
            c = rng.random()
            if c < 0.08:
                return F(0)
            if c < 0.5:
                return F(rng.randint(-400, 400))
            return F(rng.randint(-4000, 4000), rng.choice([2, 3, 4, 5, 7, 10]))
        return [one() for _ in range(max(n, 1))]

    def mkq(reg, xs, unit, arr):
        """unit: canonical name (parsed as a string) or dict (container)"""
        m = np.array(xs, dtype=object) if arr else xs[0]
        if isinstance(unit, dict):
            unit = reg.UnitsContainer({k: (int(v) if F(v).denominator == 1 else F(v)) for k, v in unit.items()})
        return reg.Quantity(m, unit)

    def ud(unit):
        return unit if isinstance(unit, dict) else {unit: F(1)}

    def uname(unit):
        return unit if isinstance(unit, str) else "*".join(f"{k}^{v}" for k, v in sorted(unit.items()))

    modes_all = [(a, d) for a in (False, True) for d in (True, False)]

    # ------------------------------------------------------------ conversions
    def do_conv(ua, ub, mode, arr, stream):
        reg = regs[mode]
        auto = mode[0]
        xs = mags(2 if arr else 0)
        q = mkq(reg, xs, ua, arr)
        dst = reg.UnitsContainer(ud(ub)) if isinstance(ub, dict) else ub
        if arr:
            def fn():
                q.ito(dst)
                return q
        else:
            def fn():
                return q.to(dst)
        o = run_impl(fn, len(xs) if arr else 0)
        rp = {"op": "ito" if arr else "to", "mode": list(mode), "a": [[str(x) for x in xs], ua], "b": ub}
        for i in range(len(xs)):
            add(f"KConv {coq_bool(auto)} {coq_bool(arr)} {coq_q(xs[i])} {coq_uc(ud(ua))} {coq_uc(ud(ub))} {coq_obsn(o, i)}",
                dict(rp, observed=repr(o)), ("conv", uname(ua), uname(ub), auto, arr), "conv:" + stream)
        return xs, o, rp

    def conv_oracles(a, b, xs, o, rp, reg):
        """a, b: U.  The defining maps."""
        key = f"{a.name},{b.name}"
        if a.kind == "delta" or b.kind == "delta":
            if a.kind == "offset" or b.kind == "offset":
                oracle(o.kind == "err" and o.err == "XDim", f"conv-offset-delta-not-refused:{key}",
                       f"conversion between an offset unit and a delta unit must raise DimensionalityError, got {o}", rp)
                return
            exp = [x * a.S / b.S for x in xs]
            what = "conv-delta-scale-only"
        else:
            exp = [(a.root(x) - (b.O if b.kind == "offset" else 0)) / b.S for x in xs]
            what = "conv-affine"
        oracle(o.kind == "val" and o.vals == exp, f"{what}:{key}",
               f"{a.name} -> {b.name} of {[str(x) for x in xs]}: expected {[str(e) for e in exp]}, got {o}", rp)
        if o.kind == "val":
            back = run_impl(lambda: reg.Quantity(o.vals[0], b.name).to(a.name), 0)
            oracle(back.kind == "val" and back.vals[0] == xs[0], f"conv-inverse:{key}",
                   f"{a.name} -> {b.name} -> {a.name} of {xs[0]} gives {back}", rp)

    # ------------------------------------------------------------ binary operators between quantities
    BIN = ["add", "sub", "mul", "div", "lt", "le", "gt", "ge", "eq", "ne"]
    PYOP = {"add": "+", "sub": "-", "mul": "*", "div": "/", "lt": "<", "le": "<=", "gt": ">", "ge": ">=", "eq": "==", "ne": "!="}

    def apply_bin(op, qa, qb, inplace):
        if op == "add":
            if inplace:
                qa += qb
                return qa
            return qa + qb
        if op == "sub":
            if inplace:
                qa -= qb
                return qa
            return qa - qb
        if op == "mul":
            if inplace:
                qa *= qb
                return qa
            return qa * qb
        if op == "div":
            if inplace:
                qa /= qb
                return qa
            return qa / qb
        if op == "lt":
            return qa < qb
        if op == "le":
            return qa <= qb
        if op == "gt":
            return qa > qb
        if op == "ge":
            return qa >= qb
        if op == "ne":
            return qa != qb
        return qa == qb

    def do_bin(op, ua, ub, mode, arr, stream, xs=None, ys=None):
        """ua / ub: unit name, dict, or None for a plain number operand"""
        reg = regs[mode]
        auto = mode[0]
        n = 2 if arr else 0
        xs = xs or mags(n)
        ys = ys or mags(n)
        if ub is None and rng.random() < 0.4:
            ys = [F(0)] * len(ys)
        if ua is None and rng.random() < 0.4:
            xs = [F(0)] * len(xs)
        if arr:
            # an array operation raises as a whole / takes whole-array shortcuts: keep the elements uniform
            if op == "div":
                ys = [y if y != 0 else F(1) for y in ys]
            if op in ("eq", "ne") and not all(x == 0 and y == 0 for x, y in zip(xs, ys)):
                xs = [x if (x != 0 or y != 0) else F(1) for x, y in zip(xs, ys)]
        if ua is None or ub is None:
            # number operands are scalars (an array of numbers would broadcast: same rule elementwise)
            if ua is None:
                xs = [xs[0]] * len(xs)
            else:
                ys = [ys[0]] * len(ys)
        qa = mkq(reg, xs, ua, arr) if ua is not None else (int(xs[0]) if xs[0].denominator == 1 else xs[0])
        qb = mkq(reg, ys, ub, arr) if ub is not None else (int(ys[0]) if ys[0].denominator == 1 else ys[0])
        inplace = arr and ua is not None and op in ("add", "sub", "mul", "div")
        # label the branch with the implementation's own predicates, before the operation can mutate anything
        if op in ("add", "sub"):
            if ua is None:
                tag = addsub_tag(qb, qa, op == "sub")
            else:
                tag = addsub_tag(qa, qb, op == "sub")
        elif op in ("mul", "div"):
            tag = muldiv_tag(qa, qb, op == "div")
        else:
            tag = None
        o = run_impl(lambda: apply_bin(op, qa, qb, inplace), len(xs) if arr else 0)
        rp = {"op": op, "mode": list(mode), "array": arr, "a": [[str(x) for x in xs], ua], "b": [[str(y) for y in ys], ub]}
        for i in range(len(xs)):
            A = coq_operand(xs[i], None if ua is None else ud(ua))
            B = coq_operand(ys[i], None if ub is None else ud(ub))
            if op in ("add", "sub"):
                term = f"KAddSub {coq_bool(auto)} {coq_bool(inplace)} {coq_bool(op == 'sub')} {A} {B} {tag} {coq_obs(o, i)}"
            elif op in ("mul", "div"):
                term = f"KMulDiv {coq_bool(auto)} {coq_bool(inplace)} {coq_bool(op == 'div')} {A} {B} {tag} {coq_obs(o, i)}"
            elif op in ("eq", "ne"):
                # __ne__ is "not __eq__" (elementwise): the model's __eq__ must give the negation of what != returned
                oe = o if (op == "eq" or o.kind != "bool") else Out("bool", [not v for v in o.vals])
                term = f"KEq {coq_bool(auto)} {A} {B} {coq_obsb(oe, i)}"
            else:
                term = f"KCmp {coq_bool(auto)} C{op.capitalize()} {A} {B} {coq_obsb(o, i)}"
            add(term, dict(rp, observed=repr(o), branch=tag),
                (op, uname(ua) if ua is not None else "num", uname(ub) if ub is not None else "num", auto, arr), None)
        if tag:
            ck.count(("addsub:" if op in ("add", "sub") else "muldiv:") + tag)
        ck.count("op:" + op + (":inplace" if inplace else ""))
        return xs, ys, o, rp, tag

    def table_oracles(op, a, b, xs, ys, o, rp, auto):
        """the documented rows, for single-unit operands a, b : U"""
        key = f"{a.name},{b.name}"
        ka, kb = a.kind, b.kind

        def expect(vals, unit, what):
            how = ("raises-" + o.err) if o.kind == "err" else ("wrong-unit" if o.kind == "val" and o.units != {unit: F(1)} else "wrong-value")
            oracle(o.kind == "val" and o.units == {unit: F(1)} and o.vals == vals, f"table:{what}:{how}:{key}",
                   f"{[str(x) for x in xs]} {a.name} {PYOP[op]} {[str(y) for y in ys]} {b.name}: expected "
                   f"{[str(v) for v in vals]} {unit}, got {o}", rp)

        def refuse(cls, what):
            oracle(o.kind == "err" and o.err in cls, f"table:{what}:{key}",
                   f"{a.name} {PYOP[op]} {b.name} must raise {cls}, got {o}", rp)
        sg = 1 if op == "add" else -1
        if op in ("add", "sub"):
            if ka == "offset" and kb == "offset":
                if op == "sub":
                    expect([x - (b.root(y) - a.O) / a.S for x, y in zip(xs, ys)], "delta_" + a.name, "offset-minus-offset")
                else:
                    refuse(["XOffset"], "offset-plus-offset")
            elif ka == "offset" and kb == "abs":
                if op == "sub":
                    expect([x - (b.root(y) - a.O) / a.S for x, y in zip(xs, ys)], "delta_" + a.name, "offset-minus-absolute")
                else:
                    refuse(["XOffset"], "offset-plus-absolute")
            elif ka == "abs" and kb == "offset":
                if op == "sub":
                    expect([x - b.root(y) / a.S for x, y in zip(xs, ys)], a.name, "absolute-minus-offset")
                else:
                    refuse(["XOffset"], "absolute-plus-offset")
            elif ka == "offset" and kb == "delta":
                same_ref = (b.name == "delta_" + a.name) or a.ref == b.ref
                expect([x + sg * y * b.S / a.S for x, y in zip(xs, ys)], a.name,
                       "offset-pm-delta" if same_ref else "offset-pm-delta-other-reference")
            elif ka == "delta" and kb == "offset":
                same_ref = (a.name == "delta_" + b.name) or a.ref == b.ref
                expect([x * a.S / b.S + sg * y for x, y in zip(xs, ys)], b.name,
                       "delta-pm-offset" if same_ref else "delta-pm-offset-other-reference")
            else:   # both multiplicative
                unit = b.name if (ka == "delta" and kb != "delta") else a.name
                tgt = by[unit]
                expect([(a.S * x + sg * b.S * y) / tgt.S for x, y in zip(xs, ys)], unit, "multiplicative-" + op)
        elif op in ("mul", "div"):
            if ka == "offset" or kb == "offset":
                if not auto:
                    refuse(["XOffset"], "muldiv-offset-without-autoconvert")
                else:
                    ra = [a.root(x) for x in xs] if ka == "offset" else xs
                    rb = [b.root(y) for y in ys] if kb == "offset" else ys
                    una = {K_: F(1)} if ka == "offset" else {a.name: F(1)}
                    unb = {K_: F(1)} if kb == "offset" else {b.name: F(1)}
                    eu = dict(una)
                    for k, v in unb.items():
                        eu[k] = eu.get(k, 0) + (v if op == "mul" else -v)
                    eu = {k: v for k, v in eu.items() if v != 0}
                    if op == "div" and any(y == 0 for y in rb):
                        refuse(["XZeroDiv"], "div-by-zero")
                    else:
                        ev = [x * y if op == "mul" else x / y for x, y in zip(ra, rb)]
                        oracle(o.kind == "val" and o.units == eu and o.vals == ev, f"table:muldiv-autoconvert-root:{key}",
                               f"autoconvert: {a.name} {PYOP[op]} {b.name} must be the operation on root-unit operands "
                               f"{[str(v) for v in ev]} {eu}, got {o}", rp)
        elif op in ("eq", "ne"):
            # the value of == / != is fixed by the defining maps: equal iff the root-unit values are equal — also
            # when both magnitudes are exactly zero (0 degC is 273.15 K, not 0 K); an offset never equals a delta
            neg = op == "ne"
            zz = ":both-zero" if all(x == 0 for x in xs) and all(y == 0 for y in ys) else ""
            if "delta" in (ka, kb) and "offset" in (ka, kb):
                ev = [neg] * len(xs)
                oracle(o.kind == "bool" and o.vals == ev, f"table:{op}-offset-delta{zz}:{key}",
                       f"{[str(x) for x in xs]} {a.name} {PYOP[op]} {[str(y) for y in ys]} {b.name} (offset vs delta) must be {ev}, got {o}", rp)
            else:
                ev = [((a.root(x) if ka != "delta" else a.S * x) == (b.root(y) if kb != "delta" else b.S * y)) != neg for x, y in zip(xs, ys)]
                oracle(o.kind == "bool" and o.vals == ev, f"table:{op}{zz}:{key}",
                       f"{[str(x) for x in xs]} {a.name} {PYOP[op]} {[str(y) for y in ys]} {b.name}: in kelvin these are "
                       f"{[str(a.root(x) if ka != 'delta' else a.S * x) for x in xs]} and {[str(b.root(y) if kb != 'delta' else b.S * y) for y in ys]}, "
                       f"expected {ev}, got {o}", rp)
        else:
            if "delta" in (ka, kb) and "offset" in (ka, kb):
                return      # undocumented; correspondence only
            import operator
            f = {"lt": operator.lt, "le": operator.le, "gt": operator.gt, "ge": operator.ge}[op]
            if a.name == b.name:      # same unit: the magnitudes are compared (also for a unit with a negative scale)
                ev = [f(x, y) for x, y in zip(xs, ys)]
            else:
                ev = [f(a.root(x) if ka != "delta" else a.S * x, b.root(y) if kb != "delta" else b.S * y) for x, y in zip(xs, ys)]
            oracle(o.kind == "bool" and o.vals == ev, f"table:order:{key}", f"{PYOP[op]} expected {ev}, got {o}", rp)

    defaults = [u for u in units if not u.generated]
    gens = [u for u in units if u.generated]

    # 1. bundled units: exhaustive
    for a, b in itertools.product(defaults, defaults):
        for auto_ in (False, True):
            for arr in (False, True):
                # default_as_delta only changes string parsing (stream 5): alternate it here (thorough: both)
                for mode in ([(auto_, True), (auto_, False)] if thorough else [(auto_, rng.random() < 0.5)]):
                  if True:
                    xs, o, rp = do_conv(a.name, b.name, mode, arr, "bundled")
                    conv_oracles(a, b, xs, o, rp, regs[mode])
                    for op in BIN:
                        xs, ys, o, rp, _ = do_bin(op, a.name, b.name, mode, arr, "bundled")
                        table_oracles(op, a, b, xs, ys, o, rp, mode[0])
    # equal temperatures expressed in different units compare equal
    for a, b in itertools.product(defaults, defaults):
        if "delta" in (a.kind, b.kind):
            continue
        x = mags(0)[0]
        y = (a.root(x) - (b.O if b.kind == "offset" else 0)) / b.S
        for op in ("eq", "ne", "le", "lt"):
            xs, ys, o, rp, _ = do_bin(op, a.name, b.name, rng.choice(modes_all), False, "bundled", [x], [y])
            table_oracles(op, a, b, xs, ys, o, rp, False)
    # both magnitudes exactly zero (__eq__ has a shortcut for this), scalar and array, every mode in turn
    zpool = defaults + gens[:6]
    for i, (a, b) in enumerate(itertools.product(zpool, zpool)):
        for j, (op, arr) in enumerate((("eq", False), ("ne", False), ("eq", True), ("ne", True))):
            for mode in (modes_all if not (a.generated or b.generated) else [modes_all[(i + j) % 4]]):
                n = 2 if arr else 1
                xs, ys, o, rp, _ = do_bin(op, a.name, b.name, mode, arr, "zero", [F(0)] * n, [F(0)] * n)
                table_oracles(op, a, b, xs, ys, o, rp, mode[0])

    # 2. pairs with a generated unit
    pairs = [(a, b) for a in units for b in units if a.generated or b.generated]
    if thorough:
        pairs = rng.sample(pairs, min(len(pairs), 20000))
    for a, b in pairs:
        mode = rng.choice(modes_all)
        arr = rng.random() < 0.3
        xs, o, rp = do_conv(a.name, b.name, mode, arr, "generated")
        conv_oracles(a, b, xs, o, rp, regs[mode])
        for op in rng.sample(BIN[:4], rng.choice([0, 1, 1, 2])) + ([rng.choice(BIN[4:])] if rng.random() < 0.2 else []):
            mode = rng.choice(modes_all)
            arr = rng.random() < 0.3
            xs, ys, o, rp, _ = do_bin(op, a.name, b.name, mode, arr, "generated")
            table_oracles(op, a, b, xs, ys, o, rp, mode[0])
    # path independence a -> b -> c = a -> c
    abs_like = [u for u in units if u.kind != "delta"]
    deltas = [u for u in units if u.kind != "offset"]
    for _ in range(3000 if thorough else 600):
        pool = abs_like if rng.random() < 0.7 else deltas
        a, b, c = (rng.choice(pool) for _ in range(3))
        reg = regs[rng.choice(modes_all)]
        x = mags(0)[0]
        try:
            via = reg.Quantity(x, a.name).to(b.name).to(c.name)._magnitude
            direct = reg.Quantity(x, a.name).to(c.name)._magnitude
            ok = via == direct
        except Exception as e:  # noqa: BLE001
            ok, via, direct = False, type(e).__name__, None
        oracle(ok, f"conv-path:{a.name},{b.name},{c.name}", f"{x} {a.name} -> {b.name} -> {c.name} = {via} but direct = {direct}",
               {"op": "path", "a": a.name, "b": b.name, "c": c.name, "x": str(x)})
        ck.case(key=("path", a.name, b.name, c.name))
    ck.count("oracle:path", 3000 if thorough else 600)

    # 3. per unit: numbers as operands (both orders), powers, unary, root units, predicates
    per_unit = units if not thorough else defaults + rng.sample(gens, 120)
    for u in per_unit:
        for mode in (modes_all if not u.generated else rng.sample(modes_all, 2)):
            reg, auto = regs[mode], mode[0]
            for arr in (False, True):
                for op in BIN:
                    for side in ("right", "left"):
                        if side == "left" and op not in ("add", "sub", "mul", "div"):
                            continue        # 3 < q is q.__gt__(3): the same code as q > 3
                        if arr and side == "left":
                            continue
                        if u.generated and rng.random() < 0.6:
                            continue
                        ua, ub = (u.name, None) if side == "right" else (None, u.name)
                        xs, ys, o, rp, tag = do_bin(op, ua, ub, mode, arr, "number")
                        qx = xs if side == "right" else ys
                        nz = (ys if side == "right" else xs)[0]
                        key = u.name
                        if op in ("mul", "div") and u.kind == "offset":
                            if not auto:
                                oracle(o.kind == "err" and o.err == "XOffset", f"table:number-muldiv-offset-without-autoconvert:{key}",
                                       f"{u.name} {PYOP[op]} number must raise OffsetUnitCalculusError, got {o}", rp)
                            elif op == "mul":
                                oracle(o.kind == "val" and o.units == {u.name: F(1)} and o.vals == [x * nz for x in qx],
                                       f"table:number-mul-keeps-unit:{key}", f"autoconvert: {u.name} * number keeps the unit, got {o}", rp)
                            elif side == "right":
                                oracle(o.kind == "err" and o.err == "XOffset", f"table:offset-div-number:{key}",
                                       f"{u.name} / number must raise OffsetUnitCalculusError, got {o}", rp)
                            elif all(u.root(x) != 0 for x in qx):
                                oracle(o.kind == "val" and o.units == {K_: F(-1)} and o.vals == [nz / u.root(x) for x in qx],
                                       f"table:number-div-offset-root:{key}", f"autoconvert: number / {u.name} goes through kelvin, got {o}", rp)
                        if op in ("add", "sub"):
                            if nz == 0:
                                ev = [x if (op == "add" or side == "right") else -x for x in qx]
                                oracle(o.kind == "val" and o.units == {u.name: F(1)} and o.vals == ev, f"table:plus-zero:{key}",
                                       f"{u.name} {PYOP[op]} 0 keeps the quantity, got {o}", rp)
                            else:
                                oracle(o.kind == "err" and o.err == "XDim", f"table:plus-number:{key}",
                                       f"{u.name} {PYOP[op]} non-zero number must raise DimensionalityError, got {o}", rp)
            # powers
            for e in (-2, -1, 0, 1, 2, 3):
                arr = rng.random() < 0.4
                if u.generated and rng.random() < 0.5:
                    continue
                xs = mags(2 if arr else 0)
                if arr and e < 0:
                    xs = [x if x != 0 else F(1) for x in xs]
                q = mkq(reg, xs, u.name, arr)
                tag = pow_tag(q, e, auto)
                if arr:
                    def fn(q=q, e=e):
                        q **= e
                        return q
                else:
                    def fn(q=q, e=e):
                        return q ** e
                o = run_impl(fn, len(xs) if arr else 0)
                rp = {"op": "pow", "mode": list(mode), "array": arr, "a": [[str(x) for x in xs], u.name], "e": e}
                for i in range(len(xs)):
                    add(f"KPow {coq_bool(auto)} {coq_bool(arr)} {coq_q(xs[i])} {coq_uc(ud(u.name))} ({e})%Z {tag} {coq_obs(o, i)}",
                        dict(rp, observed=repr(o), branch=tag), ("pow", u.name, e, auto, arr), None)
                ck.count("pow:" + tag)
                if u.kind == "offset" and e not in (0, 1):
                    if not auto:
                        oracle(o.kind == "err" and o.err == "XOffset", f"table:pow-offset-without-autoconvert:{u.name}",
                               f"{u.name} ** {e} must raise OffsetUnitCalculusError, got {o}", rp)
                    elif all(u.root(x) != 0 for x in xs) or e > 0:
                        oracle(o.kind == "val" and o.units == {K_: F(e)} and o.vals == [u.root(x) ** e for x in xs],
                               f"table:pow-autoconvert-root:{u.name}", f"autoconvert: {u.name} ** {e} goes through kelvin, got {o}", rp)
                if e == 1:
                    oracle(o.kind == "val" and o.units == {u.name: F(1)} and o.vals == xs, f"table:pow-one:{u.name}", f"** 1 keeps the quantity, got {o}", rp)
            # unary, root units
            xs = mags(0)
            q = mkq(reg, xs, u.name, False)
            o = run_impl(lambda: -q, 0)
            add(f"KNeg {coq_q(xs[0])} {coq_uc(ud(u.name))} {coq_obs(o, 0)}", {"op": "neg", "a": [str(xs[0]), u.name]}, ("neg", u.name), "unary")
            oracle(o.kind == "val" and o.vals == [-xs[0]] and o.units == {u.name: F(1)}, f"unary:neg:{u.name}", f"-q got {o}", {"op": "neg", "a": [str(xs[0]), u.name]})
            o = run_impl(lambda: abs(q), 0)
            add(f"KAbs {coq_q(xs[0])} {coq_uc(ud(u.name))} {coq_obs(o, 0)}", {"op": "abs", "a": [str(xs[0]), u.name]}, ("abs", u.name), "unary")
            oracle(o.kind == "val" and o.vals == [abs(xs[0])] and o.units == {u.name: F(1)}, f"unary:abs:{u.name}", f"abs(q) got {o}", {"op": "abs", "a": [str(xs[0]), u.name]})
            for arr in (False, True):
                xs = mags(2 if arr else 0)
                q = mkq(reg, xs, u.name, arr)
                if arr:
                    def fn(q=q):
                        q.ito_root_units()
                        return q
                else:
                    def fn(q=q):
                        return q.to_root_units()
                o = run_impl(fn, len(xs) if arr else 0)
                rp = {"op": "to_root_units", "mode": list(mode), "array": arr, "a": [[str(x) for x in xs], u.name]}
                for i in range(len(xs)):
                    add(f"KRoot {coq_bool(auto)} {coq_bool(arr)} {coq_q(xs[i])} {coq_uc(ud(u.name))} {coq_obs(o, i)}",
                        dict(rp, observed=repr(o)), ("root", u.name, auto, arr), "root")
                ev = [u.root(x) if u.kind != "delta" else u.S * x for x in xs]
                oracle(o.kind == "val" and o.units == {K_: F(1)} and o.vals == ev, f"conv-root:{u.name}", f"to_root_units expected {[str(v) for v in ev]} kelvin, got {o}", rp)

    # 4. compound containers: the classes Other / Mixed / Ambiguous, and the predicates
    offs = [u for u in defaults if u.kind == "offset"] + rng.sample([u for u in gens if u.kind == "offset"], 4 if not thorough else 30)
    comp = []
    for u in offs:
        v = rng.choice([w for w in offs if w is not u])
        comp += [({u.name: F(2)}, "ambig"), ({u.name: F(-1)}, "ambig"), ({u.name: F(1), "meter": F(1)}, "offset-compound"),
                 ({u.name: F(1), "meter": F(-1)}, "offset-compound"), ({u.name: F(1), v.name: F(1)}, "ambig"),
                 ({u.name: F(1), "delta_" + v.name: F(1)}, "mixed"), ({"delta_" + u.name: F(1), "meter": F(-1)}, "delta-compound"),
                 ({"delta_" + u.name: F(2)}, "delta-compound"), ({u.name: F(1), "radian": F(1)}, "offset-compound"),
                 ({"kelvin": F(2)}, "mult"), ({"kelvin": F(1), "meter": F(1)}, "mult"), ({"kelvin": F(1), "inch": F(1)}, "mult"),
                 ({u.name: F(1), "inch": F(1)}, "offset-compound"), ({"kelvin": F(1), u.name: F(1)}, "offset-compound"),
                 ({"delta_" + u.name: F(1), "kelvin": F(-1)}, "delta-compound"), ({u.name: F(1), "kelvin": F(-1)}, "offset-compound")]
    seen_c = set()
    comp = [c for c in comp if not (json.dumps(sorted(c[0].items()), default=str) in seen_c or seen_c.add(json.dumps(sorted(c[0].items()), default=str)))]
    ck.extra["compound_containers"] = len(comp)
    refq = regs[(False, True)]

    def dimkey(d):
        dd = refq.get_dimensionality(refq.UnitsContainer({k: int(v) if v.denominator == 1 else v for k, v in d.items()}))
        return json.dumps(sorted((k, str(F(v))) for k, v in dd.items()))
    bydim = {}
    for c, kind in comp:
        bydim.setdefault(dimkey(c), []).append((c, kind))
    for c, kind in comp:
        for mode in modes_all:
            reg, auto = regs[mode], mode[0]
            q = mkq(reg, [F(3)], c, False)
            n = nm_units(q)
            add(f"KPred {coq_bool(auto)} {coq_uc(c)} {coq_list([coq_str(s) for s in n])} "
                f"{coq_list([coq_str(s) for s in q._get_delta_units()])} {coq_bool(q._ok_for_muldiv())}",
                {"op": "predicates", "a": uname(c), "mode": list(mode)}, ("pred", uname(c), auto), "predicates")
            for w in offs[:4]:
                add(f"KCompat {coq_uc(c)} {coq_str(w.name)} {coq_bool(q._has_compatible_delta(w.name))}",
                    {"op": "_has_compatible_delta", "a": uname(c), "unit": w.name}, ("compat", uname(c), w.name), "predicates")
        partners = bydim[dimkey(c)]
        for c2, kind2 in (partners if len(partners) <= 6 else rng.sample(partners, 6)):
            for op in BIN[:4] + [rng.choice(BIN[4:])]:
                mode = rng.choice(modes_all)
                arr = rng.random() < 0.25
                xs, ys, o, rp, tag = do_bin(op, c, c2, mode, arr, "compound")
                if "ambig" in (kind, kind2) and op in ("add", "sub", "mul", "div"):
                    oracle(o.kind == "err" and o.err in ("XOffset", "XDim"), f"ambiguous-not-refused:{op}:{uname(c)},{uname(c2)}",
                           f"{uname(c)} {PYOP[op]} {uname(c2)} involves an offset unit of order != 1 or two offset units and must raise, got {o}", rp)
            mode = rng.choice(modes_all)
            xs, o, rp = do_conv(c, c2, mode, rng.random() < 0.25, "compound")
            if kind == "offset-compound" and kind2 == "offset-compound" and o.kind == "val" and c != c2:
                # a number was produced: then it must account for every unit of the containers
                la = [k for k in c if k in ("meter", "inch")]
                lb = [k for k in c2 if k in ("meter", "inch")]
                if la and lb and la != lb and c.get(la[0]) == c2.get(lb[0]):
                    c3 = {k: v for k, v in c2.items() if k not in ("meter", "inch")}
                    c3[la[0]] = c[la[0]]
                    o3 = run_impl(lambda: mkq(regs[mode], xs, c, False).to(regs[mode].UnitsContainer(
                        {k: int(v) for k, v in c3.items()})), 0)
                    oracle(not (o3.kind == "val" and o3.vals[0] == o.vals[0]),
                           f"conv-compound-ignores-units:{'auto' if mode[0] else 'noauto'}",
                           f"{xs[0]} {uname(c)} -> {uname(c2)} = {o.vals[0]}, the same number as -> {uname(c3)}: the length unit was ignored", rp)
        # a number as the other operand (dimensionless containers reach the "number, self dimensionless" branch)
        for op in ("add", "sub", "mul", "div", "eq", "ne", "lt"):
            mode = rng.choice(modes_all)
            xs, ys, o, rp, tag = do_bin(op, c, None, mode, rng.random() < 0.25, "compound-number")
            if kind == "ambig" and op in ("mul", "div"):
                oracle(o.kind == "err" and o.err in ("XOffset", "XDim"), f"ambiguous-not-refused:{op}-number:{uname(c)}",
                       f"({uname(c)}) {PYOP[op]} number must raise, got {o}", rp)
        for e in (-1, 2):
            mode = rng.choice(modes_all)
            q = mkq(regs[mode], [F(7, 2)], c, False)
            tag = pow_tag(q, e, mode[0])
            o = run_impl(lambda: q ** e, 0)
            add(f"KPow {coq_bool(mode[0])} false {coq_q(F(7, 2))} {coq_uc(c)} ({e})%Z {tag} {coq_obs(o, 0)}",
                {"op": "pow", "a": ["7/2", uname(c)], "e": e, "mode": list(mode), "observed": repr(o)}, ("pow", uname(c), e, mode[0]), None)
            ck.count("pow:" + tag)
            if kind == "ambig":
                oracle(o.kind == "err" and o.err in ("XOffset", "XDim"), f"ambiguous-not-refused:pow:{uname(c)}",
                       f"({uname(c)}) ** {e} must raise, got {o}", {"op": "pow", "a": ["7/2", uname(c)], "e": e, "mode": list(mode)})

    # 5. string parsing with as_delta
    strs = []
    for u in offs:
        n = u.name
        strs += [n, f"{n}/meter", f"{n}*meter", f"{n}**2", f"1/{n}", f"{n}*{offs[0].name}", f"delta_{n}/second", f"kelvin*{n}",
                 f"{n}**1", f"meter/{n}", f"{n}/{n}"]
    strs += ["degC", "degF/hour", "°C", "celsius*watt", "delta_degC", "kelvin", "degR/s", "dimensionless", "degC*dimensionless"]
    for s in dict.fromkeys(strs):
        try:
            toks = t1_defs.coq_toks(t1_defs.lex(s))
        except t1_defs.T1Error:
            continue
        for asd in (True, False):
            reg = regs[(rng.random() < 0.5, asd)]
            try:
                got = ucd(reg.Quantity(F(1), s)._units)
            except Exception:  # noqa: BLE001
                got = None
            add(f"KParse {coq_bool(asd)} {toks} {coq_opt(coq_uc(got) if got is not None else None)}",
                {"op": "parse", "string": s, "default_as_delta": asd, "observed": str(got)}, ("parse", s, asd), "parse")
            m = [u for u in offs if u.name in s]
            if got is not None and len(m) == 1 and s in (m[0].name, f"{m[0].name}/meter", f"{m[0].name}**2"):
                n = m[0].name
                exp = {n: F(1)} if s == n else ({("delta_" + n if asd else n): F(1), "meter": F(-1)} if s.endswith("/meter")
                                                else {("delta_" + n if asd else n): F(2)})
                oracle(got == exp, f"parse-as-delta:{'on' if asd else 'off'}:{s}", f"Quantity(1, {s!r}) has units {got}, expected {exp}",
                       {"op": "parse", "string": s, "default_as_delta": asd})

    # 5b. a Unit OBJECT as an operand of * and /: every form must be what the spelling Quantity(1, unit) gives
    def _defloat(r):
        m = getattr(r, "_magnitude", None)
        if isinstance(m, float) and F(m).denominator in (1, 2, 4, 8):      # Unit / 2 divides 1 / 2 in floats
            return r.__class__(F(m), r._units)
        return r
    upool = [u.name for u in defaults] + [u.name for u in rng.sample(gens, 6 if not thorough else 30)] + ["meter", "second"]
    qpool = [u.name for u in defaults] + [u.name for u in rng.sample(gens, 4 if not thorough else 20)] + ["meter"]
    kinds = {u.name: u.kind for u in units}
    for mode in modes_all:
        reg, auto = regs[mode], mode[0]
        for un in upool:
            U = getattr(reg, un) if False else reg.Unit(reg.UnitsContainer({un: 1}))
            one = lambda: reg.Quantity(1, reg.UnitsContainer({un: 1}))          # noqa: E731  the spelling
            # --- Unit (op) Quantity, Quantity (op) Unit
            for qn in (qpool if not thorough else qpool):
                if kinds.get(un, "abs") != "offset" and kinds.get(qn, "abs") != "offset" and rng.random() < 0.7:
                    continue
                for form in ("unit-times-quantity", "quantity-times-unit", "unit-over-quantity", "quantity-over-unit"):
                    arr = rng.random() < 0.35
                    inplace = arr and form.startswith("quantity") and rng.random() < 0.5
                    xs = mags(2 if arr else 0)
                    if "over" in form:
                        xs = [x if x != 0 else F(1) for x in xs]
                    div = "over" in form

                    def go(spell, form=form, xs=xs, arr=arr, inplace=inplace, qn=qn):
                        q = mkq(reg, xs, qn, arr)
                        u_ = one() if spell else U
                        if form.startswith("unit"):
                            return u_ / q if "over" in form else u_ * q
                        if inplace:
                            if "over" in form:
                                q /= u_
                            else:
                                q *= u_
                            return q
                        return q / u_ if "over" in form else q * u_
                    o_u = run_impl(lambda: go(False), len(xs) if arr else 0)
                    o_q = run_impl(lambda: go(True), len(xs) if arr else 0)
                    rp = {"op": "unit-operand", "form": form, "mode": list(mode), "array": arr, "inplace": inplace,
                          "unit": un, "a": [[str(x) for x in xs], qn]}
                    ck.count("unit-operand:" + form)
                    oracle(repr(o_u) == repr(o_q), f"unit-operand:{form}:{un},{qn}",
                           f"{form} with the Unit object {un} and {[str(x) for x in xs]} {qn} ({'autoconvert' if auto else 'default'} mode"
                           f"{', array' if arr else ''}{', in place' if inplace else ''}) gives {o_u}; spelled with Quantity(1, {un}) it gives {o_q}", rp)
                    qs_ = mkq(reg, xs, qn, arr)
                    tag = muldiv_tag(one(), qs_, div) if form.startswith("unit") else muldiv_tag(qs_, one(), div)
                    for i in range(len(xs)):
                        A, B = coq_operand(F(1), {un: F(1)}), coq_operand(xs[i], {qn: F(1)})
                        if form.startswith("quantity"):
                            A, B = B, A
                        add(f"KMulDiv {coq_bool(auto)} {coq_bool(inplace)} {coq_bool(div)} {A} {B} {tag} {coq_obs(o_u, i)}",
                            dict(rp, observed=repr(o_u), branch=tag), ("unit-operand", form, un, qn, auto, arr), None)
            # --- number (op) Unit, Unit (op) number
            for form, n_ in (("number-times-unit", F(3)), ("unit-times-number", F(3, 2)), ("one-times-unit", F(1)), ("unit-times-one", F(1)),
                             ("number-over-unit", F(2)), ("number-over-unit", F(1)), ("unit-over-number", F(2)), ("unit-over-number", F(1))):
                nn = int(n_) if n_.denominator == 1 else n_

                def gon(spell, form=form, nn=nn):
                    u_ = one() if spell else U
                    if form in ("number-times-unit", "one-times-unit"):
                        return _defloat(nn * u_)
                    if form in ("unit-times-number", "unit-times-one"):
                        return _defloat(u_ * nn)
                    if form == "number-over-unit":
                        return _defloat(nn / u_)
                    return _defloat(u_ / nn)
                o_u, o_q = run_impl(lambda: gon(False), 0), run_impl(lambda: gon(True), 0)
                rp = {"op": "unit-operand", "form": form, "mode": list(mode), "unit": un, "number": str(n_)}
                ck.count("unit-operand:" + form)
                ck.case(key=("unit-operand", form, un, str(n_), mode))
                oracle(repr(o_u) == repr(o_q), f"unit-operand:{form}:{un},number",
                       f"{form} with the Unit object {un} and the number {n_} ({'autoconvert' if auto else 'default'} mode) gives {o_u}; "
                       f"spelled with Quantity(1, {un}) it gives {o_q}", rp)

    # 5c. one registry, as_delta (argument / default_as_delta attribute) switched between parses of the same strings
    parse_toggle_stream(ck, rng, thorough, lines, [x for x in dict.fromkeys(strs) if x != "°C"], add, oracle)

    # 6. logarithmic units (floats)
    log_stream(ck, rng, thorough, add, oracle)

    # 7. one registry whose mode is switched between operations
    toggle_stream(ck, rng, thorough, lines, units, comp, add, oracle)

    # ------------------------------------------------------------ differ (inside Coq)
    need_a = {"ANumZero", "ANumDimless", "ANumRefuse", "AMultSame", "AMultToOther", "AMultToSelf", "ASubOffLeft", "ASubOffRight",
              "AOffDelta", "ADeltaOff", "ARefuse"}
    need_m = {"MNumber", "MQuantity", "MRefuse"}
    hit_a = {k.split(":", 1)[1] for k in ck.dist if k.startswith("addsub:")}
    hit_m = {k.split(":", 1)[1] for k in ck.dist if k.startswith("muldiv:")}
    ck.extra["addsub_branches_hit"] = sorted(hit_a)
    ck.extra["muldiv_branches_hit"] = sorted(hit_m)
    gap = sorted((need_a - hit_a) | (need_m - hit_m))
    ck.extra["branch_coverage_gap"] = gap
    if gap:
        ck.broken.append(f"generator did not reach branches {gap}")

    t_["generated"] = time.time()
    bad = ck.coq_mismatches("c06", HEADER, cases, "ok", shard=500) if built_run else None
    t_["coq"] = time.time()
    ck.extra["timing_s"] = {"build": round(t_["start"] - ck.t0, 1), "pint_and_oracles": round(t_["generated"] - t_["start"], 1),
                            "coq_differ": round(t_["coq"] - t_["generated"], 1)}
    ck.extra["model_vs_impl_cases"] = len(cases)
    ck.extra["model_vs_impl_disagreements"] = None if bad is None else len(bad)
    ck.extra["generated_definitions"] = lines[:5] + (["..."] if len(lines) > 5 else [])
    # every failing key that a listed finding matches is recorded (no file is written for those); of the
    # remaining ones at most 3 per family (the key without its unit names) get a replay file
    seen, per_family = set(), {}
    for key, desc, rp in fails:
        if key in seen:
            continue
        seen.add(key)
        if ck._match_known(key) is None:
            fam = key.rsplit(":", 1)[0]
            per_family[fam] = per_family.get(fam, 0) + 1
            if per_family[fam] > 3:
                continue
        ck.violation(key, desc, rp)
    ck.extra["oracle_failures"] = len(fails)
    ck.extra["oracle_failures_by_family"] = per_family
    if bad:
        ck.broken.append(f"correspondence OffsetRun.c06_ok: {len(bad)} disagreements, first: {descs[bad[0]]}")
        if not fails:
            ck.violation("correspondence", "model and implementation disagree; no property oracle failed",
                         {"first_disagreement": descs[bad[0]], "coq_case": cases[bad[0]], "n": len(bad),
                          "more": [descs[i] for i in bad[1:6]], "defs": lines}, no_input=True)


# ---------------------------------------------------------------- one registry, mode switched at run time
def _uc(reg, u):
    if isinstance(u, dict):
        return reg.UnitsContainer({k: (int(F(v)) if F(v).denominator == 1 else F(v)) for k, v in u.items()})
    return u


def _num(x, exactly):
    x = F(x)
    if not exactly:
        return float(x)
    return int(x) if x.denominator == 1 else x


def perform_step(reg, st, exactly=True):
    """one step of a mode sequence on registry `reg`: sets the flag, performs the operation -> canonical outcome"""
    import operator
    reg.autoconvert_offset_to_baseunit = st["auto"]
    k = st["kind"]

    def q(spec):
        x, u = spec
        return _num(x, exactly) if u is None else reg.Quantity(_num(x, exactly), _uc(reg, u))
    try:
        if k == "conv":
            r = q(st["a"]).to(_uc(reg, st["dst"]))
        elif k == "convert":
            r = reg.convert(_num(st["a"][0], exactly), _uc(reg, st["a"][1]), _uc(reg, st["dst"]))
            r = reg.Quantity(r, _uc(reg, st["dst"]))
        elif k == "root":
            r = q(st["a"]).to_root_units()
        elif k == "pow":
            r = q(st["a"]) ** st["e"]
        else:
            f = {"add": operator.add, "sub": operator.sub, "mul": operator.mul, "div": operator.truediv,
                 "lt": operator.lt, "eq": operator.eq}[k]
            r = f(q(st["a"]), q(st["b"]))
    except Exception as e:  # noqa: BLE001
        return ("err", err_class(e))
    if hasattr(r, "_units"):
        m = r._magnitude
        return ("val", F(m) if exactly else float(m), tuple(sorted(ucd(r._units).items())))
    return ("bool", bool(r))


def toggle_stream(ck, rng, thorough, lines, units, comp, add, oracle):
    """The property speaks of the result 'in each registry mode': the mode is a plain attribute that may be
    switched at run time.  ONE registry is driven through a random sequence of operations with the flag flipped
    in between; every answer must be the answer of a fresh registry built in the mode that is current."""
    import pint

    def fresh(nit, auto):
        r = pint.UnitRegistry(cache_folder=None, autoconvert_offset_to_baseunit=auto,
                              **({"non_int_type": F} if nit else {}))
        for ln in (lines if nit else []):
            r.define(ln)
        return r

    offs = [u for u in units if u.kind == "offset"]
    dflt = [u for u in offs if not u.generated]
    some = dflt + rng.sample([u for u in offs if u.generated], min(6, len(offs) - len(dflt)))
    cont = [c for c, _ in comp]
    # conversions of an offset unit next to other units: to the same co-units with kelvin / another offset unit
    pairs = []
    for c in cont:
        hit = [k for k in c if k in {u.name for u in offs}]
        if len(hit) == 1 and c[hit[0]] == 1:
            for tgt in ("kelvin", rng.choice(some).name, "degree_Rankine"):
                d = {k: v for k, v in c.items() if k != hit[0]}
                d[tgt] = d.get(tgt, 0) + 1
                d = {k: v for k, v in d.items() if v != 0}
                pairs += [(c, d), (d, c)]
    for u in some:
        for co in ({"millimeter": F(1), "meter": F(-1)}, {"second": F(-1)}, {"meter": F(2)}):
            a = dict(co, **{u.name: F(1)})
            for tgt in ("kelvin", rng.choice(some).name):
                b = dict(co, **{tgt: F(1)})
                pairs += [(a, b), (b, a)]
    singles = [u.name for u in units if not u.generated] + [u.name for u in rng.sample([u for u in units if u.generated], 6)]
    log_pairs = [({"decibelmilliwatt": 1, "hertz": -1}, {"milliwatt": 1, "hertz": -1}),
                 ({"watt": 1, "hertz": -1}, {"decibelwatt": 1, "hertz": -1}),
                 ({"neper": 1, "meter": -1}, {"meter": -1}),
                 ({"decibelmilliwatt": 1, "hertz": -1}, {"decibelwatt": 1, "hertz": -1}),
                 ({"decibel": 1, "second": -1}, {"second": -1}),
                 ({"decibelmilliwatt": 1}, {"milliwatt": 1}), ({"octave": 1}, {}), ({"watt": 1}, {"decibelmilliwatt": 1})]

    def rnd_step(exactly):
        x = str(F(rng.randint(-300, 300), rng.choice([1, 1, 2, 5]))) if exactly else str(F(rng.randint(1, 400), 8))
        c = rng.random()
        if not exactly:
            a, b = rng.choice(log_pairs)
            if rng.random() < 0.5 and a and b:
                a, b = b, a
            if c < 0.8:
                return {"kind": rng.choice(["conv", "convert"]), "a": [x, dict(a)], "dst": dict(b)}
            if c < 0.9:
                return {"kind": "root", "a": [x, dict(a)]}
            return {"kind": rng.choice(["mul", "add", "sub"]), "a": [x, dict(a)], "b": ["2", None if rng.random() < 0.5 else dict(a)]}
        if c < 0.55:
            a, b = rng.choice(pairs)
            return {"kind": rng.choice(["conv", "convert"]), "a": [x, a], "dst": b}
        if c < 0.65:
            a, b = rng.sample(singles, 2)
            return {"kind": "conv", "a": [x, a], "dst": b}
        if c < 0.72:
            return {"kind": "root", "a": [x, rng.choice(cont + singles)]}
        if c < 0.8:
            return {"kind": "pow", "a": [x, rng.choice(cont + singles)], "e": rng.choice([-1, 2, 1, 0])}
        y = str(F(rng.randint(-300, 300), rng.choice([1, 2])))
        k = rng.choice(["add", "sub", "mul", "div", "lt", "eq"])
        if rng.random() < 0.3:
            return {"kind": k, "a": [x, rng.choice(singles)], "b": [y if rng.random() < 0.5 else "0", None]}
        a, b = (rng.choice(singles), rng.choice(singles)) if rng.random() < 0.6 else rng.choice(pairs)
        return {"kind": k, "a": [x, a], "b": [y, b]}

    def name(st):
        d = st.get("dst", (st.get("b") or [None, None])[1])
        return f"{st['kind']}:{uname(st['a'][1]) if st['a'][1] is not None else 'num'}->{uname(d) if isinstance(d, (dict, str)) else 'num'}"

    def uname(u):
        return u if isinstance(u, str) else "*".join(f"{k}^{v}" for k, v in sorted(u.items())) or "dimensionless"

    n_steps = (6000, 2500) if thorough else (1200, 500)
    for exactly, steps, label in ((True, n_steps[0], "fraction"), (False, n_steps[1], "float")):
        ref = {a: fresh(exactly, a) for a in (False, True)}     # never switched
        for start in (False, True):                              # constructed in either mode, then switched
            one = fresh(exactly, start)
            flag, hist = start, []
            for _ in range(steps // 2):
                if rng.random() < 0.45:
                    flag = not flag
                st = dict(rnd_step(exactly), auto=flag)
                if hist and rng.random() < 0.35:
                    st = dict(rng.choice(hist[-12:]), auto=flag)     # the same operation again, maybe in the other mode
                got = perform_step(one, st, exactly)
                exp = perform_step(ref[flag], st, exactly)
                hist.append(st)
                ck.case(key=("toggle", label, name(st), flag))
                ck.count("toggle:" + label)
                if exactly and st["kind"] in ("conv", "convert") and got[0] != "bool":
                    o = Out("err", err=got[1]) if got[0] == "err" else Out("val", [got[1]], dict(got[2]))
                    add(f"KConv {coq_bool(flag)} false {coq_q(F(st['a'][0]))} {coq_uc({k: F(v) for k, v in (st['a'][1] if isinstance(st['a'][1], dict) else {st['a'][1]: 1}).items()})} "
                        f"{coq_uc({k: F(v) for k, v in (st['dst'] if isinstance(st['dst'], dict) else {st['dst']: 1}).items()})} {coq_obsn(o, 0)}",
                        {"op": "mode-sequence-step", "step": st, "observed": repr(got)}, ("toggle-k", name(st), flag), "toggle:model")
                if got == exp:
                    continue
                # shrink: the same operation in the other mode first, else the shortest suffix of the history
                seq = None
                for cand in ([dict(st, auto=not flag), st], [dict(st, auto=not flag)] * 2 + [st]):
                    r = fresh(exactly, start)
                    if [perform_step(r, c, exactly) for c in cand][-1] == got:
                        seq = cand
                        break
                if seq is None:
                    for n in (2, 4, 8, 16, 32, len(hist)):
                        r = fresh(exactly, start)
                        if [perform_step(r, c, exactly) for c in hist[-n:]][-1] == got:
                            seq = hist[-n:]
                            break
                oracle(False, f"mode-toggle:now-{'autoconvert' if flag else 'default'}:{name(st)}",
                       f"one registry (built with autoconvert={start}), mode switched at run time: step {st} gives {got}, "
                       f"a fresh registry in that mode gives {exp}; reproducing sequence has {len(seq or hist)} steps",
                       {"op": "mode-sequence", "numeric": label, "constructed_with_autoconvert": start, "steps": seq or hist,
                        "expected_last": repr(exp), "observed_last": repr(got)})


# ---------------------------------------------------------------- one registry, as_delta switched between parses
def parse_step(reg, st):
    """one step of a parse sequence: how = 'arg' (parse_units(s, as_delta=X)), 'attr-parse' / 'attr-quantity' /
    'attr-root' (set default_as_delta = X, then parse_units(s) / Quantity(10, s)._units / Quantity(10, s).to_root_units())"""
    try:
        if st["how"] == "arg":
            return ("units", tuple(sorted(ucd(reg.parse_units(st["s"], as_delta=st["delta"])._units).items())))
        reg.default_as_delta = st["delta"]
        if st["how"] == "attr-parse":
            return ("units", tuple(sorted(ucd(reg.parse_units(st["s"])._units).items())))
        q = reg.Quantity(F(10), st["s"])
        if st["how"] == "attr-quantity":
            return ("units", tuple(sorted(ucd(q._units).items())))
        r = q.to_root_units()
        return ("val", F(r._magnitude), tuple(sorted(ucd(r._units).items())))
    except Exception as e:  # noqa: BLE001
        return ("err", err_class(e))


def parse_toggle_stream(ck, rng, thorough, lines, strs, add, oracle):
    """The delta reading of a unit expression depends on the as_delta in force for THAT parse (argument or
    registry attribute), never on how the same string was parsed before: one registry parses random strings with
    as_delta switched between parses; every answer must be the one of a registry that only ever used that value."""
    import pint

    def fresh(delta, auto):
        r = pint.UnitRegistry(non_int_type=F, cache_folder=None, default_as_delta=delta, autoconvert_offset_to_baseunit=auto)
        for ln in lines:
            r.define(ln)
        return r
    n = 3000 if thorough else 700
    for auto in (False, True):
        ref = {d: fresh(d, auto) for d in (True, False)}       # each only ever parses in its own mode
        for start in (True, False):
            one, hist = fresh(start, auto), []
            for _ in range(n // 4):
                st = {"s": rng.choice(strs), "delta": rng.random() < 0.5,
                      "how": rng.choice(["arg", "attr-parse", "attr-quantity", "attr-root"])}
                if hist and rng.random() < 0.5:
                    st = dict(st, s=rng.choice(hist[-6:])["s"])      # the same string again, maybe in the other reading
                got = parse_step(one, st)
                exp = parse_step(ref[st["delta"]], dict(st, how="attr-parse" if st["how"] == "arg" else st["how"]))
                hist.append(st)
                ck.case(key=("parse-toggle", st["s"], st["delta"], st["how"], auto))
                ck.count("parse-toggle")
                if got[0] == "units":
                    try:
                        toks = t1_defs.coq_toks(t1_defs.lex(st["s"]))
                        add(f"KParse {coq_bool(st['delta'])} {toks} {coq_opt(coq_uc(dict(got[1])))}",
                            {"op": "parse-sequence-step", "step": st, "observed": repr(got)}, ("parse-toggle-k", st["s"], st["delta"]), "parse-toggle:model")
                    except t1_defs.T1Error:
                        pass
                if got == exp:
                    continue
                seq = None
                for cand in ([dict(st, delta=not st["delta"], how=h), st] for h in ("arg", "attr-parse", "attr-quantity")):
                    r = fresh(start, auto)
                    if [parse_step(r, c) for c in cand][-1] == got:
                        seq = cand
                        break
                if seq is None:
                    for k in (2, 4, 8, 16, len(hist)):
                        r = fresh(start, auto)
                        if [parse_step(r, c) for c in hist[-k:]][-1] == got:
                            seq = hist[-k:]
                            break
                oracle(False, f"parse-toggle:as_delta-{'on' if st['delta'] else 'off'}:{st['how']}:{st['s']}",
                       f"one registry (default_as_delta={start} at construction): {st['how']} of {st['s']!r} with as_delta={st['delta']} gives {got}; "
                       f"a registry that only ever used as_delta={st['delta']} gives {exp}; reproducing sequence: {seq or hist}",
                       {"op": "parse-sequence", "constructed_with_default_as_delta": start, "autoconvert": auto, "steps": seq or hist,
                        "expected_last": repr(exp), "observed_last": repr(got)})


# ---------------------------------------------------------------- logarithmic units
def read_log_units():
    """(name, scale, logbase, logfactor, reference unit or None) from the definition file, read by T1 (no pint)"""
    parsed = t1_defs.parse_file(REPO / "pint" / "default_en.txt")
    out = []
    for d in parsed["defs"]:
        if d.get("kind") != "unit":
            continue
        mods = dict((k, v) for k, v in d["mods"])
        if "logbase" not in mods:
            continue
        def num(toks):
            if len(toks) != 1 or toks[0][0] != "num":
                raise t1_defs.T1Error(f"log unit {d['fields'][0]}: modifier is not a plain number")
            return F(toks[0][1])
        rhs = d["rhs"]
        if len(rhs) == 1 and rhs[0][0] == "num":
            scale, ref = F(rhs[0][1]), None
        elif len(rhs) == 1 and rhs[0][0] == "name":
            scale, ref = F(1), rhs[0][1]
        elif len(rhs) == 2 and rhs[0][0] == "num" and rhs[1][0] == "name":
            scale, ref = F(rhs[0][1]), rhs[1][1]
        else:
            raise t1_defs.T1Error(f"log unit {d['fields'][0]}: unexpected reference expression")
        out.append((d["fields"][0], scale, num(mods["logbase"]), num(mods["logfactor"]), ref))
    return out


def log_stream(ck, rng, thorough, add, oracle):
    import numpy as np
    import pint
    D = decimal.Decimal
    ctx = decimal.Context(prec=60)
    logs = read_log_units()
    ck.extra["log_units"] = [x[0] for x in logs]
    fr = pint.UnitRegistry(non_int_type=F, cache_folder=None)
    lin_by_ref = {None: ["dimensionless", "percent"], "watt": ["watt", "milliwatt", "kilowatt", "horsepower"]}
    fregs = {auto: pint.UnitRegistry(cache_folder=None, autoconvert_offset_to_baseunit=auto) for auto in (False, True)}

    def dec(fr_):
        return ctx.divide(D(fr_.numerator), D(fr_.denominator))

    def to_lin(p, x):      # scale * logbase ** (x / logfactor)
        _, s, b, f, _ = p
        return ctx.multiply(dec(s), ctx.power(dec(b), ctx.divide(x, dec(f))))

    def from_lin(p, v):    # logfactor * ln(v / scale) / ln(logbase)
        _, s, b, f, _ = p
        return ctx.divide(ctx.multiply(dec(f), ctx.ln(ctx.divide(v, dec(s)))), ctx.ln(dec(b)))

    def cpar(p):
        return f"(PLog {coq_q(p[1])} {coq_q(p[2])} {coq_q(p[3])})"

    names = [(p[0], p) for p in logs]
    for ref, lins in lin_by_ref.items():
        names += [(n, None) for n in lins if any(p[4] == ref for p in logs)]
    worst = 0.0
    reps = 6 if thorough else 2
    for (na, pa), (nb, pb) in itertools.product(names, names):
        if pa is None and pb is None:
            continue
        ca = fr.get_name(na) if na != "dimensionless" else None
        cb = fr.get_name(nb) if nb != "dimensionless" else None
        ua = {ca: F(1)} if ca else {}
        ub = {cb: F(1)} if cb else {}
        # the plan the definitions prescribe
        ra = ({pa[4]: F(1)} if pa[4] else {}) if pa else ua
        rb = ({pb[4]: F(1)} if pb[4] else {}) if pb else ub
        ra = {fr.get_name(k): v for k, v in ra.items()}
        rb = {fr.get_name(k): v for k, v in rb.items()}
        try:
            fac = fr.convert(F(1), fr.UnitsContainer({k: 1 for k in ra}), fr.UnitsContainer({k: 1 for k in rb}))
            fac = F(fac)
        except pint.errors.DimensionalityError:
            fac = None
        for auto in (False, True):
            if na == nb:
                plan = "(PVal None (mkq 1 1) None)"
            elif fac is None:
                plan = "(PFail XDim)"
            else:
                plan = f"(PVal {coq_opt(cpar(pa) if pa else None)} {coq_q(fac)} {coq_opt(cpar(pb) if pb else None)})"
            add(f"KPlan {coq_bool(auto)} {coq_uc(ua)} {coq_uc(ub)} {plan}", {"op": "log-plan", "a": na, "b": nb, "auto": auto},
                ("logplan", na, nb, auto), "log:plan")
            reg = fregs[auto]
            for _ in range(reps):
                arr = rng.random() < 0.4
                xs = [float(rng.randint(-240, 240)) / 8 if pa else float(rng.randint(1, 4000)) / 16 for _ in range(2 if arr else 1)]
                rp = {"op": "log-conv", "a": [xs, na], "b": nb, "auto": auto, "array": arr}
                try:
                    if arr:
                        q = reg.Quantity(np.array(xs), na)
                        q.ito(nb)
                        got = [float(v) for v in q.magnitude]
                    else:
                        got = [float(reg.Quantity(xs[0], na).to(nb).magnitude)]
                    err = None
                except Exception as e:  # noqa: BLE001
                    got, err = None, err_class(e)
                ck.case(key=("logconv", na, nb, auto, arr))
                ck.count("log:conv")
                if fac is None:
                    oracle(err == "XDim", f"log-conv-dim:{na},{nb}", f"{na} -> {nb} must raise DimensionalityError, got {got or err}", rp)
                    continue
                exp = []
                for x in xs:
                    v = to_lin(pa, D(x)) if pa else D(x)
                    v = ctx.multiply(v, dec(fac))
                    exp.append(from_lin(pb, v) if pb else v)
                good = got is not None and all(
                    abs(D(g) - e) <= D("1e-12") * max(D(1), abs(e)) for g, e in zip(got, exp))
                if got is not None:
                    worst = max([worst] + [float(abs(D(g) - e) / max(D(1), abs(e))) for g, e in zip(got, exp)])
                oracle(good, f"log-conv-value:{na},{nb}", f"{xs} {na} -> {nb}: expected {[float(e) for e in exp]}, got {got or err}", rp)
                if got is not None and not arr:
                    back = float(reg.Quantity(got[0], nb).to(na).magnitude)
                    oracle(abs(back - xs[0]) <= 1e-9 * max(1.0, abs(xs[0])), f"log-conv-inverse:{na},{nb}",
                           f"{xs[0]} {na} -> {nb} -> {na} = {back}", rp)
    ck.extra["log_worst_rel_error"] = worst
    # == / != with a logarithmic operand take their value from the logarithmic map — in particular when both
    # magnitudes are exactly zero (0 dBm is 1 mW, 0 dB is the number 1): scalar and array, both modes
    import numpy as np

    def lin_factor(pa, na, pb, nb):
        ra = ({pa[4]: 1} if pa[4] else {}) if pa else ({fr.get_name(na): 1} if na != "dimensionless" else {})
        rb = ({pb[4]: 1} if pb[4] else {}) if pb else ({fr.get_name(nb): 1} if nb != "dimensionless" else {})
        try:
            return F(fr.convert(F(1), fr.UnitsContainer({fr.get_name(k): 1 for k in ra}), fr.UnitsContainer({fr.get_name(k): 1 for k in rb})))
        except pint.errors.DimensionalityError:
            return None
    for (na, pa), (nb, pb) in itertools.product(names, names):
        if (pa is None and pb is None) or na == nb:
            continue
        fac = lin_factor(pa, na, pb, nb)
        for x, y in ((0.0, 0.0), (0.0, 1.0), (float(rng.randint(1, 40)), 0.0)):
            if pa is None and x < 0:
                continue
            # a's value expressed in b's unit, by the defining maps (60 digits)
            if fac is None:
                conv = None
            elif pa is None and pb is not None and x == 0:
                conv = "-inf"           # log of zero: certainly not equal to a finite y
            else:
                v = ctx.multiply(to_lin(pa, D(x)) if pa else D(x), dec(fac))
                conv = from_lin(pb, v) if pb else v
            if conv is None or conv == "-inf":
                expect = False
            elif abs(conv - D(y)) > D("1e-9") * max(D(1), abs(conv)):
                expect = False
            elif conv == D(y) and x == 0:
                expect = True           # e.g. 0 dB == 0 Np: log(1) = 0 exactly
            else:
                continue                # equality up to rounding: no claim on a float comparison
            for auto in (False, True):
                reg = fregs[auto]
                for arr in (False, True):
                    for op in ("eq", "ne"):
                        qa = reg.Quantity(np.array([x, x]) if arr else x, na)
                        qb = reg.Quantity(np.array([y, y]) if arr else y, nb)
                        try:
                            import warnings
                            with warnings.catch_warnings():
                                warnings.simplefilter("ignore")
                                r = (qa == qb) if op == "eq" else (qa != qb)
                            got = [bool(v) for v in (r if arr else [r])]
                        except Exception as e:  # noqa: BLE001
                            got = "raises " + type(e).__name__
                        want = [expect != (op == "ne")] * (2 if arr else 1)
                        ck.case(key=("logeq", na, nb, x, y, auto, arr, op))
                        ck.count("log:eq")
                        zz = ":both-zero" if x == 0 and y == 0 else ""
                        oracle(got == want, f"log-{op}{zz}:{na},{nb}",
                               f"{x} {na} {'==' if op == 'eq' else '!='} {y} {nb} ({'array' if arr else 'scalar'}, autoconvert={auto}): "
                               f"{x} {na} is {('not convertible' if conv is None else conv if conv == '-inf' else float(conv))} {nb}, "
                               f"expected {want}, got {got}",
                               {"op": "log-" + op, "a": [x, na], "b": [y, nb], "auto": auto, "array": arr})

    # arithmetic on log quantities (integer-valued floats: + and - are exact)
    for name, p in [(p[0], p) for p in logs]:
        cn = fr.get_name(name)
        for auto in (False, True):
            reg = fregs[auto]
            for op in ("add", "sub", "mul"):
                x, y = float(rng.randint(-50, 50)), float(rng.randint(-50, 50))
                qa, qb = reg.Quantity(x, cn), reg.Quantity(y, cn)
                if op == "mul":
                    tag = muldiv_tag(qa, 2, False)
                    o = run_impl(lambda: _exactify(qa * 2), 0)
                    term = (f"KMulDiv {coq_bool(auto)} false false (OQty {coq_q(F(x))} {coq_uc({cn: F(1)})}) (ONum {coq_q(F(2))}) "
                            f"{tag} {coq_obs(o, 0)}")
                else:
                    tag = addsub_tag(qa, qb, op == "sub")
                    o = run_impl(lambda: _exactify(qa + qb if op == "add" else qa - qb), 0)
                    term = (f"KAddSub {coq_bool(auto)} false {coq_bool(op == 'sub')} (OQty {coq_q(F(x))} {coq_uc({cn: F(1)})}) "
                            f"(OQty {coq_q(F(y))} {coq_uc({cn: F(1)})}) {tag} {coq_obs(o, 0)}")
                rp = {"op": op, "a": [x, cn], "b": [y, cn] if op != "mul" else 2, "auto": auto}
                add(term, dict(rp, observed=repr(o)), ("logarith", cn, op, auto), "log:arith")
                if op in ("add", "sub"):
                    undefined = o.kind == "val" and any(k not in reg._units for k in o.units)
                    oracle(not undefined, f"log-arith-undefined-unit:{op}:{cn}",
                           f"{x} {cn} {'+' if op == 'add' else '-'} {y} {cn} = {o}: the result carries a unit that is not defined", rp)


def _exactify(q):
    """float magnitudes with integer values -> exact, so that the generic canonicaliser accepts them"""
    m = q._magnitude
    if isinstance(m, float) and m == int(m):
        return q.__class__(int(m), q._units)
    return q


# ---------------------------------------------------------------- replay
def replay(ck, path):
    import numpy as np
    import pint
    doc = json.loads(open(path).read())
    rp = doc["replay"]
    print(json.dumps(doc, indent=1))
    if rp.get("op") == "unit-operand":
        mode = rp["mode"]
        reg = pint.UnitRegistry(non_int_type=F, cache_folder=None, autoconvert_offset_to_baseunit=mode[0], default_as_delta=mode[1])
        for ln in rp.get("defs", []):
            reg.define(ln)
        for spell in (False, True):
            u_ = reg.Quantity(1, reg.UnitsContainer({rp["unit"]: 1})) if spell else reg.Unit(reg.UnitsContainer({rp["unit"]: 1}))
            if "a" in rp:
                xs = [F(x) for x in rp["a"][0]]
                other = reg.Quantity(np.array(xs, dtype=object) if rp.get("array") else xs[0], rp["a"][1])
            else:
                other = F(rp["number"])
                other = int(other) if other.denominator == 1 else other
            f = rp["form"]
            try:
                left_unit = f.startswith("unit")
                a, b = (u_, other) if left_unit else (other, u_)
                r = a / b if "over" in f else a * b
                print("Quantity(1, unit) spelling:" if spell else "Unit object:", getattr(r, "_magnitude", r), dict(getattr(r, "_units", {})))
            except Exception as e:  # noqa: BLE001
                print("Quantity(1, unit) spelling:" if spell else "Unit object:", "raises", type(e).__name__)
        return 0
    if rp.get("op") == "parse-sequence":
        def mk():
            r = pint.UnitRegistry(non_int_type=F, cache_folder=None, default_as_delta=rp["constructed_with_default_as_delta"],
                                  autoconvert_offset_to_baseunit=rp["autoconvert"])
            for ln in rp.get("defs", []):
                r.define(ln)
            return r
        reg = mk()
        for st in rp["steps"]:
            print(st, ":", parse_step(reg, st))
        last = rp["steps"][-1]
        print("a fresh registry, this step alone:", parse_step(mk(), last))
        return 0
    if rp.get("op") == "mode-sequence":
        exactly = rp["numeric"] == "fraction"
        reg = pint.UnitRegistry(cache_folder=None, autoconvert_offset_to_baseunit=rp["constructed_with_autoconvert"],
                                **({"non_int_type": F} if exactly else {}))
        for ln in rp.get("defs", []):
            reg.define(ln)
        for st in rp["steps"]:
            print("autoconvert =", st["auto"], st["kind"], st["a"], "->", st.get("dst", st.get("b", st.get("e"))), ":",
                  perform_step(reg, st, exactly))
        fresh = pint.UnitRegistry(cache_folder=None, autoconvert_offset_to_baseunit=rp["steps"][-1]["auto"],
                                  **({"non_int_type": F} if exactly else {}))
        for ln in rp.get("defs", []):
            fresh.define(ln)
        print("a fresh registry in the last mode:", perform_step(fresh, rp["steps"][-1], exactly))
        return 0
    if "op" not in rp or rp["op"] in ("path", "parse", "log-plan", "log-conv", "log-eq", "log-ne", "predicates", "mode-sequence-step", "parse-sequence-step"):
        return 0
    mode = rp.get("mode", [False, True])
    reg = pint.UnitRegistry(non_int_type=F, cache_folder=None, autoconvert_offset_to_baseunit=mode[0], default_as_delta=mode[1])
    for ln in rp.get("defs", []):
        reg.define(ln)

    def q(spec):
        if not isinstance(spec, list):
            return spec
        xs, unit = spec
        xs = [F(x) for x in (xs if isinstance(xs, list) else [xs])]
        if unit is None:
            return xs[0]
        if isinstance(unit, dict):
            unit = reg.UnitsContainer({k: F(v) for k, v in unit.items()})
        return reg.Quantity(np.array(xs, dtype=object) if rp.get("array") else xs[0], unit)
    a = q(rp.get("a"))
    op = rp["op"]
    try:
        if op in ("to", "ito"):
            r = a.to(rp["b"] if isinstance(rp["b"], str) else reg.UnitsContainer({k: F(v) for k, v in rp["b"].items()}))
        elif op == "pow":
            r = a ** rp["e"]
        elif op == "neg":
            r = -a
        elif op == "abs":
            r = abs(a)
        elif op == "to_root_units":
            r = a.to_root_units()
        else:
            b = q(rp.get("b"))
            import operator
            r = {"add": operator.add, "sub": operator.sub, "mul": operator.mul, "div": operator.truediv, "lt": operator.lt,
                 "le": operator.le, "gt": operator.gt, "ge": operator.ge, "eq": operator.eq, "ne": operator.ne}[op](a, b)
        print("observed now:", getattr(r, "_magnitude", r), dict(getattr(r, "_units", {})))
    except Exception as e:  # noqa: BLE001
        print("observed now: raises", type(e).__name__)
    return 0
