"""C07 — string expressions evaluate like ordinary arithmetic on quantities.

Theorems: coq/Properties/C07.v (parser round trip `parse_render` for every expression and
parenthesis style, corollaries, `eval_is_python`, `no_value_on_unbalanced/dangling` for all
token lists, F16 refuted/guarded), ties T2 (Gen/EvalTables.v).

Correspondence K
  token level : pint's build_eval_tree(tokens).to_string() / exception class against the
                model's show_tree (build ...) inside Coq, for (i) ALL token sequences up to a
                length bound over a small alphabet, (ii) all expression trees up to a leaf
                bound in every style (the Python renderer itself is compared with the Spec's
                `render`), (iii) random larger trees, (iv) malformed streams;
  string level: rendered strings (whitespace variants, word forms, superscripts, ^ / **)
                through parse_expression / Quantity(str) / ParserHelper.from_string in the
                float, Decimal and Fraction registries against Python's own evaluation of the
                expression (the property's oracle);
  no-execution: a sys.addaudithook monitor during a fuzz stream (a test, labelled so).
"""
import itertools
import json
import random
import re
import sys
import tokenize
import token as tokenlib
from decimal import Decimal
from fractions import Fraction

from .common import coq_list, coq_str

HEADER = ("From PintV Require Import Model.UC Model.Eval Model.Grammar Model.EvalRun Gen.EvalTables.\n"
          "Open Scope string_scope.\n"
          "Definition n2 := TNum \"2\". Definition n3 := TNum \"3\". Definition nm := TName \"m\".\n"
          "Definition ns := TName \"s\". Definition o (s : string) := TOp s.\n"
          "Definition B := Grammar.Bin.\n")
# the two switches of Eval.go_p come from the translator (Gen/EvalTables.v): the model mirrors the
# shape of _build_eval_tree that the working tree has
RUN = ("(c07_ok EvalTables.paren_juxt_any_priority EvalTables.pow_exempt_any_priority "
       "EvalTables.op_priority)")


# ----------------------------------------------------------------------------- expression trees
# ("num", text) ("name", text) ("neg", x) ("pos", x) ("bin", op, l, r) ("par", x)
BOPS = ["+", "-", "*", "/", "//", "%", "**", "^", ""]
OPNAME = {"+": "OAdd", "-": "OSub", "*": "OMul", "/": "ODiv", "//": "OFloor", "%": "OMod",
          "**": "OPow", "^": "OCaret", "": "OJuxt"}
OLVL = {"+": 0, "-": 0, "*": 1, "/": 1, "//": 1, "%": 1, "": 1, "**": 3, "^": 3}


def is_pow(op):
    return op in ("**", "^")


def lvl(e):
    k = e[0]
    if k in ("num", "name", "par"):
        return 4
    if k in ("neg", "pos"):
        return 2
    return OLVL[e[1]]


def legal(e):
    k = e[0]
    if k in ("num", "name"):
        return True
    if k in ("neg", "pos", "par"):
        return legal(e[1])
    _, op, l, r = e
    if not (legal(l) and legal(r)):
        return False
    if op == "":
        return r[0] in ("num", "name") or (r[0] == "bin" and is_pow(r[1]) and r[2][0] in ("num", "name"))
    return True


def needs_par(pos, op, e):
    if pos == "un":
        return lvl(e) < 2
    if pos == "left":
        return lvl(e) < 4 if is_pow(op) else lvl(e) < OLVL[op]
    return lvl(e) < 2 if is_pow(op) else lvl(e) <= OLVL[op]


def parenthesize(style, e):
    """mirror of Grammar.parenthesize (compared with it case by case inside Coq)"""
    def wrap(pos, op, orig):
        inner = parenthesize(style, orig)
        redundant = style == "full" and not (pos == "right" and op == "") and lvl(orig) < 4
        return ("par", inner) if needs_par(pos, op, orig) or redundant else inner
    k = e[0]
    if k in ("num", "name"):
        return e
    if k in ("neg", "pos"):
        return (k, wrap("un", None, e[1]))
    if k == "par":
        return ("par", parenthesize(style, e[1]))
    _, op, l, r = e
    return ("bin", op, wrap("left", op, l), wrap("right", op, r))


def strip(e):
    k = e[0]
    if k in ("num", "name"):
        return e
    if k in ("neg", "pos"):
        return (k, strip(e[1]))
    if k == "par":
        return strip(e[1])
    return ("bin", e[1], strip(e[2]), strip(e[3]))


def render_cst(e):
    """token list [(kind, text)] of a concrete tree"""
    k = e[0]
    if k in ("num", "name"):
        return [(k, e[1])]
    if k == "neg":
        return [("op", "-")] + render_cst(e[1])
    if k == "pos":
        return [("op", "+")] + render_cst(e[1])
    if k == "par":
        return [("op", "(")] + render_cst(e[1]) + [("op", ")")]
    _, op, l, r = e
    return render_cst(l) + ([("op", op)] if op else []) + render_cst(r)


def show(e):
    """EvalTreeNode.to_string() of the tree Python's grammar gives"""
    k = e[0]
    if k in ("num", "name"):
        return e[1]
    if k == "neg":
        return "(- %s)" % show(e[1])
    if k == "pos":
        return "(+ %s)" % show(e[1])
    if k == "par":
        return show(e[1])
    _, op, l, r = e
    return "(%s %s %s)" % (show(l), op, show(r)) if op else "(%s %s)" % (show(l), show(r))


def leaves(e):
    k = e[0]
    if k in ("num", "name"):
        return 1
    if k in ("neg", "pos", "par"):
        return leaves(e[1])
    return leaves(e[2]) + leaves(e[3])


def coq_expr(e):
    k = e[0]
    if k == "num":
        return f"(Num {coq_str(e[1])})"
    if k == "name":
        return f"(Name {coq_str(e[1])})"
    if k == "neg":
        return f"(Neg {coq_expr(e[1])})"
    if k == "pos":
        return f"(Pos {coq_expr(e[1])})"
    if k == "par":
        return f"(Par {coq_expr(e[1])})"
    return f"(B {OPNAME[e[1]]} {coq_expr(e[2])} {coq_expr(e[3])})"


SHORT = {("num", "2"): "n2", ("num", "3"): "n3", ("name", "m"): "nm", ("name", "s"): "ns"}


def coq_tok(t):
    if t in SHORT:
        return SHORT[t]
    k, s = t
    if k == "num":
        return f"(TNum {coq_str(s)})"
    if k == "name":
        return f"(TName {coq_str(s)})"
    if k == "op":
        return f"(o {coq_str(s)})"
    if k == "other":
        return "TOther"
    return "TEnd"


TYPES = {"num": tokenlib.NUMBER, "name": tokenlib.NAME, "op": tokenlib.OP, "other": tokenlib.NEWLINE,
         "end": tokenlib.ENDMARKER}


def to_tokeninfo(toks):
    return [tokenize.TokenInfo(TYPES[k], s, (1, 0), (1, 0), "") for k, s in toks]


def pint_build(toks):
    """('tree', string) or ('err', class) — classes by exception type only"""
    from pint.errors import DefinitionSyntaxError
    from pint.pint_eval import build_eval_tree
    try:
        return ("tree", build_eval_tree(to_tokeninfo(toks)).to_string())
    except DefinitionSyntaxError:
        return ("err", "CSyntax")
    except AssertionError:
        return ("err", "CAssert")
    except IndexError:
        return ("err", "CIndex")
    except Exception:
        return ("err", "COtherErr")


def coq_bres(r):
    return f"(BTree {coq_str(r[1])})" if r[0] == "tree" else f"(BErr {r[1]})"


END = [("other", ""), ("end", "")]


def all_trees(nleaves, leafset, ops, unary):
    """every Par-free tree with exactly nleaves leaves; `unary` = decorations tried at each node"""
    memo = {}

    def go(n):
        if n in memo:
            return memo[n]
        if n == 1:
            core = list(leafset)
        else:
            core = [("bin", op, l, r) for k in range(1, n) for l in go(k) for r in go(n - k) for op in ops]
        out = []
        for c in core:
            out.append(c)
            for u in unary:
                out.append((u, c))
        memo[n] = out
        return out
    return go(nleaves)


def random_tree(rng, n, leafpool, ops, p_un=0.15, p_par=0.0):
    if n == 1:
        e = rng.choice(leafpool)
    else:
        k = rng.randint(1, n - 1)
        op = rng.choice(ops)
        l = random_tree(rng, k, leafpool, ops, p_un, p_par)
        r = random_tree(rng, n - k, leafpool, ops, p_un, p_par)
        if op == "" and not legal(("bin", "", ("num", "1"), r)):
            # make the juxtaposition lexically legal most of the time
            if rng.random() < 0.85:
                op = rng.choice([o for o in ops if o != ""] or ["*"])
        e = ("bin", op, l, r)
    if rng.random() < p_un:
        e = (rng.choice(["neg", "neg", "pos"]), e)
    if rng.random() < p_par:
        e = ("par", e)
    return e


def has_paren_juxt(toks):
    """an operand token (NUMBER, NAME or ')') immediately followed by '(' — the F16 region"""
    sig = [t for t in toks if t[0] in ("num", "name", "op")]
    for a, b in zip(sig, sig[1:]):
        if b == ("op", "(") and (a[0] in ("num", "name") or a == ("op", ")")):
            return True
    return False


def toks_text(toks):
    return " ".join(s for k, s in toks if k in ("num", "name", "op"))


# ----------------------------------------------------------------------------- token level K
def token_level(ck, rng, thorough):
    cases, meta = [], []      # coq terms, replay info

    def add(term, info):
        cases.append(term)
        meta.append(info)

    oracle_fail = []

    # (i) exhaustive token sequences
    alpha_big = [("num", "2"), ("name", "m"), ("op", "+"), ("op", "-"), ("op", "*"), ("op", "**"),
                 ("op", "("), ("op", ")"), ("other", "")]
    alpha_small = [("num", "2"), ("name", "m"), ("op", "-"), ("op", "/"), ("op", "**"), ("op", "("), ("op", ")")]
    alpha_small = alpha_small[1:]          # 6 tokens: m - / ** ( )
    plans = [(alpha_big, 5 if thorough else 4), (alpha_small, 6 if thorough else 5)]
    seen = set()
    n_seq = 0
    for alpha, maxlen in plans:
        for ln in range(0, maxlen + 1):
            for seq in itertools.product(alpha, repeat=ln):
                if seq in seen:
                    continue
                seen.add(seq)
                toks = list(seq) + [("end", "")]
                r = pint_build(toks)
                add(f"KBuild {coq_list([coq_tok(t) for t in toks])} {coq_bres(r)}",
                    {"stream": "exhaustive-tokens", "tokens": toks, "pint": r})
                n_seq += 1
                ck.case(key=("seq", seq), nontrivial=ln > 0,
                        sample={"tokens": toks_text(toks), "pint": r[1]} if r[0] == "tree" and ln == 5 and len(ck.samples) < 2 else None)
                ck.count("tokens:" + ("tree" if r[0] == "tree" else r[1]))
                # oracles on the real builder, for every token list
                body = [t for t in seq]
                depth, bad_bal = 0, False
                for t in body:
                    if t == ("op", "("):
                        depth += 1
                    elif t == ("op", ")"):
                        depth -= 1
                        if depth < 0:
                            bad_bal = True
                if depth != 0:
                    bad_bal = True
                sig = [t for t in body if t[0] != "other"]
                dangling = bool(sig) and sig[-1][0] == "op" and sig[-1][1] != ")"
                if r[0] == "tree" and bad_bal:
                    oracle_fail.append(("unbalanced-value:" + toks_text(toks),
                                        f"unbalanced parentheses yield a value: tokens '{toks_text(toks)}' -> {r[1]}",
                                        {"tokens": toks, "pint": r}))
                if r[0] == "tree" and dangling:
                    oracle_fail.append(("dangling-value:" + toks_text(toks),
                                        f"dangling operator yields a value: tokens '{toks_text(toks)}' -> {r[1]}",
                                        {"tokens": toks, "pint": r}))
    ck.count("exhaustive token sequences", n_seq)

    # (ii) all trees up to a leaf bound, every style; (iii) random larger trees
    leafset = [("num", "2"), ("name", "m")]
    trees = []
    for n in (1, 2, 3):
        trees += all_trees(n, leafset, BOPS, [])
    trees += all_trees(2, leafset, BOPS, ["neg", "pos"])
    if thorough:
        trees += all_trees(3, leafset, BOPS, ["neg"])
        trees += rng.sample(all_trees(4, leafset, BOPS, []), 20000)
        trees += rng.sample(all_trees(3, leafset, BOPS, ["neg", "pos"]), 4000)
    else:
        trees += rng.sample(all_trees(3, leafset, BOPS, ["neg"]), 1500)
        trees += rng.sample(all_trees(4, leafset, BOPS, []), 1500)
    n_small = len(trees)
    leafpool = [("num", "2"), ("num", "3"), ("name", "m"), ("name", "s"), ("num", "10"), ("name", "kg"), ("num", "2.5")]
    for _ in range(4000 if thorough else 600):
        trees.append(random_tree(rng, rng.randint(5, 25), leafpool, BOPS, p_un=0.12, p_par=rng.choice([0.0, 0.1])))
    n_legal = n_illegal = 0
    for idx, e in enumerate(trees):
        stream = "all-trees" if idx < n_small else "random-trees"
        if not legal(e):
            n_illegal += 1
            if idx % 7 == 0:
                add(f"KLegal {coq_expr(e)} false", {"stream": stream, "tree": e, "legal": False})
            continue
        n_legal += 1
        for style in ("min", "full"):
            cst = parenthesize(style, e)
            toks = render_cst(cst)
            want = show(strip(e))
            r = pint_build(toks + END)
            add(f"KTree {'SMin' if style == 'min' else 'SFull'} {coq_expr(e)} "
                f"{coq_list([coq_tok(t) for t in toks])} {coq_str(want)} {coq_bres(r)}",
                {"stream": stream, "tree": e, "style": style, "tokens": toks + END, "pint": r})
            ck.case(key=("tree", style, show(e)), nontrivial=leaves(e) > 1,
                    sample={"expr": toks_text(toks), "pint_tree": r[1]} if leaves(e) >= 6 and len(ck.samples) < 5 else None)
            ck.count(f"{stream}:leaves={min(leaves(e), 5)}{'+' if leaves(e) >= 5 else ''}")
            if r != ("tree", want):
                oracle_fail.append(("precedence:" + toks_text(toks),
                                    f"'{toks_text(toks)}' groups as {r[1]}, Python's grammar gives {want}",
                                    {"tokens": toks, "pint": r, "expected_tree": want}))
    ck.count("legal trees", n_legal)
    ck.count("trees with a lexically impossible juxtaposition (skipped)", n_illegal)

    # F16 region: juxtaposition directly before a parenthesised group
    f16 = []
    for l in [("num", "2"), ("bin", "/", ("num", "6"), ("num", "2")), ("bin", "**", ("num", "2"), ("par", ("num", "3"))),
              ("bin", "-", ("num", "1"), ("name", "m")), ("neg", ("name", "m")), ("bin", "*", ("name", "m"), ("name", "s")),
              ("par", ("num", "2"))]:
        for r_ in [("bin", "+", ("num", "1"), ("num", "2")), ("num", "4"), ("name", "m")]:
            f16.append(("bin", "", l, ("par", r_)))
    for e in f16:
        cst = ("bin", "", parenthesize("min", e[2]), e[3])
        if needs_par("left", "", e[2]):
            cst = ("bin", "", ("par", parenthesize("min", e[2])), e[3])
        toks = render_cst(cst)
        want = show(strip(e))
        r = pint_build(toks + END)
        add(f"KBuild {coq_list([coq_tok(t) for t in toks + END])} {coq_bres(r)}",
            {"stream": "paren-juxt", "tokens": toks + END, "pint": r})
        ck.case(key=("f16", show(e)))
        ck.count("paren-juxt (F16 region)")
        if r != ("tree", want):
            # the same tokens with an explicit * must group like Python, else it is not (only) F16
            cst2 = ("bin", "*", cst[2], e[3])
            r2 = pint_build(render_cst(cst2) + END)
            want2 = show(("bin", "*", strip(e[2]), strip(e[3])))
            key = ("paren-juxt-group:" if r2 == ("tree", want2) and has_paren_juxt(toks) else "precedence:") + toks_text(toks)
            oracle_fail.append((key, f"'{toks_text(toks)}' groups as {r[1]}; juxtaposition = * would give {want}",
                                {"tokens": toks, "pint": r, "expected_tree": want}))

    # uncertain numbers "v +/- u" as primaries: (a) every sequence over {2, +/-, **, ^, (, )}, (b) legal
    # trees with one leaf replaced by an uncertain number — "+/-" followed by ** / ^ in particular;
    # pint's tree against the model in Coq, and against the tree in which the uncertain number is a primary
    alpha_unc = [("num", "2"), ("op", "+/-"), ("op", "**"), ("op", "^"), ("op", "("), ("op", ")")]
    for ln in range(0, (6 if thorough else 4) + 1):
        for seq in itertools.product(alpha_unc, repeat=ln):
            if ("op", "+/-") not in seq or seq in seen:
                continue
            seen.add(seq)
            toks = list(seq) + [("end", "")]
            r = pint_build(toks)
            add(f"KBuild {coq_list([coq_tok(t) for t in toks])} {coq_bres(r)}",
                {"stream": "exhaustive-unc-tokens", "tokens": toks, "pint": r})
            ck.case(key=("useq", seq), nontrivial=True)
            ck.count("unc-tokens:" + ("tree" if r[0] == "tree" else r[1]))
    unc_pool = [t for t in trees if legal(t) and 2 <= leaves(t) <= 8]
    n_unc = 0
    for _ in range(6000 if thorough else 1200):
        if not unc_pool:
            break
        e = rng.choice(unc_pool)
        toks = render_cst(parenthesize(rng.choice(["min", "full"]), e))
        pos = [i for i, t in enumerate(toks) if t[0] == "num"]
        if not pos:
            continue
        # make the chosen leaf unique, then splice the uncertain number in
        i = rng.choice(pos)
        if rng.random() < 0.5:      # prefer a leaf that is the base of a power when there is one
            powb = [j for j in pos if j + 1 < len(toks) and toks[j + 1] in (("op", "**"), ("op", "^"))]
            if powb:
                i = rng.choice(powb)
        toks2 = toks[:i] + [("num", "1.5"), ("op", "+/-"), ("num", "0.1")] + toks[i + 1:]
        marked = [("num", "@") if j == i else t for j, t in enumerate(toks)]
        base = pint_build(marked + END)     # structure of the expression itself (already compared above)
        r = pint_build(toks2 + END)
        add(f"KBuild {coq_list([coq_tok(t) for t in toks2 + END])} {coq_bres(r)}",
            {"stream": "unc-in-tree", "tokens": toks2 + END, "pint": r})
        n_unc += 1
        ck.case(key=("unctree", tuple(toks2)), nontrivial=True,
                sample={"tokens": toks_text(toks2), "pint_tree": r[1]} if n_unc < 3 else None)
        ck.count("unc-in-tree")
        if base[0] == "tree":
            want = base[1].replace("@", "(1.5 +/- 0.1)")
            if r != ("tree", want):
                oracle_fail.append(("uncertainty-tree:" + toks_text(toks2),
                                    f"'{toks_text(toks2)}' groups as {r[1]}; with the uncertain number as a primary it is {want}",
                                    {"tokens": toks2, "pint": r, "expected_tree": want}))

    # (iv) malformed streams: mutations of well-formed renderings
    n_mal = 0
    base = [t for t in trees if legal(t)]
    for _ in range(6000 if thorough else 1500):
        e = rng.choice(base)
        toks = render_cst(parenthesize(rng.choice(["min", "full"]), e))
        toks = list(toks)
        for _ in range(rng.randint(1, 2)):
            kind = rng.choice(["drop", "dup", "swap", "paren", "other", "op", "noend", "midend"])
            if kind == "drop" and toks:
                del toks[rng.randrange(len(toks))]
            elif kind == "dup" and toks:
                i = rng.randrange(len(toks))
                toks.insert(i, toks[i])
            elif kind == "swap" and len(toks) > 1:
                i = rng.randrange(len(toks) - 1)
                toks[i], toks[i + 1] = toks[i + 1], toks[i]
            elif kind == "paren":
                toks.insert(rng.randint(0, len(toks)), ("op", rng.choice(["(", ")"])))
            elif kind == "other":
                toks.insert(rng.randint(0, len(toks)), ("other", ""))
            elif kind == "op":
                toks.insert(rng.randint(0, len(toks)), ("op", rng.choice(["<", "=", ",", "+/-", "[", "unary", "<none>", "@"])))
        tail = END
        kind2 = rng.random()
        if kind2 < 0.08:
            tail = []                              # no ENDMARKER at all
        elif kind2 < 0.16:
            tail = [("end", "")]
        elif kind2 < 0.22:
            toks.insert(rng.randint(0, len(toks)), ("end", ""))   # ENDMARKER in the middle
        full = toks + tail
        r = pint_build(full)
        add(f"KBuild {coq_list([coq_tok(t) for t in full])} {coq_bres(r)}",
            {"stream": "malformed", "tokens": full, "pint": r})
        n_mal += 1
        ck.case(key=("mal", tuple(full)))
        ck.count("malformed:" + ("tree" if r[0] == "tree" else r[1]))
    return cases, meta, oracle_fail


def run(ck):
    rng = random.Random(ck.seed)
    thorough = ck.tier == "thorough"
    ck.rule = ("token level: ALL token sequences over a 9-token alphabet up to length 4 (thorough 5) and over a "
               "6-token alphabet up to length 5 (thorough 6), each + ENDMARKER; all Par-free expression trees with "
               "<= 3 leaves over {2, m} x 9 operators, all with <= 2 leaves x unary +/- at every node, samples of "
               "3-leaf trees with unary minus and of 4-leaf trees (thorough: all 3-leaf trees with unary minus, "
               "20000 4-leaf trees), random trees with 5..25 leaves, each rendered minimal and fully parenthesised; "
               "malformed streams by token mutation. string level: see coverage.string_level. non-trivial = "
               "distinct (stream, input) with at least one operator")
    ck.trusted += ["translator T2 (harness/t2_eval.py, Python ast, fail-closed) and the Python mirror of the Spec's "
                   "render/legal in harness/c07.py (compared with Grammar.render case by case inside Coq)"]
    ck.extra["claims"] = {
        "full": ["parse_render (every expression, both parenthesis styles, any redundant groups; [TEnd] and [NEWLINE; TEnd])",
                 "pow_right_assoc", "unary_vs_pow", "left_assoc", "juxt_is_mul", "eval_is_python",
                 "no_value_on_unbalanced (all token lists)", "no_value_on_dangling (all token lists)", "literals_keep_type",
                 "ties: op_priority, binary/unary key sets, model algebra = tables, static no-execution scan"],
        "refuted": ["paren_juxt (F16): witnesses 6/2(1+2), 2**(3)(4); guarded statement = parse_render under `legal`"],
        "partial": ["string preprocessing (regexes) and Python's tokenize are not modelled: string-level differential stream only (a test)",
                    "no-execution clause on the real code: static scan of pint_eval.py (theorem) + audit-hook fuzz stream (a test)"],
    }
    ck.assumptions += [
        "Python's tokenize and re (string_preprocessor) are not modelled: covered by the string-level differential stream only",
        "no-execution clause on the real code: static scan (T2) + audit-hook fuzz stream, a test",
        "error outcomes are compared by exception class, never by message",
    ]
    import time
    timing = {}
    t0 = time.time()
    ok = ck.coq_build(["Properties/C07.vo", "Model/EvalRun.vo"])
    timing["coq_build_s"] = round(time.time() - t0, 1)
    t0 = time.time()
    cases, meta, oracle_fail = token_level(ck, rng, thorough)
    timing["token_level_impl_s"] = round(time.time() - t0, 1)
    from . import c07_strings
    t0 = time.time()
    oracle_fail += c07_strings.string_level(ck, rng, thorough)
    timing["string_level_s"] = round(time.time() - t0, 1)
    lfails, lcases, lmeta = c07_strings.literal_level(ck, rng, thorough)
    oracle_fail += lfails
    cases += lcases
    meta += lmeta
    ufails, ucases, umeta = c07_strings.uncertainty_level(ck, rng, thorough)
    oracle_fail += ufails
    cases += ucases
    meta += umeta
    timing["string_level_s"] = round(time.time() - t0, 1)
    t0 = time.time()
    oracle_fail += c07_strings.no_execution(ck, rng, thorough)
    timing["no_execution_s"] = round(time.time() - t0, 1)

    t0 = time.time()
    from .common import NCPU
    shard = max(400, min(2500, -(-len(cases) // max(1, NCPU))))
    try:
        import ast as _ast
        from . import t2_eval
        from .common import REPO
        pa, pe = t2_eval.builder_shapes(_ast.parse((REPO / "pint" / "pint_eval.py").read_text()))
        ck.extra["builder_switches_read_by_T2"] = {
            "paren_juxt_any_priority": pa, "pow_exempt_any_priority": pe,
            "meaning": "true = shape as first found (F16 resp. F41 present); the model Eval.go_p takes both as parameters"}
    except Exception as ex:   # noqa: BLE001 — the build has already reported the translator error
        ck.extra["builder_switches_read_by_T2"] = f"translator error: {ex}"
    bad = ck.coq_mismatches("c07", HEADER, cases, RUN, shard=shard) if ok else None
    timing["token_level_model_s"] = round(time.time() - t0, 1)
    ck.extra["timing"] = timing
    ck.extra["model_vs_impl_cases"] = len(cases)
    ck.extra["model_vs_impl_disagreements"] = None if bad is None else len(bad)
    # report the smallest inputs first, at most 6 per class of violation (the counts are in the evidence)
    seen, per_class = set(), {}
    ck.extra["oracle_failures"] = {}
    for key, desc, rp in sorted(oracle_fail, key=lambda x: (len(x[0]), x[0])):
        if key in seen:
            continue
        seen.add(key)
        cls = key.split(":", 1)[0]
        ck.extra["oracle_failures"][cls] = ck.extra["oracle_failures"].get(cls, 0) + 1
        per_class[cls] = per_class.get(cls, 0) + 1
        if per_class[cls] <= 6 or ck._match_known(key) is not None:
            ck.violation(key, desc, rp)
    if bad:
        first = meta[bad[0]]
        shown = ck.coq_show(HEADER, f"{RUN} ({cases[bad[0]]})")
        if not oracle_fail:
            # search the neighbourhood of the disagreeing cases with the token-level oracle
            ck.violation("correspondence", "model and implementation disagree; no property oracle failed",
                         {"first_disagreement": first, "coq_case": cases[bad[0]], "n_disagreements": len(bad),
                          "coq": shown}, no_input=True)
        ck.broken.append(f"correspondence Model.EvalRun.c07_ok: {len(bad)} disagreements, first: "
                         f"{json.dumps(first, default=str)[:400]}")


def replay(ck, path):
    d = json.load(open(path))
    print(json.dumps(d, indent=1))
    rp = d.get("replay", {})
    if "tokens" in rp:
        toks = [tuple(t) for t in rp["tokens"]]
        if not toks or toks[-1][0] != "end":
            toks = toks + END
        print("pint now:", pint_build(toks), " expected tree:", rp.get("expected_tree"))
    if "string" in rp:
        from . import c07_strings
        print("pint now:", c07_strings.replay_string(rp))
    return 0
