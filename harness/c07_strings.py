"""C07, string level: expression strings through pint's public entry points against Python's
own evaluation of the same expression (the property's oracle), and the no-execution test."""
import math
import random
import sys
from decimal import Decimal
from fractions import Fraction

from . import c07 as T

SUP = str.maketrans("0123456789-", "⁰¹²³⁴⁵⁶⁷⁸⁹⁻")
NAMES = ["m", "meter", "s", "second", "kg", "km", "inch", "hour", "newton", "joule", "radian", "hertz", "ms"]
NUMS = ["2", "3", "10", "1", "4", "2.5", "0.5", "1e3", "7", "12", "1.5e-2", "1_000"]

_regs = {}


def registry(nit):
    import pint
    if nit not in _regs:
        _regs[nit] = pint.UnitRegistry(non_int_type=nit, cache_folder=None)
    return _regs[nit]


def is_int_text(s):
    t = s.replace("_", "")
    return t.isdigit() and "__" not in s and not s.startswith("_") and not s.endswith("_")


def leaf_number(nit, text):
    """the value of a NUMBER token, independently of pint: int stays int in the float registry,
    otherwise the registry's numeric type"""
    if nit is float:
        return int(text) if is_int_text(text) else float(text)
    return nit(text.replace("_", "")) if nit is Decimal else nit(text)


# ----------------------------------------------------------------------------- generation
def value_tree(rng, n, ops):
    """random Par-free tree whose evaluation usually succeeds"""
    if n == 1:
        return ("num", rng.choice(NUMS)) if rng.random() < 0.45 else ("name", rng.choice(NAMES))
    op = rng.choice(ops)
    if T.is_pow(op):
        base = value_tree(rng, n - 1 if n > 2 else 1, ops)
        r = rng.random()
        k = ("num", rng.choice(["2", "3", "1", "0", "2"]))
        if r < 0.25:
            ex = ("neg", k)
        elif r < 0.33:
            ex = ("bin", rng.choice(["**", "^"]), ("num", "2"), ("num", rng.choice(["2", "3"])))
        elif r < 0.40:
            ex = ("bin", rng.choice(["+", "-", "*"]), ("num", "1"), ("num", "2"))
        elif r < 0.45:
            ex = value_tree(rng, 1, ops)
        else:
            ex = k
        e = ("bin", op, base, ex)
    else:
        k = rng.randint(1, n - 1)
        l = value_tree(rng, k, ops)
        if op in ("+", "-", "//", "%") and rng.random() < 0.6:
            r = ("bin", "*", ("num", rng.choice(["2", "3", "0.5"])), l) if rng.random() < 0.7 else l
        else:
            r = value_tree(rng, n - k, ops)
        if op == "" and not T.legal(("bin", "", ("num", "1"), r)) and rng.random() < 0.9:
            op = "*"
        e = ("bin", op, l, r)
    if rng.random() < 0.1:
        e = (rng.choice(["neg", "neg", "pos"]), e)
    return e


def sp(rng, lo=0, hi=2):
    return " " * rng.randint(lo, hi)


def to_string(rng, cst, fancy):
    """one spelling of the concrete tree: whitespace variants, ^ / **, word forms, superscripts.
    Returns (string, python_source, leaves) where python_source has the same parentheses with
    explicit * and ** and the leaves replaced by identifiers."""
    leaves = []

    def leaf_id(e):
        leaves.append(e)
        return f"L{len(leaves) - 1}"

    def go(e, in_pow):
        k = e[0]
        if k in ("num", "name"):
            return e[1], leaf_id(e)
        if k in ("neg", "pos"):
            s, p = go(e[1], False)
            sign = "-" if k == "neg" else "+"
            # ParserHelper has no __neg__/__pos__: on that path the oracle applies what the unary map
            # documents (x * -1, x) to the operand; NEG/POS are marked so that the quantity path can
            # use Python's own unary operators
            return sign + sp(rng, 0, 1 if fancy else 0) + s, ("\x01" if k == "neg" else "\x02") + p + "\x03"
        if k == "par":
            s, p = go(e[1], False)
            pad = sp(rng, 0, 1) if fancy else ""
            return "(" + pad + s + pad + ")", "(" + p + ")"
        _, op, l, r = e
        if T.is_pow(op):
            ls, lp = go(l, True)
            # postfix / prefix word forms and superscripts: textually the same as x**k
            kk = None
            if r[0] == "num" and r[1].isdigit():
                kk = r[1]
            elif r[0] == "neg" and r[1][0] == "num" and r[1][1].isdigit():
                kk = "-" + r[1][1]
            if fancy and kk is not None and not in_pow:
                c = rng.random()
                if l[0] == "name" and kk in ("2", "3") and c < 0.30:
                    rp_ = leaf_id(r)
                    word = {"2": ["squared"], "3": ["cubed"]}[kk][0]
                    return ls + " " + sp(rng, 0, 1) + word, lp + "**" + rp_
                if l[0] == "name" and kk in ("2", "3") and c < 0.50:
                    rp_ = leaf_id(r)
                    word = rng.choice(["square", "sq"]) if kk == "2" else "cubic"
                    return word + " " + ls, lp + "**" + rp_
                if c < 0.80 and l[0] in ("name", "par", "num") and not (l[0] == "num" and not l[1].isdigit()):
                    if r[0] == "num":
                        rp_ = leaf_id(r)
                    else:
                        rp_ = "(-" + leaf_id(r[1]) + ")"
                    return ls + kk.translate(SUP), lp + "**" + rp_
            rs, rp = go(r, True)
            o = rng.choice(["**", "^"]) if fancy else op
            a, b = (sp(rng), sp(rng)) if fancy else ("", "")
            return ls + a + o + b + rs, lp + "**" + rp
        ls, lp = go(l, False)
        rs, rp = go(r, False)
        if op == "":
            # whitespace is what makes a juxtaposition at string level (after ")" it is optional
            # before a NUMBER/NAME); a group on the right needs the whitespace (else: F16)
            glue_ok = (ls[-1] in ")⁰¹²³⁴⁵⁶⁷⁸⁹") and (rs[0].isalnum() or rs[0] == "_" or rs[0] == ".")
            need = not glue_ok or rng.random() < 0.5
            gap = " " * rng.randint(1, 3) if fancy else " "
            if fancy and rng.random() < 0.1:
                gap = "\t"
            return ls + (gap if need else "") + rs, lp + "*" + rp
        pyop = op
        o = op
        if fancy:
            if op == "/" and rng.random() < 0.3:
                return ls + " per " + rs, lp + "/" + rp
            if op == "*" and rng.random() < 0.15:
                o = "·"
            a, b = sp(rng), sp(rng)
        else:
            a = b = rng.choice(["", " "])
        return ls + a + o + b + rs, lp + pyop + rp

    s, p = go(cst, False)
    p = mark_unary(p)
    if fancy and rng.random() < 0.1:
        s = " " + s
    if fancy and rng.random() < 0.1:
        s = s + " "
    return s, p, leaves


def mark_unary(p):
    return p


def src_python(p):
    """the oracle source for quantities: Python's own unary operators and precedence"""
    return p.replace("\x01", "-").replace("\x02", "+").replace("\x03", "")


def src_parserhelper(p):
    """the oracle source for ParserHelper operands (no __neg__): NEG(x) = x * -1, POS(x) = x"""
    return p.replace("\x01", "NEG(").replace("\x02", "POS(").replace("\x03", ")")


# ----------------------------------------------------------------------------- evaluation / comparison
class EvalTimeout(BaseException):
    """raised by the watchdog: an evaluation ran for more than LIMIT seconds (big-integer towers)"""


LIMIT = 3.0


def _alarm(signum, frame):
    raise EvalTimeout()


def outcome(f):
    """('ok', value) | ('err', exception class name); a watchdog bounds the time of one evaluation
    (CPython's big-integer loops poll for signals), reported as class 'Timeout'"""
    import signal
    old = signal.signal(signal.SIGALRM, _alarm)
    signal.setitimer(signal.ITIMER_REAL, LIMIT)
    try:
        try:
            return ("ok", f())
        except RecursionError:
            return ("err", "RecursionError")
        except Exception as ex:   # noqa: BLE001 — classes are the observable
            return ("err", type(ex).__name__)
        finally:
            signal.setitimer(signal.ITIMER_REAL, 0)
    except EvalTimeout:
        return ("err", "Timeout")
    finally:
        signal.setitimer(signal.ITIMER_REAL, 0)
        signal.signal(signal.SIGALRM, old)


def same_number(a, b):
    if type(a) is not type(b):
        return False
    if isinstance(a, float):
        if math.isnan(a) or math.isnan(b):
            return math.isnan(a) and math.isnan(b)
        if math.isinf(a) or math.isinf(b):
            return a == b
        return math.isclose(a, b, rel_tol=1e-12, abs_tol=0.0) or a == b
    if isinstance(a, Decimal):
        if a.is_nan() or b.is_nan():
            return a.is_nan() and b.is_nan()
        return a == b
    try:
        return bool(a == b)
    except Exception:  # noqa: BLE001
        return False


def same_unc(x, y):
    """two uncertain numbers: nominal value and standard deviation agree (rel 1e-9)"""
    def close(p, q):
        p, q = float(p), float(q)
        if math.isnan(p) or math.isnan(q):
            return math.isnan(p) and math.isnan(q)
        return p == q or math.isclose(p, q, rel_tol=1e-9, abs_tol=0.0)
    return close(x.nominal_value, y.nominal_value) and close(x.std_dev, y.std_dev)


def same_value(a, b):
    """two results of the same kind with equal magnitude type, magnitude and units"""
    am, bm = hasattr(a, "magnitude"), hasattr(b, "magnitude")
    if am != bm:
        return False
    if am:
        if hasattr(a.magnitude, "nominal_value") or hasattr(b.magnitude, "nominal_value"):
            x, y = a.magnitude, b.magnitude
            return (hasattr(x, "nominal_value") and hasattr(y, "nominal_value")
                    and same_unc(x, y) and a.units == b.units)
        return same_number(a.magnitude, b.magnitude) and a.units == b.units
    if hasattr(a, "nominal_value") or hasattr(b, "nominal_value"):
        return (hasattr(a, "nominal_value") and hasattr(b, "nominal_value")
                and same_unc(a, b))
    from pint.util import ParserHelper
    if isinstance(a, ParserHelper) or isinstance(b, ParserHelper):
        return (isinstance(a, ParserHelper) and isinstance(b, ParserHelper)
                and same_number(a.scale, b.scale) and dict(a._d) == dict(b._d)
                and all(type(a._d[k]) is type(b._d[k]) for k in a._d))
    return same_number(a, b)


def same_outcome(x, y):
    if x[0] != y[0]:
        return False
    return x[1] == y[1] if x[0] == "err" else same_value(x[1], y[1])


def _short(text, limit=90):
    return text if len(text) <= limit else text[:40] + f"...<{len(text)} chars>..." + text[-25:]


def describe(o):
    return _short(_describe(o), 400)


def _describe(o):
    if o[0] == "err":
        return "raises " + o[1]
    v = o[1]
    if isinstance(v, int) and not isinstance(v, bool) and abs(v) >= 10 ** 60:
        t = str(v) if abs(v) < 10 ** 4000 else "<huge int>"
        return _short(t) + " (int)"
    try:
        if hasattr(v, "magnitude"):
            m = v.magnitude
            if hasattr(m, "nominal_value"):
                return f"{m.nominal_value!r} +/- {m.std_dev!r} [{dict(v._units._d)}]"
            return f"{v.magnitude!r} [{dict(v._units._d)}] ({type(v.magnitude).__name__})"
        if hasattr(v, "nominal_value"):
            return f"{v.nominal_value!r} +/- {v.std_dev!r}"
        return f"{v!r} ({type(v).__name__})"
    except Exception:  # noqa: BLE001
        return "<value>"


def python_value(nit, src, leaves, mode):
    """Python's own evaluation of the expression: the leaves are the named quantities / numbers"""
    ns = {"NEG": lambda x: x * -1, "POS": lambda x: x}
    src = src_parserhelper(src) if mode in ("ph", "q-neg") else src_python(src)
    if mode == "ph":
        from pint.util import ParserHelper
        for i, lf in enumerate(leaves):
            ns[f"L{i}"] = leaf_number(nit, lf[1]) if lf[0] == "num" else ParserHelper.from_word(lf[1], nit)
    else:
        ureg = registry(nit)
        for i, lf in enumerate(leaves):
            ns[f"L{i}"] = leaf_number(nit, lf[1]) if lf[0] == "num" else ureg.Quantity(1, ureg.get_name(lf[1]))
    code = compile(src, "<c07-oracle>", "eval")
    return eval(code, {"__builtins__": {}}, ns)   # noqa: S307 — the harness's own oracle, not pint


def check_string(ck, fails, nit, s, src, leaves, paths, f16=False, stream="strings"):
    """run one string through the entry points; returns number of evaluations"""
    ureg = registry(nit)
    n = 0
    want_q = outcome(lambda: python_value(nit, src, leaves, "q"))
    for path in paths:
        if path == "parse_expression":
            got, want = outcome(lambda: ureg.parse_expression(s)), want_q
        elif path == "Quantity":
            got = outcome(lambda: ureg.Quantity(s))
            want = want_q if want_q[0] == "err" else outcome(lambda: ureg.Quantity(want_q[1]))
        else:
            from pint.util import ParserHelper
            ParserHelper.from_string.cache_clear()
            got = outcome(lambda: ParserHelper.from_string(s, nit))
            want = outcome(lambda: python_value(nit, src, leaves, "ph"))
            if want[0] == "ok" and not isinstance(want[1], ParserHelper):
                want = ("ok", ParserHelper(want[1], non_int_type=nit))
        n += 1
        ck.count(f"{stream}:{path}:{nit.__name__}:" + ("value" if got[0] == "ok" else "error"))
        if not same_outcome(got, want):
            key = ("paren-juxt-group:" if f16 else "string-value:") + s
            if not f16 and path != "from_string":
                # does the difference come from the unary map's "x * -1" (instead of Python's -x)?
                alt = outcome(lambda: python_value(nit, src, leaves, "q-neg"))
                if path == "Quantity" and alt[0] == "ok":
                    alt = outcome(lambda: ureg.Quantity(alt[1]))
                if same_outcome(got, alt):
                    key = f"unary-minus-times-minus-one:{nit.__name__}:{s}"
            fails.append((key, f"{path}({s!r}) [{nit.__name__} registry] = {describe(got)}, but Python evaluates "
                               f"{src_python(src)} with the named quantities to {describe(want)}",
                          {"string": s, "python_source": src, "leaves": leaves, "non_int_type": nit.__name__,
                           "path": path, "pint": describe(got), "python": describe(want)}))
    return n


def replay_string(rp):
    nit = {"float": float, "Decimal": Decimal, "Fraction": Fraction}[rp["non_int_type"]]
    leaves = [tuple(x) for x in rp["leaves"]]
    ureg = registry(nit)
    got = outcome(lambda: ureg.parse_expression(rp["string"]))
    want = outcome(lambda: python_value(nit, rp["python_source"], leaves, "q"))
    return {"pint": describe(got), "python": describe(want), "agree": same_outcome(got, want)}


def string_level(ck, rng, thorough):
    fails = []
    nits = (float, Decimal, Fraction)
    for nit in nits:
        registry(nit)
    OPS = ["+", "-", "*", "/", "//", "**", "^", ""]       # % is " percent " in a registry: not in the grammar
    n_eval = 0
    # (a) all legal trees with <= 3 leaves over {2, 3, m}, plain spelling, minimal parentheses
    small = []
    for n in (1, 2, 3):
        small += T.all_trees(n, [("num", "2"), ("num", "3"), ("name", "m")], OPS, [])
    small += T.all_trees(2, [("num", "2"), ("name", "m")], OPS, ["neg"])
    small = [e for e in small if T.legal(e)]
    for e in small:
        cst = T.parenthesize("min", e)
        s, src, leaves = to_string(rng, cst, fancy=False)
        for nit in ((float, Fraction) if not thorough else nits):
            n_eval += check_string(ck, fails, nit, s, src, leaves, ["parse_expression"], stream="small-trees")
        ck.case(key=("str-small", s), nontrivial=T.leaves(e) > 1)
    # (b) random trees, every spelling variant, three registries, three entry points
    n_rand = 6000 if thorough else 900
    for i in range(n_rand):
        e = value_tree(rng, rng.randint(2, 12 if rng.random() < 0.8 else 25), OPS)
        if not T.legal(e):
            continue
        for style in ("min", "full") if i % 3 == 0 else ("min",):
            cst = T.parenthesize(style, e)
            for v in range(2):
                s, src, leaves = to_string(rng, cst, fancy=(v == 1))
                for nit in nits:
                    paths = ["parse_expression"]
                    if v == 1 or i % 4 == 0:
                        paths += ["Quantity"]
                    if "%" not in s and "°" not in s:
                        paths += ["from_string"]
                    n_eval += check_string(ck, fails, nit, s, src, leaves, paths)
                ck.case(key=("str", s), nontrivial=True,
                        sample={"string": s, "python": src_python(src)} if v == 1 and len(s) > 25 and len(ck.samples) < 8 else None)
    # (c) juxtaposition before a group: with whitespace it is a multiplication ...
    groups = [("bin", "+", ("num", "1"), ("num", "2")), ("name", "m"), ("bin", "*", ("num", "3"), ("name", "s"))]
    lefts = [("num", "2"), ("bin", "/", ("num", "6"), ("num", "2")), ("bin", "**", ("num", "2"), ("par", ("num", "3"))),
             ("bin", "-", ("num", "1"), ("name", "m")), ("neg", ("name", "m")), ("bin", "*", ("name", "m"), ("name", "s")),
             ("par", ("num", "2")), ("bin", "/", ("num", "1"), ("name", "s"))]
    for l in lefts:
        for g in groups:
            lc = T.parenthesize("min", l)
            if T.needs_par("left", "", l):
                lc = ("par", lc)
            cst = ("bin", "", lc, ("par", g))
            ltoks = "".join(t[1] for t in T.render_cst(lc))
            gtoks = "".join(t[1] for t in T.render_cst(("par", g)))
            _, src, leaves = to_string(rng, cst, fancy=False)
            for nit in nits:
                n_eval += check_string(ck, fails, nit, ltoks + " " + gtoks, src, leaves, ["parse_expression"],
                                       stream="group-juxt-with-space")
                # ... and directly adjacent it is the F16 region (a NUMBER directly before "(NUMBER)" would be
                # the uncertainty shorthand 2(3), which is C19's notation: not generated here)
                n_eval += check_string(ck, fails, nit, ltoks + gtoks, src, leaves, ["parse_expression"],
                                       f16=True, stream="group-juxt-adjacent")
            ck.case(key=("str-f16", ltoks + gtoks))
    # (f) unbalanced parentheses / dangling operators never yield a value, at string level
    pool = [e for e in small if T.leaves(e) >= 2][:: max(1, len(small) // 400)]
    for _ in range(300):
        pool.append(value_tree(rng, rng.randint(2, 8), OPS))
    n_bad = 0
    for e in pool:
        if not T.legal(e):
            continue
        s0, _, _ = to_string(rng, T.parenthesize(rng.choice(["min", "full"]), e), fancy=False)
        variants = []
        for op in ("+", "-", "*", "/", "**", "//", "^", "("):
            variants.append(("dangling", s0 + " " + op))
        variants.append(("unbalanced", "(" + s0))
        variants.append(("unbalanced", s0 + ")"))
        variants.append(("unbalanced", "((" + s0 + ")"))
        idx = [i for i, c in enumerate(s0) if c in "()"]
        if idx:
            i = rng.choice(idx)
            variants.append(("unbalanced", s0[:i] + s0[i + 1:]))
        for kind, bad_s in rng.sample(variants, 4):
            for nit in (float, Fraction):
                got = outcome(lambda: registry(nit).parse_expression(bad_s))
                n_eval += 1
                n_bad += 1
                ck.count(f"malformed-strings:{kind}:" + ("value" if got[0] == "ok" else "error"))
                if got[0] == "ok":
                    fails.append((f"{kind}-value-string:" + bad_s,
                                  f"parse_expression({bad_s!r}) [{nit.__name__} registry] yields {describe(got)} "
                                  f"although the {'parentheses are unbalanced' if kind == 'unbalanced' else 'operator is dangling'}",
                                  {"string": bad_s, "non_int_type": nit.__name__, "pint": describe(got)}))
            ck.case(key=("str-bad", bad_s))
    # witness of F40 (unary minus is x * -1): only the Decimal registry shows it
    w = ("bin", "**", ("par", ("neg", ("par", ("bin", "", ("num", "0"), ("name", "m"))))), ("neg", ("num", "1")))
    ws, wsrc, wleaves = to_string(rng, w, fancy=False)
    for nit in nits:
        n_eval += check_string(ck, fails, nit, ws, wsrc, wleaves, ["parse_expression"], stream="unary-minus-zero")
    ck.case(key=("str-f40", ws))
    # (d) literals keep their type
    for nit in nits:
        ureg = registry(nit)
        for txt in NUMS + ["0", "42", "3.0", "1e-3", "6.02e23", ".5", "5."]:
            got = outcome(lambda: ureg.parse_expression(txt))
            want = ("ok", leaf_number(nit, txt))
            n_eval += 1
            ck.count(f"literals:{nit.__name__}")
            if not same_outcome(got, want):
                fails.append((f"literal-type:{txt}:{nit.__name__}",
                              f"literal {txt!r} in the {nit.__name__} registry gives {describe(got)}, expected {describe(want)}",
                              {"string": txt, "python_source": "L0", "leaves": [("num", txt)], "non_int_type": nit.__name__,
                               "path": "parse_expression"}))
            got2 = outcome(lambda: ureg.parse_expression(txt + " m").magnitude)
            if not same_outcome(got2, want):
                fails.append((f"literal-type:{txt} m:{nit.__name__}",
                              f"magnitude of {txt + ' m'!r} in the {nit.__name__} registry is {describe(got2)}, expected {describe(want)}",
                              {"string": txt + " m", "python_source": "L0*L1", "leaves": [("num", txt), ("name", "m")],
                               "non_int_type": nit.__name__, "path": "parse_expression"}))
            ck.case(key=("lit", nit.__name__, txt))
    # (e) uncertainties: see uncertainty_level
    ck.extra["string_level"] = {
        "evaluations": n_eval,
        "oracle": "eval() of the same parenthesisation with explicit * and **, leaves bound to ureg.Quantity(1, name) / "
                  "numbers of the registry's type; compared on magnitude type, magnitude (exact; floats rel 1e-12) and units, "
                  "or on the exception class",
        "entry_points": ["UnitRegistry.parse_expression", "UnitRegistry.Quantity(str)", "ParserHelper.from_string"],
        "registries": ["float", "Decimal", "Fraction"],
        "spellings": "0-2 blanks around operators, 1-3 blanks or a tab for juxtaposition, ^ and **, '·', ' per ', "
                     "'x squared/cubed', 'square/sq/cubic x', unicode superscripts (also negative), leading/trailing blank",
        "note": "integer literals are int in the float registry and Decimal/Fraction in the exact registries "
                "(pint converts every literal with non_int_type there; the value is the same integer)",
    }
    return fails


# ----------------------------------------------------------------------------- no-execution test
BAD_EVENTS = ("exec", "compile", "import", "open", "os.system", "os.exec", "os.posix_spawn", "os.spawn",
              "os.fork", "os.forkpty", "subprocess.Popen", "socket.", "ctypes.", "shutil.", "os.remove", "os.rename",
              "os.mkdir", "os.rmdir", "os.chdir", "os.chmod", "os.chown", "os.putenv", "os.unsetenv", "os.kill",
              "os.listdir", "os.scandir", "os.truncate", "os.utime", "os.link", "os.symlink", "builtins.input",
              "builtins.breakpoint", "object.__getattr__", "object.__setattr__", "object.__delattr__",
              "code.__new__", "function.__new__", "marshal.", "pickle.", "sys.settrace", "sys.setprofile",
              "urllib.", "webbrowser.", "pty.spawn", "glob.glob", "tempfile.", "winreg.", "mmap.", "sqlite3.",
              "cpython.run_", "sys._getframe")
_state = {"armed": False, "events": [], "installed": False}


def _hook(event, args):
    if _state["armed"]:
        if event == "open" and args and args[0] == "<string>":
            # CPython's tokenizer, when it raises an error, looks for the source line of the pseudo
            # file name "<string>" (read-only probe, inside tokenize, not pint): counted, not flagged
            _state["probe"] = _state.get("probe", 0) + 1
            return
        for b in BAD_EVENTS:
            if event == b or (b.endswith(".") and event.startswith(b)):
                _state["events"].append((event, repr(args)[:120]))
                break


NASTY = [
    "__import__('os').system('true')", "__import__('os')", "().__class__.__bases__[0].__subclasses__()",
    "meter.__class__", "a.b", "m.magnitude", "f(x)", "open('/etc/passwd')", "exec('1')", "eval('1')",
    "compile('1','x','eval')", "lambda: 1", "(lambda x: x)(2)", "m[0]", "[1, 2][0]", "{1: 2}", "f'{1}'", "`1`",
    "import os", "print(1)", "1; 2", "1 if 2 else 3", "x := 2", "not 1", "1 and 2", "m is m", "2 in [2]",
    "os.system('true')", "subprocess.Popen('true')", "getattr(m, 'x')", "globals()", "__builtins__", "\\x00",
    "meter\nimport os", "'''", '"', "'abc'", "b'1'", "1 @ 2", "~1", "1 << 2", "2 >> 1", "1 | 2", "1 & 2", "!1", "$", "?",
    "m ** ", "** m", "((", "))", ")(", "(2 m", "2 m)", "2 +", "* 2", "2 * / 3", "- -", "", " ", "\t", "\n", "#", "# comment",
    "2 # m", "1e999", "nan", "inf", "dimensionless", "%", "‰", "°", "µm", "Å", "2²³", "⁻", "²", "m⁻", "·", "2·", "١٢", "𝟐 m",
    "{}", "{0}", "%s", "\\", "m\\n", "0x10", "0b11", "0o7", "1j", "1_0", "1__0", "1.2.3", "..", ".", "2..3", "1e", "1e+", "e5",
]


def no_execution(ck, rng, thorough):
    """fuzz stream through parse_expression with an audit hook armed — a test of the clause
    'parsing only performs arithmetic and registry lookups'"""
    fails = []
    if not _state["installed"]:
        sys.addaudithook(_hook)
        _state["installed"] = True
    ureg = registry(float)
    ureg2 = registry(Fraction)
    from pint.util import ParserHelper
    alphabet = list("0123456789 .+-*/()^%_eEmskg") + ["**", "//", " per ", " squared", "²", "⁻¹", "·", "°", "µ", "[", "]",
                                                        "{", "}", "'", '"', "\\", ",", ":", ";", "=", "<", ">", "!", "@", "#",
                                                        "$", "&", "|", "~", "`", "?", "\n", "\t", "\x00", "é", "€", "𝟐",
                                                        "__", "import", "lambda", "meter", "os", ".", "nan", "inf"]

    def too_heavy(s):
        # huge integer towers only cost time (they are arithmetic); keep them out of the stream
        pows = s.count("**") + s.count("^") + sum(s.count(c) for c in "⁰¹²³⁴⁵⁶⁷⁸⁹")
        digits = max((len(x) for x in "".join(c if c.isdigit() else " " for c in s).split()), default=0)
        return pows > 1 or (pows == 1 and digits > 2) or digits > 25 or "e" in s.lower() and digits > 3 and pows > 0

    stream = list(NASTY)
    n_rand = 60000 if thorough else 6000
    for _ in range(n_rand):
        r = rng.random()
        if r < 0.5:
            s = "".join(rng.choice(alphabet) for _ in range(rng.randint(1, 14)))
        elif r < 0.7:
            s = bytes(rng.randrange(256) for _ in range(rng.randint(1, 12))).decode("latin-1")
        elif r < 0.8:
            s = bytes(rng.randrange(256) for _ in range(rng.randint(1, 12))).decode("utf-8", "replace")
        elif r < 0.9:
            s = "".join(chr(rng.choice([rng.randrange(32, 127), rng.randrange(0x80, 0x2fff), rng.randrange(0x1d400, 0x1d800)]))
                        for _ in range(rng.randint(1, 8)))
        else:
            base = rng.choice(NASTY)
            i = rng.randint(0, len(base))
            s = base[:i] + rng.choice(alphabet) + base[i:]
        if not too_heavy(s):
            stream.append(s)
    # warm up lazily imported machinery before arming
    for s in ["2 m", "1/3 s**2", "m²", "(1 +/- 0.1) m", "2 ** 0.5", "1e3 km per hour", "a.b", "f(x)", "'x'", "1 < 2"]:
        for f in (ureg.parse_expression, ureg2.parse_expression, lambda t: ParserHelper.from_string(t, float)):
            try:
                f(s)
            except Exception:  # noqa: BLE001
                pass
    n_val = n_exc = 0
    classes = {}
    import warnings
    warnings.simplefilter("ignore")      # displaying a warning reads the warning module's source line (linecache)
    for s in stream:
        for name, f in (("parse_expression", ureg.parse_expression),
                        ("from_string", lambda t: ParserHelper.from_string(t, float))):
            _state["events"].clear()
            _state["armed"] = True
            import signal
            old_h = signal.signal(signal.SIGALRM, _alarm)
            signal.setitimer(signal.ITIMER_REAL, LIMIT)
            try:
                try:
                    v = f(s)
                    kind = "value"
                except Exception as ex:  # noqa: BLE001
                    v, kind = ex, "exception"
            except EvalTimeout:
                v, kind = TimeoutError("evaluation longer than the watchdog limit"), "exception"
            except BaseException as ex:  # noqa: BLE001 — SystemExit / KeyboardInterrupt from a parse would be a finding
                v, kind = ex, "base-exception"
            finally:
                signal.setitimer(signal.ITIMER_REAL, 0)
                signal.signal(signal.SIGALRM, old_h)
                _state["armed"] = False
            ev = list(_state["events"])
            if kind == "value":
                n_val += 1
                okv = (hasattr(v, "magnitude") or isinstance(v, (int, float, Decimal, Fraction, complex, ParserHelper))
                       or type(v).__name__ in ("AffineScalarFunc", "Variable"))
                if not okv:
                    fails.append(("no-exec-result:" + repr(s), f"{name}({s!r}) returned a {type(v).__name__}",
                                  {"string": s, "path": name, "result_type": type(v).__name__}))
            elif kind == "exception":
                n_exc += 1
                classes[type(v).__name__] = classes.get(type(v).__name__, 0) + 1
            else:
                fails.append(("no-exec-baseexception:" + repr(s), f"{name}({s!r}) raised {type(v).__name__}",
                              {"string": s, "path": name}))
            if ev:
                fails.append(("no-exec-event:" + ev[0][0] + ":" + repr(s),
                              f"{name}({s!r}) fired audit event {ev[0][0]} {ev[0][1]}",
                              {"string": s, "path": name, "events": ev[:5]}))
            ck.case(key=("fuzz", name, s), nontrivial=len(s.strip()) > 0)
    warnings.resetwarnings()
    ck.count("fuzz:value", n_val)
    ck.count("fuzz:exception", n_exc)
    ck.extra["no_execution_test"] = {
        "label": "TEST (not a proof): sys.addaudithook armed during every parse of the fuzz stream",
        "strings": len(stream), "parses": 2 * len(stream), "values": n_val, "exceptions": n_exc,
        "exception_classes": dict(sorted(classes.items(), key=lambda kv: -kv[1])[:12]),
        "watched_events": list(BAD_EVENTS),
        "accepted_events": {"open('<string>', 'rb') by CPython's tokenizer error reporting": _state.get("probe", 0)},
        "static_side": "T2 scan of pint_eval.py: no eval/exec/compile/getattr/__import__/open/os.*/subprocess.* call, "
                       "no such import (theorem C07_eval_closed)",
    }
    return fails


# ----------------------------------------------------------------------------- +/- uncertainties
def unc_expected(nom, unc, exp):
    """(nominal, std_dev) an uncertainty literal denotes, computed from its text with Decimal and
    independently of pint: in the concise form N.ddd(uu) the digits count in units of the last
    decimal of N.ddd (an uncertainty written with a point is taken as it is); an exponent applies
    to both"""
    ndec = len(nom.partition(".")[2])
    n = Decimal(nom)
    sd = Decimal(unc) if ("." in unc or ndec == 0) else Decimal(int(unc)).scaleb(-ndec)
    if exp:
        n, sd = n.scaleb(int(exp)), sd.scaleb(int(exp))
    return n, sd


def dec_text(d):
    """a Decimal as a plain literal (no exponent)"""
    if d.is_nan():
        return "nan"
    t = format(d, "f")
    return t


def uncertainty_level(ck, rng, thorough):
    """every spelling of an uncertain number (concise N(uu), (N +/- U), (N ± U), bare N +/- U, each with
    an optional exponent suffix) in arithmetic contexts, against Python's arithmetic on
    ufloat(nominal, std_dev) and the named quantities; plus the token texts of the concise form
    for the model (KConcise).  Returns (oracle failures, coq cases, replay infos)."""
    fails, cases, meta = [], [], []
    try:
        from uncertainties import ufloat, ufloat_fromstr
        from pint import pint_eval
        from pint.compat import HAS_UNCERTAINTIES
    except ImportError:
        ck.count("uncertainties: package missing, skipped")
        return fails, cases, meta
    if not HAS_UNCERTAINTIES:
        ck.count("uncertainties: package missing, skipped")
        return fails, cases, meta
    ureg = registry(float)
    Q = ureg.Quantity
    m, sec, kg = Q(1, "meter"), Q(1, "second"), Q(1, "kilogram")
    # context: (prefix, suffix, function of the uncertain number giving Python's value, power?)
    contexts = [
        ("", "", lambda x: x, False), ("", " m", lambda x: x * m, False), ("", "*m", lambda x: x * m, False),
        ("", " m/s", lambda x: x * m / sec, False), ("", " m**2", lambda x: x * m ** 2, False),
        ("", "/s", lambda x: x / sec, False), ("3 * ", " kg", lambda x: 3 * x * kg, False),
        ("2 ", "", lambda x: 2 * x, False), ("-", " m", lambda x: -x * m, False),
        ("m / ", "", lambda x: m / x, False), ("1 + ", "", lambda x: 1 + x, False),
        ("", " - 1", lambda x: x - 1, False),
        ("", "**2", lambda x: x ** 2, True), ("", "^2 m", lambda x: x ** 2 * m, True), ("", "²", lambda x: x ** 2, True),
    ]
    # zero and nan nominal values included: an exponent suffix still scales the standard deviation
    noms = ["1.2", "12.3", "1.23", "8.0", "0.5", "4.400", "12.34", "7", "120", "0.05", "5.", ".5",
            "0", "0.0", "0.00", "00.000", "-0.0", "nan"]
    uncs = ["4", "04", "12", "34", "345", "5678", "100", "4.5", "0.3", "007"]
    exps = ["", "3", "-2", "+05"]
    grid = [(n, u, e) for n in noms for u in uncs for e in exps]
    if not thorough:
        grid = [g for i, g in enumerate(grid) if i % 2 == 0 or g[2] == ""]
    for _ in range(1500 if thorough else 250):
        ip = "".join(rng.choice("0123456789") for _ in range(rng.randint(1, 3))).lstrip("0") or "0"
        fp = "".join(rng.choice("0123456789") for _ in range(rng.randint(0, 4)))
        nom = ip + ("." + fp if fp or rng.random() < 0.1 else "")
        unc = "".join(rng.choice("0123456789") for _ in range(rng.randint(1, 5)))
        if rng.random() < 0.15:
            unc = unc + "." + rng.choice("0123456789")
        grid.append((nom, unc, rng.choice(["", "", "2", "-3", "+1", "-04"])))
    for _ in range(300 if thorough else 60):
        z = rng.choice(["0", "0.", "0.0", "0.00", "0.000", "00.0", ".0", "-0.0", "nan"])
        unc = "".join(rng.choice("0123456789") for _ in range(rng.randint(1, 4))).lstrip("0") or "5"
        grid.append((z, unc, rng.choice(["3", "-2", "+05", "1", "-1", "12"])))
    n_eval = 0
    seen_tok = set()
    for nom, unc, exp in grid:
        n, sd = unc_expected(nom, unc, exp)
        n0, sd0 = unc_expected(nom, unc, "")
        suffix = ("e" + exp) if exp else ""
        special = nom == "nan" or nom.startswith("-")
        if special and "." not in unc:
            sd0 = Decimal(unc) if nom == "nan" else sd0      # nan has no decimals to count in
            sd = sd0.scaleb(int(exp)) if exp else sd0
        spellings = [] if special else [("concise", f"{nom}({unc}){suffix}")]
        spellings += [
                     ("paren", f"({dec_text(n0)} +/- {dec_text(sd0)}){suffix}"),
                     ("paren-pm", f"({dec_text(n0)} ± {dec_text(sd0)}){suffix}"),
                     ("paren-tight", f"({dec_text(n0)}+/-{dec_text(sd0)}){suffix}")]
        if not exp:
            spellings.append(("bare", f"{dec_text(n0)} +/- {dec_text(sd0)}"))
        # the token text of the concise form, for the model
        plain = nom.replace(".", "", 1).isdigit() and nom != "." and unc.isdigit()
        if plain and (nom, unc) not in seen_tok:
            seen_tok.add((nom, unc))
            got_t = outcome(lambda: [t.string for t in pint_eval.uncertainty_tokenizer(f"{nom}({unc})")
                                     if t.type == 2])
            ndec = len(nom.partition(".")[2])
            text = got_t[1][1] if got_t[0] == "ok" and len(got_t[1]) == 2 else "<" + str(got_t[1]) + ">"
            cases.append(f"KConcise {ndec} {T.coq_str(unc)} {T.coq_str(text)}")
            meta.append({"stream": "concise-token", "string": f"{nom}({unc})", "pint_token": text})
            ck.count("uncertainties:concise token text")
        ctxs = contexts if (thorough or exp == "") else rng.sample(contexts, 5)
        for kind, lit in spellings:
            for pre, suf, fn, is_pow in ctxs:
                if kind == "bare" and (is_pow or pre in ("m / ", "-", "2 ")):
                    # "a +/- b" without parentheses is an operator expression of its own: only in
                    # contexts where +/- (priority 4) binding first is what one writes
                    continue
                txt = pre + lit + suf
                want = outcome(lambda: fn(ufloat(float(n), float(sd))))
                for path in ("parse_expression", "Quantity"):
                    if path == "Quantity" and (pre or is_pow):
                        continue
                    got = outcome(lambda: getattr(ureg, path)(txt))
                    w = want
                    if path == "Quantity" and want[0] == "ok":
                        w = outcome(lambda: Q(want[1]))
                    n_eval += 1
                    ck.count(f"uncertainties:{kind}:" + ("value" if got[0] == "ok" else "error"))
                    if same_outcome(got, w):
                        continue
                    key = "uncertainty-value:" + txt
                    if is_pow:
                        # F41: the power binds to the standard deviation only
                        alt_x = ufloat(float(n), float(sd) ** 2)
                        alt = outcome(lambda: alt_x * m if suf.endswith(" m") else alt_x)
                        if same_outcome(got, alt):
                            key = "uncertainty-power-binds-stddev:" + txt
                    fails.append((key, f"{path}({txt!r}) = {describe(got)}, but Python's arithmetic on "
                                       f"ufloat({float(n)!r}, {float(sd)!r}) gives {describe(w)}",
                                  {"string": txt, "spelling": kind, "nominal": str(n), "std_dev": str(sd),
                                   "path": path, "pint": describe(got), "python": describe(w)}))
            ck.case(key=("unc", kind, lit), nontrivial=True,
                    sample={"string": lit + " m", "denotes": f"{n} +/- {sd}"} if kind == "concise" and exp and len(ck.samples) < 8 else None)
        # second opinion on the oracle itself: the uncertainties package's own reader of the concise form
        if plain and not exp:
            o2 = outcome(lambda: ufloat_fromstr(f"{nom}({unc})"))
            if o2[0] == "ok" and not same_unc(o2[1], ufloat(float(n), float(sd))):
                ck.count("uncertainties: oracle differs from uncertainties.ufloat_fromstr (not counted as violation)")
    ck.extra["uncertainty_level"] = {
        "evaluations": n_eval, "literals": len(grid),
        "spellings": ["N(uu)[e±k]", "(N +/- U)[e±k]", "(N ± U)[e±k]", "(N+/-U)[e±k]", "N +/- U"],
        "contexts": [p + "<x>" + q for p, q, _, _ in contexts],
        "oracle": "nominal and std_dev from the literal text with Decimal (concise digits count in units of the last "
                  "decimal of the nominal value), then Python arithmetic on uncertainties.ufloat and ureg.Quantity; "
                  "nominal and std_dev compared with rel 1e-9",
        "not_generated": "nominal values with digit-group underscores in the concise form (1_0.5(04) is read as +/- 0.04, "
                         "not 0.4: the concise rule only recognises plain decimals) — C19's tokenizer domain",
    }
    return fails, cases, meta


# ----------------------------------------------------------------------------- large integer literals
def big_integer_texts(rng, thorough):
    """integer literals around and above the limits where a detour through a double, a 64-bit
    integer or a fixed number of digits would show: 2**53, 2**63, 2**64, 2**100, 2**128, 10**k,
    nanosecond time stamps, random 17..40-digit numbers, a few with digit-group underscores"""
    vals = set()
    for p in (31, 32, 52, 53, 54, 62, 63, 64, 65, 100, 127, 128):
        for d in (-3, -1, 0, 1, 2, 3, 5):
            vals.add(2 ** p + d)
    for k in (9, 15, 16, 17, 18, 19, 20, 21, 22, 25, 30, 40, 100, 307, 308, 309, 310, 400):
        for d in (-1, 0, 1, 7):
            vals.add(10 ** k + d)
    vals |= {1700000000123456789, 1700000000123456788, 946684800000000001, 12345678901234567890,
             9007199254740993, 9007199254740992, 9007199254740991, 18446744073709551615, 99999999999999999999}
    for _ in range(400 if thorough else 60):
        nd = rng.choice([16, 17, 17, 18, 19, 19, 20, 22, 25, 30, 40])
        vals.add(int(str(rng.randint(1, 9)) + "".join(rng.choice("0123456789") for _ in range(nd - 1))))
    texts = [str(v) for v in sorted(vals) if v > 0]
    # digit-group underscores (Python integer literal syntax)
    for v in (9007199254740993, 1700000000123456789, 2 ** 64 + 1):
        t = str(v)
        texts.append("_".join([t[max(0, i - 3):i] for i in range(len(t), 0, -3)][::-1]))
    return texts


def literal_level(ck, rng, thorough):
    """integers stay integers, exactly: every large integer literal, alone and in arithmetic /
    unit contexts and spellings, through the three entry points and registries, against Python's
    arithmetic on int(text) (resp. Decimal(text) / Fraction(text)); the float registry's value also
    goes to the model as a KLitVal case.  Returns (oracle failures, coq cases, replay infos)."""
    fails, cases, meta = [], [], []
    nits = (float, Decimal, Fraction)
    texts = big_integer_texts(rng, thorough)
    n_eval = 0
    one, seven = ("num", "1"), ("num", "7")
    ns, m = ("name", "ns"), ("name", "m")

    def contexts(N):
        return [N, ("bin", "", N, ns), ("bin", "*", N, ns), ("neg", ("bin", "", N, ns)), ("bin", "+", N, one),
                ("bin", "-", N, one), ("bin", "//", N, seven), ("bin", "", ("par", N), m), ("bin", "*", ("num", "3"), N),
                ("bin", "", N, ("bin", "**", ns, ("num", "2"))), ("bin", "/", ("bin", "", N, ns), ("bin", "", N, ns)),
                ("bin", "-", ("bin", "", N, ns), ("bin", "", ("num", "1"), ns))]
    ureg = registry(float)
    for i, txt in enumerate(texts):
        N = ("num", txt)
        # the literal alone: exact value and type in the float registry -> model
        got = outcome(lambda: ureg.parse_expression(txt))
        if got[0] == "ok" and type(got[1]) is int:
            cases.append(f"KLitVal {T.coq_str(txt)} {got[1]}%N")
        else:
            cases.append(f"KLitVal {T.coq_str(txt)} 0%N")      # not an int: the model disagrees
        meta.append({"stream": "large-literal", "string": txt, "pint": describe(got)})
        ck.count("large literals:alone")
        ctxs = contexts(N)
        if not thorough and i % 3:
            ctxs = [ctxs[0]] + rng.sample(ctxs[1:], 3)
        for e in ctxs:
            cst = T.parenthesize("min", e) if e[0] != "bin" or e[2][0] != "par" else e
            for fancy in (False, True):
                s_, src, leaves = to_string(rng, cst, fancy=fancy)
                for nit in (nits if (thorough or i % 4 == 0) else (float,)):
                    paths = ["parse_expression"]
                    if fancy:
                        paths += ["Quantity", "from_string"]
                    n_eval += check_string(ck, fails, nit, s_, src, leaves, paths, stream="large-literals")
            ck.case(key=("biglit", T.show(e)), nontrivial=True,
                    sample={"string": _short(txt) + " ns"} if i % 40 == 0 and len(ck.samples) < 8 else None)
        # glued spelling "123ns" (the preprocessor inserts the *)
        n_eval += check_string(ck, fails, float, txt + "ns", "L0*L1", [N, ns], ["parse_expression"], stream="large-literals")
    ck.extra["literal_level"] = {
        "evaluations": n_eval, "literals": len(texts),
        "classes": "2**p + d for p in 31..128, 10**k + d for k in 9..400, nanosecond time stamps, random 16..40-digit "
                   "integers, digit-group underscores",
        "oracle": "Python arithmetic on int(text) (float registry), Decimal(text), Fraction(text) and the named quantities; "
                  "exact equality of value and type",
    }
    return fails, cases, meta
