"""C08 — unit names resolve deterministically: exact names first, then prefix+unit+plural.

Theorems: coq/Properties/C08.v over Model/Registry.v + Model/Names.v, on the registry regenerated
from /repo's definition files (T1).

Correspondence (model inside Coq vs pint): the cross product prefix spelling x unit spelling x
{'', 's'} of the default registry, the case-folded variants under case_sensitive=False, random
non-unit strings, compound unit strings (delta substitution, as_delta on/off, default_as_delta),
through parse_unit_name / get_name / get_symbol / parse_units / getattr / `in`; each asked on the
registry as constructed ("fresh") and inside sequences of earlier lookups; generated registries
with colliding spellings.

Property oracles (pint alone, against tables read from the definition files by T1's independent
reader): exact-first (name and symbol), every candidate is a valid decomposition, every valid
decomposition is a candidate unless shadowed, the winner is the first in suffix/prefix-table order,
UndefinedUnitError iff no reading, offset units not prefixable, prefix factor applied once
(Fraction registry), case-insensitive lookup conservative, delta substitution, and equality of
every answer in the fresh and the warmed registry.
"""
from __future__ import annotations

import logging
import os
import random
import re
import tempfile
from fractions import Fraction as F
from pathlib import Path

from . import t1_defs
from .common import REPO, coq_bool, coq_list

logging.getLogger("pint").setLevel(logging.ERROR)

HEADER = ("From Coq Require Import Uint63.\nFrom PintV Require Import Model.UC Model.Eval Model.Registry Model.UCRun Model.Names Model.NamesRun "
          "Gen.DefaultDefs Gen.DefaultReg.\nOpen Scope string_scope.\n"
          "Definition R0 : nreg := nreg_of default_raw.\n"
          "Definition ok (k : ncase) : bool := c08_ok R0 k.\n")


# ------------------------------------------------------------------ independent tables (T1 reader)
class UDef:
    __slots__ = ("name", "symbol", "mult", "lazy")

    def __init__(self, name, symbol, mult, lazy=False):
        self.name, self.symbol, self.mult, self.lazy = name, symbol, mult, lazy


def _num(toks):
    """value of a purely numeric right-hand side (prefix values, offsets) as a Fraction"""
    src = "".join(f"F('{t}')" if k == "num" else t for k, t in toks)
    if any(k == "name" for k, _ in toks):
        raise ValueError("not numeric")
    return F(eval(src, {"F": F, "__builtins__": {}}))  # noqa: S307 - tokens come from T1's own lexer


class Tables:
    """prefix and unit spellings of a definition file, read without pint"""

    def __init__(self, path):
        parsed = t1_defs.parse_file(Path(path))
        self.pkeys = {"": ""}                 # spelling -> canonical name, in insertion order
        self.pdef = {"": ("", F(1))}          # canonical name -> (symbol, value)
        self.units = {}                        # spelling -> UDef
        self.redefined = []                    # spellings defined twice (pint logs "Redefining …")
        refs = []
        for d in parsed["defs"]:
            k = d["kind"]
            if k == "prefix":
                fields = [f.rstrip("-") for f in d["fields"]]
                name, rest = fields[0], fields[1:]
                sym = rest[0] if rest and rest[0] != "_" else None
                aliases = [a for a in rest[1:] if a not in ("", "_")]
                self.pdef[name] = (sym if sym else name, _num(d["value"]))
                for key in [name] + ([sym] if sym else []) + aliases:
                    if key in self.pkeys:
                        self.redefined.append(key + "-")
                    self.pkeys[key] = name
            elif k == "unit":
                name, rest = d["fields"][0], d["fields"][1:]
                sym = rest[0] if rest and rest[0] != "_" else None
                aliases = [a for a in rest[1:] if a not in ("", "_")]
                mods = dict(d["mods"])
                mult, offset = True, False
                if "logbase" in mods:
                    mult = False
                elif "offset" in mods and _num(mods["offset"]) != 0:
                    mult, offset = False, True
                ud = UDef(name, sym if sym else name, mult)
                for key in [name] + ([sym] if sym else []) + aliases:
                    if key in self.units:
                        self.redefined.append(key)
                    self.units[key] = ud
                refs += [t for kk, t in d["rhs"] if kk == "name" and not t.startswith("[")]
                if offset:
                    dd = UDef("delta_" + name, "Δ" + sym if sym else "delta_" + name, True)
                    for key in (["delta_" + name] + (["Δ" + sym] if sym else []) + ["Δ" + a for a in aliases]
                                + ["delta_" + a for a in aliases]):
                        if key in self.units:
                            self.redefined.append(key)
                        self.units[key] = dd
            elif k == "alias":
                ud = self.units[d["name"]]
                for a in d["aliases"]:
                    if a in self.units:
                        self.redefined.append(a)
                    self.units[a] = ud
        self.by_first = {}
        for i, pk in enumerate(self.pkeys):
            if pk:
                self.by_first.setdefault(pk[0], []).append((i, pk))
        # prefixed names referenced by definitions are registered while the registry is built; they are
        # NOT defined units (the statement's tables), but pint's unit table holds them (see F3)
        self.lazy = {}
        for r in refs:
            if r not in self.units and r not in self.lazy:
                c = self.candidates(r)
                if c and c[0][0]:
                    p, u = c[0]
                    if self.units[u].mult:
                        self.lazy[p + u] = UDef(p + u, self.pdef[p][0] + self.units[u].symbol, True, lazy=True)
        self.with_lazy = {**self.units, **self.lazy}
        self.p_spellings = {}
        for pk, pn in self.pkeys.items():
            self.p_spellings.setdefault(pn, []).append(pk)
        self.u_spellings = {}
        for uk, ud in self.units.items():
            self.u_spellings.setdefault(ud.name, []).append(uk)
        self.u_lower = {}
        for uk in self.units:
            self.u_lower.setdefault(uk.lower(), []).append(uk)

    # the statement's reading of a string: prefix spelling + unit spelling + '' or 's'
    def readings(self, s, casei=False, lazy=False):
        """ordered list of (prefix name, unit name) in suffix-major, prefix-table order;
        lazy=True: the names registered while the registry was built count as unit spellings"""
        units = self.with_lazy if lazy else self.units
        out = []
        for suffix in ("", "s"):
            if not s.endswith(suffix):
                continue
            cands = [(0, "")] + (self.by_first.get(s[0], []) if s else [])
            for _, pk in sorted(cands):
                if not s.startswith(pk):
                    continue
                name = s[len(pk):]
                if suffix:
                    name = name[:-len(suffix)]
                    if len(name) == 1:
                        continue
                if not casei:
                    if name in units:
                        out.append((self.pkeys[pk], units[name].name))
                else:
                    for real in self.u_lower.get(name.lower(), ()):
                        out.append((self.pkeys[pk], self.units[real].name))
        return out

    def candidates(self, s, casei=False, lazy=False):
        o = list(dict.fromkeys(self.readings(s, casei, lazy)))
        shadowed = {("", p + u) for p, u in o if p}
        return [c for c in o if c not in shadowed]

    def winner(self, s, lazy=False):
        """('ok', name, symbol) | ('err', kind) — the resolution the statement prescribes"""
        units = self.with_lazy if lazy else self.units
        if s == "dimensionless":
            return ("ok", "", None)
        if s in units:
            ud = units[s]
            return ("ok", ud.name, ud.symbol)
        c = self.candidates(s, lazy=lazy)
        if not c:
            return ("err", "KUndefined")
        p, u = c[0]
        if p and not units[u].mult:
            return ("err", "KOffset")
        return ("ok", p + u, self.pdef[p][0] + units[u].symbol)


# ------------------------------------------------------------------ the implementation side
def ekind(e):
    import pint
    if isinstance(e, pint.errors.UndefinedUnitError):
        return "KUndefined"
    if isinstance(e, pint.errors.OffsetUnitCalculusError):
        return "KOffset"
    if isinstance(e, pint.errors.DefinitionSyntaxError):
        return "KOther"
    if isinstance(e, AttributeError):
        return "KAttribute"
    if isinstance(e, ValueError):
        return "KValue"
    return "KOther"


class Impl:
    """a pint registry that can be put back into its as-constructed state"""

    def __init__(self, filename=None, **kw):
        import pint
        args = () if filename is None else (str(filename),)
        self.u = pint.UnitRegistry(*args, non_int_type=F, cache_folder=None, **kw)
        self.table = self.u._units.maps[0] if hasattr(self.u._units, "maps") else self.u._units
        self.snap = dict(self.table)
        self.lazy = getattr(self.u, "_lazy_units", None)       # present once F3 is repaired as proposed
        self.lazy_snap = set(self.lazy) if self.lazy is not None else None

    def reset(self):
        if len(self.table) != len(self.snap) or any(self.table[k] is not v for k, v in self.snap.items()):
            self.table.clear()
            self.table.update(self.snap)
            if self.lazy is not None:
                self.lazy.clear()
                self.lazy.update(self.lazy_snap)
        self.u._cache.parse_unit.clear()

    def added(self):
        return [k for k in self.table if k not in self.snap]

    def call(self, op):
        """op = (api, ...) -> ('ok', value) | ('err', kind)"""
        u, api = self.u, op[0]
        try:
            if api == "parse":
                return ("ok", tuple((p, n) for p, n, _ in u.parse_unit_name(op[2], op[1])))
            if api == "name":
                return ("ok", u.get_name(op[2], op[1]))
            if api == "symbol":
                return ("ok", u.get_symbol(op[2], op[1]))
            if api == "defsym":       # the symbol stored with the definition the string resolves to
                return ("ok", u._get_symbol(u.get_name(op[2], op[1])))
            if api == "short":        # the same, through the public short format of the unit
                return ("ok", format(u.Unit(op[1]), "~"))
            if api == "units":
                r = u.parse_units(op[1], as_delta=op[2], case_sensitive=op[3])
                return ("ok", tuple(sorted((k, F(v)) for k, v in r._units.items())))
            if api == "entry":        # the container a unit STRING denotes on the conversion side
                from pint.util import to_units_container
                r = to_units_container(op[1], u)
                return ("ok", tuple(sorted((k, F(v)) for k, v in r.items())))
            if api in ("roots", "roots_u", "base", "base_u"):   # get_root_units / get_base_units of the string / of the parsed Unit
                arg = op[1] if api in ("roots", "base") else u.parse_units(op[1])
                f, b = (u.get_root_units if api.startswith("roots") else u.get_base_units)(arg)
                fx = "float" if isinstance(f, float) else (None if f is None else F(f))
                return ("ok", (fx, tuple(sorted((k, F(v)) for k, v in b._units.items()))))
            if api == "qto":          # Quantity(1, parse_units(text)).to(text)
                q = u.Quantity(F(1), u.parse_units(op[1])).to(op[1])
                m = q.magnitude
                return ("ok", ("float" if isinstance(m, float) else F(m), tuple(sorted((k, F(v)) for k, v in q._units.items()))))
            if api == "getattr":
                r = getattr(u, op[1])
                return ("ok", tuple(sorted((k, F(v)) for k, v in r._units.items())))
            if api == "in":
                return ("ok", op[1] in u)
        except RecursionError:
            return ("err", "KOther")
        except Exception as e:  # noqa: BLE001 - the error class is the observation
            return ("err", ekind(e))
        raise ValueError(api)


# ------------------------------------------------------------------ Coq terms
def cstr(s):
    """compact string literal: NamesRun.s_ applied to 63-bit integers of seven bytes each (Coq 8.16
    elaborates "…" literals character by character; this is ~5x cheaper)"""
    b = s.encode("utf-8")
    if not b:
        return "(s_ [])"
    return "(s_ [" + "; ".join(str(int.from_bytes(b[i:i + 7], "little")) for i in range(0, len(b), 7)) + "]%uint63)"


def c_uc(d):
    from .common import coq_q
    return "(mkuc [" + "; ".join(f"({cstr(k)}, {coq_q(v)})" for k, v in sorted(d.items())) + "])"


def c_toks(toks):
    m = {"num": "TNum", "name": "TName", "op": "TOp"}
    return coq_list([f"{m[k]} {cstr(t)}" for k, t in toks] + ["TEnd"])


def coq_ob(b):
    return "None" if b is None else f"(Some {coq_bool(b)})"


def coq_pairs(l):
    return coq_list(["(" + cstr(p) + ", " + cstr(u) + ")" for p, u in l])


def coq_ures(o, f):
    return f"(UOk {f(o[1])})" if o[0] == "ok" else f"(UErr {o[1]})"


def lex_ok(text):
    """tokens of a unit expression by T1's lexer, or None when the text is outside its alphabet"""
    if not SAFE.fullmatch(text) or "per" in text.split() or re.search(r"\d[A-Za-z_]", text) and not IDENT.fullmatch(text):
        return None
    try:
        return t1_defs.lex(text)
    except t1_defs.T1Error:
        return None


LETTERS = "A-Za-z_µμΔΩÅåéöøħαγεζλπσΦ"
SAFE = re.compile(rf"[{LETTERS}0-9*/(). -]*")
IDENT = re.compile(rf"[{LETTERS}][{LETTERS}0-9]*")


def coq_op(op, o):
    api = op[0]
    if api == "parse":
        return f"OParse {coq_ob(op[1])} {cstr(op[2])} {coq_pairs(o[1])}"
    if api == "name":
        return f"OName {coq_ob(op[1])} {cstr(op[2])} {coq_ures(o, cstr)}"
    if api == "symbol":
        return f"OSymbol {coq_ob(op[1])} {cstr(op[2])} {coq_ures(o, cstr)}"
    if api == "defsym":
        return f"ODefSym {coq_ob(op[1])} {cstr(op[2])} {coq_ures(o, cstr)}"
    if api == "all":
        return f"OAll {cstr(op[2])} {coq_pairs(o[0][1])} {coq_ures(o[1], cstr)} {coq_ures(o[2], cstr)}"
    toks = c_toks(lex_ok(op[1]) or [])
    if api == "entry":        # modelled by the same function as parse_units with the registry's settings
        return f"OUnits {cstr(op[1])} {toks} None None {coq_ures(o, lambda v: c_uc(dict(v)))}"
    if api == "units":
        return (f"OUnits {cstr(op[1])} {toks} {coq_ob(op[2])} {coq_ob(op[3])} "
                f"{coq_ures(o, lambda v: c_uc(dict(v)))}")
    if api == "getattr":
        return f"OGetattr {cstr(op[1])} {toks} {coq_ures(o, lambda v: c_uc(dict(v)))}"
    if api == "in":
        return f"OIn {cstr(op[1])} {toks} {coq_ures(o, coq_bool)}"
    raise ValueError(api)


SWITCHES = {"symexact": False, "lazyfix": False}     # defect switches, selected by run() from witnesses


def coq_cfg(case=True, delta=True, symexact=None):
    sx = SWITCHES["symexact"] if symexact is None else symexact
    return f"(Cfg {coq_bool(case)} {coq_bool(delta)} {coq_bool(sx)} {coq_bool(SWITCHES['lazyfix'])})"


# the model's lower-casing (Model/Names.v [lower]); strings on which Python disagrees are not asked
def model_lower(s):
    out = []
    for ch in s:
        o = ord(ch)
        if 65 <= o <= 90 or 0xC0 <= o <= 0xDE and o != 0xD7 or 0x391 <= o <= 0x3AB and o != 0x3A2:
            out.append(chr(o + 32))
        elif o == 0x126:
            out.append(chr(0x127))
        elif o == 0x2126:
            out.append("ω")
        elif o == 0x212A:
            out.append("k")
        elif o == 0x212B:
            out.append("å")
        else:
            out.append(ch)
    return "".join(out)


def casei_domain(s):
    return s.lower() == model_lower(s)


class Fails:
    """property-oracle failures, at most a few replays per kind"""

    def __init__(self):
        self.items, self.per = [], {}

    def add(self, key, desc, rp):
        kind = key.split(":", 1)[0]
        self.per[kind] = self.per.get(kind, 0) + 1
        if self.per[kind] <= 3:
            self.items.append((key, desc, rp))


# ------------------------------------------------------------------ why an answer may depend on history
def history_kind(T, impl, strings):
    """Identify, from the state of the unit table, the mechanism by which earlier lookups can change an
    answer about `strings`: entries the lookups ADDED (lazily registered prefix+unit names) or REPLACED.
    Returns a violation-key prefix, or None when no reading of the strings touches such an entry."""
    added = {k for k in impl.table if k not in impl.snap}
    replaced = {k for k, v in impl.snap.items() if impl.table.get(k) is not v}
    if not added and not replaced:
        return None
    found = set()
    for s in strings:
        for pk in T.pkeys:
            if not s.startswith(pk):
                continue
            for sfx in ("", "s"):
                if not s.endswith(sfx) or len(s) < len(pk) + len(sfx):
                    continue
                name = s[len(pk):len(s) - len(sfx)]
                if sfx and len(name) == 1:
                    continue
                entry = impl.table.get(name)
                if entry is None:
                    continue
                if name in added:
                    found.add("history-doubly-prefixed" if pk else ("history-plural-of-lazy-name" if sfx else "history-lazy-exact"))
                if name in replaced or entry.name in replaced or (pk and pk + entry.name in replaced):
                    found.add("history-overwritten-definition")
    for k in ("history-doubly-prefixed", "history-overwritten-definition", "history-plural-of-lazy-name", "history-lazy-exact"):
        if k in found:
            return k
    return None


def op_strings(op):
    if op[0] in ("parse", "name", "symbol", "all", "defsym"):
        return [op[2]]
    return [t for k, t in (lex_ok(op[1]) or []) if k == "name"] or [op[1]]


# ------------------------------------------------------------------ oracles on one string (fresh registry)
def oracle_string(T, fails, s, o_parse, o_name, o_sym, tag=""):
    exp = T.candidates(s)
    rp = {"string": s, "parse_unit_name": o_parse, "get_name": o_name, "get_symbol": o_sym, "expected_candidates": exp}
    if tag:
        rp["registry"] = tag
    if o_parse[0] != "ok":
        fails.add(f"parse-raises:{s}", "parse_unit_name raised", rp)
        return
    got = list(o_parse[1])
    expl = T.candidates(s, lazy=True)
    if expl != exp and got == expl:
        # a reading goes through a prefixed name registered while the registry was built: F3 at construction
        fails.add(f"lazy-prefixed-unit-prefixable:{s}",
                  f"parse_unit_name({s!r}) = {got}: reads a prefixed name that only exists because a definition "
                  f"referenced it (readings over the defined units: {exp})", rp)
        return
    valid = set(T.readings(s))
    for c in got:
        if c not in valid:
            one = s.endswith("s") and any(s == pk + uk + "s" and len(uk) == 1 for pk in T.p_spellings.get(c[0], ())
                                          for uk in T.u_spellings.get(c[1], ()))
            fails.add(("plural-one-letter:" if one else "candidate-unsound:") + s,
                      f"parse_unit_name({s!r}) returns {c}, which is not prefix spelling + unit spelling + ''/'s'"
                      + (" (one-letter stem before the plural s)" if one else ""), rp)
    prefixed = {p + u for p, u in valid if p}
    for c in valid:
        if c not in got and not (c[0] == "" and c[1] in prefixed):
            fails.add(f"candidate-missing:{s}", f"parse_unit_name({s!r}) lacks the reading {c}", rp)
    for c in got:
        if c[0] == "" and c[1] in prefixed and c in valid:
            fails.add(f"dedup-kept-unprefixed:{s}", f"parse_unit_name({s!r}) keeps {c} beside its prefixed reading", rp)
    if len(set(got)) != len(got):
        fails.add(f"candidate-duplicate:{s}", "duplicate candidates", rp)
    # resolution: exact first, then the first reading in suffix / prefix-table order
    w = T.winner(s)
    exact = s in T.units
    if w[0] == "err":
        if o_name != w:
            kind = {"KUndefined": "undefined-iff", "KOffset": "offset-prefixed"}[w[1]]
            fails.add(f"{kind}:{s}", f"get_name({s!r}) gives {o_name}, the statement prescribes {w}", rp)
    elif o_name != ("ok", w[1]):
        kind = "exact-name" if exact else ("undefined-iff" if o_name == ("err", "KUndefined") else "winner")
        fails.add(f"{kind}:{s}", f"get_name({s!r}) gives {o_name}, the statement prescribes {w[1]!r}", rp)
    if exact:
        ud = T.units[s]
        if o_sym != ("ok", ud.symbol):
            shadow = [(p, u) for p, u in valid if p and p + u == ud.name]
            if shadow and o_sym == ("ok", T.pdef[shadow[0][0]][0] + T.units[shadow[0][1]].symbol):
                fails.add(f"exact-symbol-shadowed:{s}",
                          f"get_symbol({s!r}) = {o_sym[1]!r}, the definition's symbol is {ud.symbol!r} "
                          f"(the prefixed reading {shadow[0][0]}+{shadow[0][1]} shadows the exact entry)", rp)
            else:
                fails.add(f"exact-symbol:{s}", f"get_symbol({s!r}) gives {o_sym}, the definition's symbol is {ud.symbol!r}", rp)
    elif exp:
        p, u = exp[0]
        want = ("ok", T.pdef[p][0] + T.units[u].symbol)
        written = T.units.get(p + u) if p else None       # prefix + unit composes the name of a written definition
        if written is not None and written.name == p + u and written.symbol != want[1] and T.units[u].mult:
            if o_sym == want:
                fails.add(f"symbol-of-written-prefixed-unit:{s}",
                          f"get_symbol({s!r}) = {o_sym[1]!r} although {s!r} denotes the written unit {p + u!r} whose symbol is "
                          f"{written.symbol!r} (what _get_symbol and the short format report)", rp)
            elif o_sym != ("ok", written.symbol):
                fails.add(f"symbol:{s}", f"get_symbol({s!r}) gives {o_sym}, expected {('ok', written.symbol)}", rp)
        elif o_sym != want:
            fails.add(f"symbol:{s}", f"get_symbol({s!r}) gives {o_sym}, expected {want}", rp)
    elif o_sym != ("err", "KUndefined"):
        fails.add(f"symbol-undefined:{s}", f"get_symbol({s!r}) gives {o_sym} for a string with no reading", rp)


def oracle_stored_symbol(T, fails, impl, s, o_name, check_format=False):
    """the symbol stored with the definition `s` resolves to (what the short '~' formats print) is that of
    the definition: prefix symbol + unit symbol, a unit defined without a symbol contributing its name"""
    o = impl.call(("defsym", None, s))
    impl.reset()
    w = T.winner(s)
    if w[0] == "ok" and w[1] in T.units:        # prefix + unit composes the name of a unit the files define
        w = (w[0], w[1], T.units[w[1]].symbol)
    if w[0] == "ok" and w[1] and o_name == ("ok", w[1]):
        if o != ("ok", w[2]):
            fails.add(f"stored-symbol:{s}", f"after get_name({s!r}) = {w[1]!r} the definition's stored symbol (_get_symbol, "
                      f"short format) is {o}, prefix symbol + unit symbol is {w[2]!r}", {"string": s, "canonical": w[1], "got": o, "want": w[2]})
        elif check_format and IDENT.fullmatch(s) and lex_ok(s) is not None and w[2].isascii() and w[2].isalnum():
            of = impl.call(("short", s))
            impl.reset()
            if of != ("ok", w[2]):
                fails.add(f"stored-symbol-format:{s}", f"format(ureg.Unit({s!r}), '~') gives {of}, the definition's symbol is {w[2]!r}",
                          {"string": s, "got": of, "want": w[2]})
    return o


def attr_refused(s):
    return s.endswith("__") or not s.lstrip("_") or (s.startswith("_") and not s.lstrip("_")[0].isdigit())


# ------------------------------------------------------------------ the check
def run(ck):
    import time
    rng = random.Random(ck.seed)
    thorough = ck.tier == "thorough"
    t_phase = {}
    t0 = [time.time()]

    def phase(name):
        t_phase[name] = round(time.time() - t0[0], 1)
        t0[0] = time.time()

    ck.rule = ("strings p+u+s over all prefix spellings x unit spellings x {'','s'} of the default registry "
               "(pint and the tables oracle on a 60 000 sample (quick) or on all (thorough); the Coq model on 10 000 "
               "sampled (quick) or all (thorough) plus every string with >= 2 candidates met), case-folded variants under "
               "case_sensitive=False, random non-unit strings, compound expressions with offset units; APIs "
               "parse_unit_name/get_name/get_symbol/parse_units/getattr/in; fresh registry and sequences of lookups; "
               "generated registries with colliding spellings. non-trivial = distinct (api, string, configuration)")
    ck.assumptions += [
        "the model registry is regenerated from default_en.txt/constants_en.txt by T1 on every run",
        "unit-expression strings are tokenised by T1's lexer; only strings inside its alphabet (identifiers, numbers, "
        "* / ** parentheses) reach parse_units/getattr/in — pint's string_preprocessor and tokenizer belong to C07",
        "case-insensitive questions are asked only about strings on which Model/Names.v [lower] equals str.lower() "
        "(ASCII, Latin-1, Greek, letter-like signs; no final-sigma contexts); candidates found through the "
        "case-insensitive index are compared up to order (Python set iteration)",
        "the statement's 'defined units' are the spellings written in the definition files; prefixed names that "
        "pint registers while building the registry (kilogram, millimeter, …) are not",
        "'fresh' answers for volume come from one registry whose unit table and parse cache are restored after "
        "every call; sequences also run on newly constructed registries",
    ]
    ck.coq_build(["Properties/C08.vo", "Model/NamesRun.vo", "Gen/DefaultReg.vo"])
    phase("coq build")

    T = Tables(REPO / "pint" / "default_en.txt")
    fresh = Impl()
    fails = Fails()
    cases, descs = [], []

    case_ops = []

    def add_case(kind, cfg, ops, desc):
        cases.append(f"{kind} {cfg} {coq_list([coq_op(op, o) for op, o in ops])}")
        descs.append(desc)
        case_ops.append((kind, cfg, ops))

    def add_fresh_cases(cfg, ops, label, per=24):
        for i in range(0, len(ops), per):
            chunk = ops[i:i + per]
            add_case("NFresh", cfg, chunk, {label: [op_strings(op)[0] for op, _ in chunk][:6]})

    # ---- the tables agree with what the registry holds (a tie, not an oracle)
    if T.redefined:
        ck.assumptions.append(f"the definition files define these spellings twice (last definition wins): {T.redefined[:8]}")
    if set(fresh.snap) != set(T.with_lazy):
        d1, d2 = sorted(set(fresh.snap) - set(T.with_lazy))[:5], sorted(set(T.with_lazy) - set(fresh.snap))[:5]
        fails.add("tables:spellings", f"unit spellings of the registry differ from the definition files: only in pint "
                  f"{d1}, only in files {d2}", {"only_pint": d1, "only_files": d2})
    if list(getattr(fresh.u, "_suffixes", {}).items()) != [("", ""), ("s", "")]:
        fails.add("tables:suffixes", "the registry's suffix table is not {'': '', 's': ''} (Model/Registry.v [suffixes])",
                  {"pint": list(getattr(fresh.u, "_suffixes", {}).items())})
    if list(fresh.u._prefixes) != list(T.pkeys):
        fails.add("tables:prefixes", "prefix spellings (or their order) differ from the definition files",
                  {"pint": list(fresh.u._prefixes)[:80], "files": list(T.pkeys)[:80]})

    # defect switch (F45): does get_symbol consult exact entries first?  witness computed from the tables
    shadowed = {s: [(p, u) for p, u in T.readings(s) if p and p + u == ud.name and T.pdef[p][0] + T.units[u].symbol != ud.symbol]
                for s, ud in T.units.items()}
    witness = sorted(s for s, l in shadowed.items() if l)
    symexact = bool(witness) and fresh.call(("symbol", None, witness[0])) == ("ok", T.units[witness[0]].symbol)
    fresh.reset()
    # defect switch (F3 …): are lazily registered names spellings?  witness: look p2+u up, then p1+p2+u
    lazyfix, lw = False, None
    for un in sorted({d.name for d in T.units.values() if d.mult})[:40]:
        s2 = "kilo" + un if "kilo" in T.pdef else None
        s1 = "milli" + s2 if s2 and "milli" in T.pdef else None
        if s1 and not T.candidates(s1) and s1 not in T.with_lazy and s2 not in T.with_lazy and T.candidates(s2)[:1] == [("kilo", un)]:
            before = fresh.call(("name", None, s1))
            fresh.call(("name", None, s2))
            after = fresh.call(("name", None, s1))
            fresh.reset()
            lazyfix, lw = (before == after == ("err", "KUndefined")), [s2, s1]
            break
    SWITCHES["symexact"], SWITCHES["lazyfix"] = symexact, lazyfix
    ck.extra["defect_switches"] = {"get_symbol_exact_first (F45 repaired)": symexact, "witnesses": witness[:4],
                                   "lazy_names_hidden_from_parsing (F3/F46/F47/F48 repaired)": lazyfix, "witness": lw}
    CFG = coq_cfg(True, True, symexact)

    pk_all = [p for p in T.pkeys if p]
    sp_all = list(T.with_lazy)
    cross_n = len(pk_all) * len(sp_all) * 2

    def fresh3(s):
        o1 = fresh.call(("parse", None, s))
        o2 = fresh.call(("name", None, s))
        fresh.reset()
        o3 = fresh.call(("symbol", None, s))
        return o1, o2, o3

    def fresh_ops(s, o):
        return [(("all", None, s), o)]

    # ---------------------------------------------------------------- (A) the cross product, fresh
    if thorough:
        strings = [p + u + x for p in pk_all for u in sp_all for x in ("", "s")]
        rng.shuffle(strings)
    else:
        strings = sorted({rng.choice(pk_all) + rng.choice(sp_all) + rng.choice(["", "s"]) for _ in range(45000)})
        rng.shuffle(strings)
        # every string of the cross product that the tables read in two or more ways (cheap: no pint involved)
        ambiguous = [s for s in (p + u + x for p in pk_all for u in sp_all for x in ("", "s"))
                     if len(T.candidates(s, lazy=True)) >= 2]
        strings = strings[:10000] + ambiguous + strings[10000:]
    n_model = len(strings) if thorough else 10000 + len(ambiguous)
    strings += sp_all + [u + "s" for u in sp_all]          # the exact spellings and their plurals
    seen, multi, obs3, obs_def = set(), [], {}, {}
    for s in strings:
        if s in seen:
            continue
        seen.add(s)
        o = fresh3(s)
        obs3[s] = o
        oracle_string(T, fails, s, *o)
        if len(o[0][1]) >= 2:
            multi.append(s)
        obs_def[s] = oracle_stored_symbol(T, fails, fresh, s, o[1], check_format=thorough or len(obs_def) % 12 == 0)
    ck.count("oracle:cross-product strings (fresh)", len(seen))
    ck.extra["cross_product_size"] = cross_n
    ck.extra["strings_with_2+_candidates"] = len(multi)
    model_strings = list(dict.fromkeys(strings[:n_model] + multi + sp_all))
    ops = [x for s in model_strings for x in fresh_ops(s, obs3[s]) + [(("defsym", None, s), obs_def[s])]]
    add_fresh_cases(CFG, ops, "fresh", per=24)
    for s in model_strings:
        ck.case(key=("fresh", s), nontrivial=True, n=3,
                sample={"string": s, "parse_unit_name": obs3[s][0][1], "get_name": obs3[s][1]} if len(ck.samples) < 2 and len(obs3[s][0][1]) > 1 else None)
    ck.count("model:cross-product strings (fresh, 3 APIs each)", len(model_strings))
    phase("cross product")

    # ---------------------------------------------------------------- (B) prefix factor applied exactly once
    pairs = {}
    for s in seen:
        o = obs3[s][1]
        c = T.candidates(s)
        if o[0] == "ok" and s not in T.with_lazy and c and c[0][0] and o[1] == c[0][0] + c[0][1]:
            pairs.setdefault(c[0], s)
    plist = sorted(pairs.items())
    if not thorough:
        plist = rng.sample(plist, min(len(plist), 2500))
    u = fresh.u
    nf = 0
    for (p, n), s in plist:
        try:
            f1, b1 = u.get_root_units(u.UnitsContainer({u.get_name(s): 1}))
            f0, b0 = u.get_root_units(u.UnitsContainer({n: 1}))
        except Exception as e:  # noqa: BLE001
            fails.add(f"prefix-once-raises:{s}", f"get_root_units raised {type(e).__name__}", {"string": s})
            continue
        finally:
            fresh.reset()
        if isinstance(f1, float) or isinstance(f0, float):
            continue          # irrational root factor (C02's float domain)
        nf += 1
        if F(f1) != T.pdef[p][1] * F(f0) or b1 != b0:
            fails.add(f"prefix-once:{s}", f"factor({s}) = {f1} but prefix {p} = {T.pdef[p][1]} and factor({n}) = {f0}",
                      {"string": s, "prefix": p, "unit": n})
        ck.case(key=("once", p, n), nontrivial=True)
    ck.count("oracle:prefix factor once (exact (prefix, unit) pairs)", nf)
    phase("prefix once")

    # ---------------------------------------------------------------- (C) case-insensitive lookup
    def variants(s):
        return {s.upper(), s.lower(), s.swapcase(), s.title(), s[:1].lower() + s[1:], s[:1].upper() + s[1:]} - {s}
    base = rng.sample(sorted(seen), min(len(seen), 6000 if thorough else 1200)) + multi[:200]
    n_ci, ci_ops = 0, []
    for s in base:
        for v in [s] + sorted(variants(s))[: (3 if thorough else 2)]:
            if not casei_domain(v):
                ck.count("skipped:outside the model's lower-casing")
                continue
            oc = fresh.call(("parse", True, v))
            oi = fresh.call(("parse", False, v))
            ni = fresh.call(("name", False, v))
            fresh.reset()
            si = fresh.call(("symbol", False, v))
            rp = {"string": v, "case_sensitive": list(oc[1]), "case_insensitive": list(oi[1])}
            want = set(T.candidates(v, casei=True))
            lazy_read = T.candidates(v, lazy=True) != T.candidates(v)
            if set(oi[1]) != want:
                fails.add(f"casei-candidates:{v}", f"case-insensitive candidates {sorted(oi[1])} != case-folded readings {sorted(want)}", rp)
            if not lazy_read:
                if not set(oc[1]) <= set(oi[1]):
                    fails.add(f"casei-drops:{v}", "case-insensitive lookup loses a case-sensitive candidate", rp)
                if set(oc[1]) != set(T.candidates(v)):
                    fails.add(f"case-sensitive-candidates:{v}", "case-sensitive lookup accepts a spelling that differs in case", rp)
            exact = v in T.with_lazy or v == "dimensionless"
            if ni[0] == "ok" and not exact and not any(p + n == ni[1] for p, n in oi[1]):
                fails.add(f"casei-name:{v}", f"get_name({v!r}, case_sensitive=False) = {ni} is none of the candidates", rp)
            if (ni == ("err", "KUndefined")) != (not exact and not want):
                fails.add(f"casei-undefined-iff:{v}", f"get_name({v!r}, case_sensitive=False) = {ni}", rp)
            ci_ops += [(("parse", False, v), oi), (("name", False, v), ni), (("symbol", False, v), si), (("parse", True, v), oc)]
            n_ci += 1
            ck.case(key=("casei", v), nontrivial=v != s, n=4)
    add_fresh_cases(CFG, ci_ops, "fresh case-insensitive")
    ck.count("case-folded strings (case_sensitive=False vs True)", n_ci)
    # registries constructed with case_sensitive=False
    ci_reg = Impl(case_sensitive=False)
    ops = []
    for s in rng.sample(base, min(len(base), 1200 if thorough else 300)):
        v = rng.choice(sorted(variants(s)) + [s])
        if not casei_domain(v) or lex_ok(v) is None or not IDENT.fullmatch(v) or v.lower() == "nan":
            continue
        if len(ci_reg.call(("parse", None, v))[1]) > 1:
            continue          # set-order dependent winner
        for op in (("name", None, v), ("units", v, None, None), ("in", v)):
            ops.append((op, ci_reg.call(op)))
            ci_reg.reset()
        ck.case(key=("casei-registry", v), n=3)
    add_fresh_cases(coq_cfg(False, True, symexact), ops, "registry case_sensitive=False")
    ck.count("registry(case_sensitive=False) calls", len(ops))
    phase("case-insensitive")

    # ---------------------------------------------------------------- (D) random non-unit strings; getattr / in
    alpha = "abcdefghijklmnopqrstuvwxyzABCDEFGHIJKLMNOPQRSTUVWXYZ_0123456789µΔΩ"

    def junk():
        r = rng.random()
        if r < 0.35:
            return "".join(rng.choice(alpha[:52]) for _ in range(rng.randint(1, 7)))
        if r < 0.6:                                   # a unit string with one edit
            s = rng.choice(pk_all + [""]) + rng.choice(sp_all) + rng.choice(["", "s", "es", "ss"])
            i = rng.randrange(len(s) + 1)
            return rng.choice([s[:i] + s[i + 1:], s[:i] + rng.choice(alpha) + s[i:], s[:i] + s[i:].swapcase(), s + s[-1:]])
        if r < 0.8:
            return rng.choice(["_", "__", "_" * 3, "_1", "__1m", "_" + rng.choice(sp_all), "__" + rng.choice(sp_all) + "__",
                               rng.choice(sp_all) + "__", "_" + str(rng.randint(0, 99)) + rng.choice(sp_all), "", "dimensionless",
                               "dimensionlesss", "s", "ss", "ms", "as", "Ps"])
        return rng.choice(pk_all) + rng.choice(pk_all) + rng.choice(sp_all)      # doubly prefixed

    nj, jops = 0, []
    for _ in range(12000 if thorough else 2500):
        s = junk()
        if s.lower().strip("_") == "nan":
            continue
        o = fresh3(s)
        oracle_string(T, fails, s, *o)
        jops += fresh_ops(s, o) + [(("defsym", None, s), oracle_stored_symbol(T, fails, fresh, s, o[1]))]
        if s == "" or (IDENT.fullmatch(s) and lex_ok(s) is not None):
            lazy_read = T.candidates(s, lazy=True) != T.candidates(s)
            w = T.winner(s)
            for op in (("getattr", s), ("in", s), ("units", s, None, None)):
                og = fresh.call(op)
                fresh.reset()
                jops.append((op, og))
                if lazy_read:
                    continue
                # the statement at the API level: getattr / `in` / parse_units follow the same resolution
                if w[0] == "ok":
                    cont = ("ok", ((w[1], F(1)),) if w[1] else ())
                    want = {"getattr": cont, "in": ("ok", True), "units": cont}[op[0]]
                else:
                    want = {"getattr": w, "in": ("ok", False) if w[1] == "KUndefined" else w, "units": w}[op[0]]
                if op[0] != "units" and attr_refused(s):
                    want = ("err", "KAttribute")
                if op[0] == "units" and s == "":
                    want = ("ok", ())
                if og != want:
                    fails.add(f"api-{op[0]}:{s}", f"{op[0]}({s!r}) = {og}, the statement's resolution gives {want}", {"string": s, "op": op})
        nj += 1
        ck.case(key=("junk", s), nontrivial=True, n=3)
    add_fresh_cases(CFG, jops, "fresh non-unit strings")
    ck.count("random non-unit / edited / underscore / doubly prefixed strings", nj)
    phase("non-unit strings")

    # ---------------------------------------------------------------- (E) compound expressions, delta substitution
    nonmult = sorted({k for k, d in T.units.items() if not d.mult and IDENT.fullmatch(k)})
    idents = [s for s in T.units if IDENT.fullmatch(s) and s.lower() != "nan"]

    def factor_name():
        r = rng.random()
        if r < 0.3:
            return rng.choice(nonmult)
        if r < 0.6:
            return rng.choice(idents)
        if r < 0.9:
            return rng.choice(pk_all) + rng.choice(idents) + rng.choice(["", "", "s"])
        return rng.choice(["dimensionless", "foo", "kilodegC", "mdegF", "kiloinch"])

    def compound():
        """-> text, [(name, signed exponent)], well-formed?"""
        k = rng.choice([1, 1, 2, 2, 3, 4])
        names = []
        while len(names) < k:
            n = factor_name()
            if n not in names and IDENT.fullmatch(n):
                names.append(n)
        parts, factors = [], []
        inv = rng.random() < 0.15
        for i, n in enumerate(names):
            e = rng.choice([None, None, "2", "-1", "3", "0.5", "-2", "1"])
            op = rng.choice("*/") if i else ""
            parts.append(op + (n if e is None else f"{n}**{e}"))
            sg = -1 if (op == "/" or (i == 0 and inv)) else 1
            factors.append((n, sg * F(e or 1)))
        text = ("1/" if inv else "") + "".join(parts)
        ok = True
        if rng.random() < 0.06:
            text = rng.choice(["2*", "(", "", "1e3*"]) + text + rng.choice(["", ")", "*", "**"])
            ok = False
        return text, factors, ok

    def spec_units(factors, ad):
        """the container the statement prescribes for a product of powers of names"""
        ph = {}
        for n, e in factors:
            ph[n] = ph.get(n, 0) + e
        ph = {k: v for k, v in ph.items() if v != 0}
        many = len(ph) > 1
        out, errs = {}, []
        for n, v in ph.items():
            w = T.winner(n)
            if w[0] == "err":
                errs.append(w)
                continue
            c = w[1]
            if not c:
                continue
            if ad and (many or v != 1) and not T.units[c].mult if c in T.units else False:
                c = "delta_" + c
            out[c] = out.get(c, 0) + v
        if errs:
            return errs
        return [("ok", tuple(sorted((k, v) for k, v in out.items() if v != 0)))]

    dreg = Impl(default_as_delta=False)
    cops, dops, nc = [], [], 0
    for _ in range(8000 if thorough else 1800):
        text, factors, ok = compound()
        if lex_ok(text) is None:
            continue
        ad = rng.choice([None, None, True, False])
        op = ("units", text, ad, None)
        o = fresh.call(op)
        fresh.reset()
        cops.append((op, o))
        o2 = dreg.call(("units", text, None, None))
        dreg.reset()
        dops.append((("units", text, None, None), o2))
        lazy_read = any(T.candidates(n, lazy=True) != T.candidates(n) for n, _ in factors)
        if ok and not lazy_read:
            for eff, got, label in ((True if ad is None else ad, o, f"as_delta={ad}"), (False, o2, "default_as_delta=False")):
                want = spec_units(factors, eff)
                if got not in want:
                    fails.add(f"delta:{text}", f"parse_units({text!r}, {label}) = {got}, the statement prescribes {want}",
                              {"text": text, "as_delta": ad, "got": got, "want": want})
        nc += 1
        ck.case(key=("compound", text, ad), nontrivial=len(factors) > 1, n=2,
                sample={"parse_units": text, "as_delta": ad, "result": o} if len(factors) > 1 and len(ck.samples) < 5 else None)
    add_fresh_cases(CFG, cops, "fresh compound")
    add_fresh_cases(coq_cfg(True, False, symexact), dops, "fresh compound, default_as_delta=False")
    ck.count("compound expressions (as_delta None/True/False; default_as_delta=False registry)", nc)
    phase("compound")

    # ---------------------------------------------------------------- (E2) unit strings on the conversion side
    # get_root_units / get_base_units / convert / Quantity.to / … take unit strings through
    # util.to_units_container; they must read them with the REGISTRY's settings (case_sensitive,
    # default_as_delta) exactly like parse_units does — in every configuration
    configs = [("default", fresh, CFG), ("case_sensitive=False", ci_reg, coq_cfg(False, True, symexact)),
               ("default_as_delta=False", dreg, coq_cfg(True, False, symexact)),
               ("case_sensitive=False,default_as_delta=False", Impl(case_sensitive=False, default_as_delta=False),
                coq_cfg(False, False, symexact))]
    ne = 0
    for label, reg, cfg in configs:
        casei = "case_sensitive=False" in label
        texts = []
        for _ in range(1500 if thorough else 260):
            r = rng.random()
            if r < 0.45:
                text, factors, ok = compound()
                if not ok:
                    continue
            else:
                base_s = rng.choice(idents) if r < 0.8 else rng.choice(pk_all) + rng.choice(idents)
                text = rng.choice(sorted(variants(base_s)) + [base_s]) if casei and rng.random() < 0.8 else base_s
                if rng.random() < 0.3:
                    w2 = rng.choice(nonmult + idents[:50])
                    text = rng.choice([f"{text}/{w2}", f"{w2}*{text}", f"{text}**2"])
            if lex_ok(text) is None or any(t.lower() == "nan" for k, t in lex_ok(text) if k == "name"):
                continue
            if casei and not all(casei_domain(t) and len(reg.call(("parse", None, t))[1]) <= 1
                                 for k, t in lex_ok(text) if k == "name"):
                continue          # set-order dependent winner
            texts.append(text)
        eops = []
        for text in texts:
            ou = reg.call(("units", text, None, None))
            reg.reset()
            oe = reg.call(("entry", text))
            reg.reset()
            eops.append((("entry", text), oe))
            rp = {"configuration": label, "text": text, "parse_units": ou}
            if oe != ou:
                fails.add(f"entry-point-settings:{label}:{text}",
                          f"registry({label}): to_units_container({text!r}, ureg) = {oe} but parse_units({text!r}) = {ou} — the "
                          f"conversion side does not read the string with the registry's settings", {**rp, "to_units_container": oe})
            # ("delta_" + a logarithmic unit names no unit: what pint then does is not C08's business)
            known_keys = (ou[0] != "ok" or all(not k.startswith("delta_") or k in T.units for k, _ in ou[1])) \
                and "dimensionless" not in text       # get_base_units('m*dimensionless') raises KeyError('') on the clean tree
            for a, b, what in ((("roots", "roots_u", "get_root_units"), ("base", "base_u", "get_base_units")) if known_keys else ()):
                x = reg.call((a, text))
                reg.reset()
                y = reg.call((b, text))
                reg.reset()
                # exactness of the factor is not promised when one path goes through float powers (a string that
                # spells one unit twice with non-integer exponents): then only the units are compared
                inexact = x[0] == y[0] == "ok" and "float" in (x[1][0], y[1][0])
                if (x[1][1] != y[1][1]) if inexact else (x != y):
                    fails.add(f"entry-point-{what}:{label}:{text}",
                              f"registry({label}): {what}({text!r}) = {x} but {what}(parse_units({text!r})) = {y}", {**rp, "string": x, "unit": y})
            if ou[0] == "ok" and ou[1] and all(T.units[k].mult for k, _ in ou[1] if k in T.units) and all(k in T.with_lazy or True for k, _ in ou[1]):
                q = reg.call(("qto", text))
                reg.reset()
                if q[0] == "ok" and q[1][0] != "float" and q != ("ok", (F(1), ou[1])) or q[0] == "err" and q[1] in ("KUndefined",):
                    fails.add(f"entry-point-Quantity.to:{label}:{text}",
                              f"registry({label}): Quantity(1, parse_units({text!r})).to({text!r}) = {q}, expected 1 {ou[1]}", {**rp, "to": q})
            ne += 1
            ck.case(key=("entry", label, text), nontrivial=label != "default", n=6)
        add_fresh_cases(cfg, eops, f"conversion-side strings, registry({label})")
    ck.count("unit strings through to_units_container / get_root_units / get_base_units / Quantity.to (4 configurations)", ne)
    phase("entry points")

    # ---------------------------------------------------------------- (F) sequences: answers after earlier lookups
    pnames = [n for n in T.pdef if n]
    unames = sorted({d.name for d in T.units.values() if d.mult and IDENT.fullmatch(d.name)})
    overwrite_fams = [(s, l[0]) for s, l in shadowed.items() if l and s == T.units[s].name]

    n_seq = 60 if thorough else 14
    seq_len = 260 if thorough else 200
    seqreg = Impl()
    nh = nhd = 0
    for qi in range(n_seq):
        if qi % (3 if thorough else 5) == 0:
            impl = Impl()                         # newly constructed
        else:
            impl = seqreg
            impl.reset()
        ops_terms, pending = [], []
        for _ in range(seq_len):
            r = rng.random()
            if r < 0.35:
                s = rng.choice(pk_all) + rng.choice(sp_all) + rng.choice(["", "", "s"])
            elif r < 0.5:
                s = rng.choice(sp_all) + rng.choice(["", "s"])
            elif r < 0.6:
                s = junk()
            elif pending and r < 0.85:
                s = pending.pop(rng.randrange(len(pending)))
            elif overwrite_fams and r < 0.88:    # another spelling of an explicitly defined prefix+unit name, then its symbol
                n, (p, un) = rng.choice(overwrite_fams)
                s = rng.choice([x for x in T.p_spellings[p] if x != p] or [p]) + rng.choice(T.u_spellings[un])
                pending += [("symbol", x) for x in T.u_spellings[n]]
            else:                                 # a family: some spelling of p2+u now, p1+(p2 u) later
                p2, un = rng.choice(pnames), rng.choice(unames)
                s = rng.choice(T.p_spellings[p2]) + rng.choice(T.u_spellings[un])
                pending.append(rng.choice(pk_all) + p2 + un + rng.choice(["", "", "s"]))
            api = rng.choice(["name", "name", "name", "parse", "symbol", "defsym", "units", "getattr", "in", "compound"])
            if isinstance(s, tuple):
                api, s = s
            if s.lower().strip("_") == "nan":
                continue
            simple = bool(IDENT.fullmatch(s)) and lex_ok(s) is not None
            if api in ("units", "getattr", "in", "compound") and not simple:
                api = "name"
            if api == "compound":
                o1, o2 = rng.choice(idents), rng.choice(nonmult)
                text = rng.choice([f"{s}*{o1}", f"{o2}/{s}", f"{s}**2", f"{o1}*{s}**-1"])
                op = ("units", text, rng.choice([None, True, False]), None) if lex_ok(text) is not None else ("name", None, s)
            elif api == "parse":
                op = ("parse", None, s)
            elif api == "name":
                op = ("name", rng.choice([None, None, None, True]), s)
            elif api == "symbol":
                op = ("symbol", None, s)
            elif api == "defsym":
                op = ("defsym", None, s)
            elif api == "units":
                op = ("units", s, rng.choice([None, True, False]), None)
            else:
                op = (api, s)
            kind = history_kind(T, impl, op_strings(op))       # before the call: what earlier lookups left behind
            o = impl.call(op)
            ops_terms.append((op, o))
            of = fresh.call(op)
            fresh.reset()
            nh += 1
            ck.case(key=("seq", op), nontrivial=True)
            if of != o:
                nhd += 1
                key = f"{kind}:{op_strings(op)[0]}" if kind else f"history-other:{op[0]}:{op_strings(op)[0]}"
                fails.add(key, f"{op} answers {o} after {len(impl.added())} lazily registered names but {of} in a fresh registry",
                          {"op": op, "warmed": o, "fresh": of, "added": impl.added()[-12:],
                           "earlier_calls": [x for x, _ in ops_terms[:-1]][-40:]})
        add_case("NSeq", CFG, ops_terms, {"sequence": qi, "length": len(ops_terms)})
    ck.count("sequence steps (each compared with the fresh answer)", nh)
    ck.count("history-dependent answers (all matched patterns included)", nhd)
    phase("sequences")

    # ---------------------------------------------------------------- (F2) per-call overrides on ONE registry
    # case_sensitive= (True/False/None) and as_delta= (True/False/None) given per call must not leak into later
    # calls (parse cache, lazily registered names): every answer is compared with a fresh registry and the model
    def unambiguous_ci(text):
        names = [t for k, t in (lex_ok(text) or []) if k == "name"]
        return bool(names) and all(casei_domain(n) and n.lower() != "nan"
                                   and len(fresh.call(("parse", False, n))[1]) <= 1 for n in names)

    ascii_idents = [x for x in idents if x.isascii()]
    n_ov = 24 if thorough else 8
    no = nod = 0
    for qi in range(n_ov):
        if qi % 4 == 0:
            impl = Impl()
        else:
            impl = seqreg
            impl.reset()
        plan = []
        for _ in range(14):
            u1 = rng.choice(ascii_idents + nonmult)
            v = rng.choice([u1.upper(), u1.title(), u1.swapcase(), u1.lower(), u1[:1].upper() + u1[1:], u1])
            w = rng.choice(ascii_idents)
            w = rng.choice([w, w.upper(), w.title()])
            texts = [v, f"{v}*{w}", f"{w}/{v}", f"{v}**2", rng.choice(pk_all) + v]
            texts = [t for t in texts if IDENT.fullmatch(t.replace("*", "x").replace("/", "x")) and lex_ok(t) is not None and unambiguous_ci(t)]
            fam = []
            for t in texts:
                fam.append(("units", t, rng.choice([None, True, False]), False))          # the override …
                fam.append(("units", t, rng.choice([None, None, True, False]), None))     # … then the registry's own mode
                fam.append(("units", t, None, True))
                if IDENT.fullmatch(t):
                    fam += [("getattr", t), ("in", t), ("name", False, t), ("name", None, t), ("parse", None, t)]
            rng.shuffle(fam)
            plan.append(fam)
        # interleave the families, keeping each family's internal order
        ops_terms = []
        while any(plan):
            fam = rng.choice([f for f in plan if f])
            op = fam.pop(0)
            kind = history_kind(T, impl, op_strings(op))
            o = impl.call(op)
            ops_terms.append((op, o))
            of = fresh.call(op)
            fresh.reset()
            no += 1
            ck.case(key=("override-seq", op), nontrivial=True)
            if of != o:
                nod += 1
                key = f"{kind}:{op_strings(op)[0]}" if kind else f"history-other:{op[0]}:{op[1] if op[0] in ('units', 'getattr', 'in') else op[2]}"
                fails.add(key, f"{op} answers {o} after earlier calls with per-call overrides on the same registry, but {of} in a fresh registry",
                          {"op": op, "warmed": o, "fresh": of, "added": impl.added()[-12:],
                           "earlier_calls": [x for x, _ in ops_terms[:-1]][-40:]})
        add_case("NSeq", CFG, ops_terms, {"override sequence": qi, "length": len(ops_terms)})
    ck.count("override-sequence steps (case_sensitive= / as_delta= per call, compared with the fresh answer)", no)
    ck.count("override-sequence answers that differ from the fresh registry", nod)
    phase("override sequences")

    # ---------------------------------------------------------------- (G) generated registries with colliding spellings
    gen_results = generated_registries(ck, rng, fails, symexact, 10 if thorough else 3)
    phase("generated registries")

    # ---------------------------------------------------------------- (H) prefixes / aliases defined after failed lookups
    late_results = late_definitions(ck, rng, fails, T, 8 if thorough else 2)
    phase("late definitions")

    # ---------------------------------------------------------------- (I) a unit that becomes an offset unit after lookups
    late_results += late_offsets(ck, rng, fails, T, 6 if thorough else 2)
    phase("late offsets")

    # ---------------------------------------------------------------- differ inside Coq
    shard = max(20, min(400, -(-len(cases) // (2 * (os.cpu_count() or 4)))))
    bad = ck.coq_mismatches("c08", HEADER, cases, "ok", shard=shard, timeout=1100)
    phase("model evaluation")
    ck.extra["model_vs_impl_cases"] = len(cases)
    ck.extra["model_vs_impl_disagreements"] = None if bad is None else len(bad)
    ck.extra["generated_registries"] = gen_results
    ck.extra["late_definitions"] = late_results
    ck.extra["oracle_failures_by_kind"] = dict(fails.per)
    ck.extra["phase_seconds"] = t_phase
    for key, desc, rp in fails.items:
        ck.violation(key, desc, rp)
    gen_bad = [g for g in gen_results + late_results if g.get("disagreements")]
    if bad:
        # locate the first disagreeing call of (a few of) the disagreeing cases
        loc, lterms = [], []
        for i in bad[:6]:
            kind, cfg, ops = case_ops[i]
            for j in range(len(ops)):
                part = ops[:j + 1] if kind == "NSeq" else [ops[j]]
                lterms.append(f"{kind} {cfg} {coq_list([coq_op(op, o) for op, o in part])}")
                loc.append((i, j))
        lb = ck.coq_mismatches("c08loc", HEADER, lterms, "ok", shard=60, timeout=900) or []
        firsts = {}
        for k in lb:
            i, j = loc[k]
            firsts.setdefault(i, j)
        ck.extra["first_disagreeing_calls"] = [{"case": descs[i], "call": case_ops[i][2][j][0], "pint": case_ops[i][2][j][1],
                                                "earlier_calls": [o[0] for o in case_ops[i][2][:j]][-8:] if case_ops[i][0] == "NSeq" else []}
                                               for i, j in firsts.items()]
    if bad or gen_bad:
        first = (ck.extra.get("first_disagreeing_calls") or [descs[bad[0]]])[0] if bad else gen_bad[0]
        ck.broken.append(f"correspondence NamesRun.c08_ok: {len(bad or [])} disagreements (+{len(gen_bad)} generated "
                         f"registries), first: {first}")
        if not ck.violations:
            ck.violation("correspondence", "model and implementation disagree; no property oracle failed",
                         {"first_disagreement": first, "coq_case": cases[bad[0]][:3000] if bad else None,
                          "n": len(bad or [])}, no_input=True)


# ------------------------------------------------------------------ generated registries
def gen_definitions(rng):
    """a small definition file over a tiny alphabet, so that prefix / unit / plural readings collide"""
    ab = "akms"

    def word(lo, hi):
        return "".join(rng.choice(ab) for _ in range(rng.randint(lo, hi)))
    lines, pnames = [], []
    for _ in range(rng.randint(2, 4)):
        n = word(1, 2)
        if n in pnames:
            continue
        pnames.append(n)
        sym = word(1, 1)
        lines.append(f"{n}- = {rng.choice(['1e3', '1e-3', '2**10', '0.5', '10'])}" + (f" = {sym}-" if rng.random() < 0.6 and sym != n else ""))
    lines += ["[length]", "[temp]"]
    used, units = set(), []
    base = "u" + word(1, 2)
    lines.append(f"{base} = [length] = {rng.choice(['_', word(1, 2)])}")
    units.append(base)
    used.add(base)
    lines.append("tk = [temp]; offset: 0 = TK")
    lines.append("tc = tk; offset: 273.15 = TC = " + rng.choice(["tcs", "atc", "ktc"]))
    for _ in range(rng.randint(4, 9)):
        n = word(1, 3)
        if n in used or n in ("tk", "tc"):
            continue
        used.add(n)
        rest = []
        if rng.random() < 0.7:
            rest.append(rng.choice(["_", word(1, 2), rng.choice(pnames) + rng.choice(units)]))
            for _ in range(rng.randint(0, 2)):
                rest.append(rng.choice([word(2, 3), rng.choice(pnames) + rng.choice(units), rng.choice(units) + "s"]))
        rest = [r for r in rest if r == "_" or (r not in used and r != n)]
        used.update(r for r in rest if r != "_")
        lines.append(f"{n} = {rng.randint(2, 9)} * {rng.choice(units)}" + "".join(f" = {r}" for r in rest))
        units.append(n)
    return "\n".join(lines) + "\n", pnames, units


def generated_registries(ck, rng, fails, symexact, count):
    """small registries with colliding spellings: the model (T1 -> elab -> nload) and pint on the same
    definition text; every prefix spelling x unit spelling x {'', 's'}, doubly prefixed strings, fresh,
    and lookup sequences"""
    out = []
    tmp = Path(tempfile.mkdtemp(prefix="c08gen"))
    try:
        made = attempts = 0
        while made < count and attempts < count * 12:
            attempts += 1
            text, pnames, units = gen_definitions(rng)
            path = tmp / f"g{attempts}.txt"
            path.write_text(text, encoding="utf-8")
            try:
                impl = Impl(filename=path)
                T = Tables(path)
            except Exception:  # noqa: BLE001 - a file pint refuses is not a C08 input
                continue
            if T.redefined:
                ck.count("generated registries skipped (a spelling is defined twice)")
                continue
            if set(impl.snap) != set(T.with_lazy) or list(impl.u._prefixes) != list(T.pkeys):
                ck.count("generated registries skipped (tables differ)")
                continue
            made += 1
            raw = t1_defs.emit(t1_defs.parse_file(path), f"g{attempts}")
            raw = "\n".join(l for l in raw.splitlines() if not l.startswith(("From ", "Open ", "(*")))
            header = (HEADER.split("Definition R0")[0] + raw + f"\nDefinition RG : nreg := nreg_of g{attempts}_raw.\n"
                      f"Definition ok (k : ncase) : bool := c08_ok RG k.\n")
            cfg = coq_cfg(True, True, symexact)
            pool = set(T.with_lazy) | {p + u + x for p in T.pkeys for u in T.with_lazy for x in ("", "s")}
            pool |= {p + q + u for p in T.pkeys for q in T.pdef for u in units[:4] if p and q}
            pool = sorted(pool)
            cases, descs = [], []
            tag = f"generated #{attempts}"
            for i in range(0, len(pool), 8):
                ops = []
                for s in pool[i:i + 8]:
                    o1 = impl.call(("parse", None, s))
                    o2 = impl.call(("name", None, s))
                    impl.reset()
                    o3 = impl.call(("symbol", None, s))
                    ops += [(("parse", None, s), o1), (("name", None, s), o2), (("symbol", None, s), o3)]
                    f2 = Fails()
                    oracle_string(T, f2, s, o1, o2, o3, tag)
                    for key, desc, rp in f2.items:
                        rp["definitions"] = text
                        fails.add(key, "generated registry: " + desc, rp)
                    ck.case(key=("gen", attempts, s), n=3)
                cases.append(f"NFresh {cfg} {coq_list([coq_op(op, o) for op, o in ops])}")
                descs.append({"generated registry": attempts, "strings": pool[i:i + 8]})
            nhist = 0
            ref = Impl(filename=path)            # answers of the registry as constructed
            for _ in range(6):
                impl.reset()
                terms = []
                for _ in range(60):
                    s = rng.choice(pool)
                    op = rng.choice([("name", None, s), ("name", None, s), ("parse", None, s), ("symbol", None, s)])
                    kind = history_kind(T, impl, [s])
                    o = impl.call(op)
                    terms.append(coq_op(op, o))
                    of = ref.call(op)
                    ref.reset()
                    ck.case(key=("gen-seq", attempts, op))
                    if o != of:
                        nhist += 1
                        key = f"{kind}:{s}" if kind else f"history-other:{op[0]}:{s}"
                        fails.add(key, f"generated registry: {op} answers {o} after warm-up but {of} fresh",
                                  {"definitions": text, "op": op, "warmed": o, "fresh": of, "added": sorted(impl.added())})
                cases.append(f"NSeq {cfg} {coq_list(terms)}")
                descs.append({"generated registry": attempts, "sequence": True})
            bad = ck.coq_mismatches(f"c08g{attempts}", header, cases, "ok", shard=200, timeout=600)
            out.append({"registry": attempts, "units": len(T.units), "prefix_spellings": len(T.pkeys), "strings": len(pool),
                        "history_dependent_answers": nhist,
                        "disagreements": None if bad is None else len(bad),
                        "first": descs[bad[0]] if bad else None, "definitions": text if bad else None})
    finally:
        for f in tmp.glob("*"):
            f.unlink()
        tmp.rmdir()
    return out


# ------------------------------------------------------------------ definitions that arrive after lookups
def late_definitions(ck, rng, fails, T, rounds):
    """One registry A is asked about spellings that have NO reading yet (prefix + unit, alias + plural, …, through
    parse_unit_name / get_name / get_symbol / parse_units / Quantity / `in`, also case-insensitively), THEN receives a
    prefix definition and `@alias` lines (no unit definition afterwards), THEN is asked again.  Every answer must be
    that of a registry B that got the same definitions before any lookup, satisfy the tables oracle of the extended
    definition text, and agree with the Coq model of that text."""
    import pint
    out = []
    tmp = Path(tempfile.mkdtemp(prefix="c08late"))
    mult = sorted({d.name for d in T.units.values() if d.mult and IDENT.fullmatch(d.name) and d.name.isascii()})
    syll = ["myria", "hella", "bronto", "lakh", "crore", "dozen", "vend", "xenn", "wek", "zq"]
    try:
        for ri in range(rounds):
            # --- the late definitions: two prefixes (name + symbol) and three aliases, none of which reads today
            def unread(x):
                return x not in T.with_lazy and not T.candidates(x, lazy=True) and not T.candidates(x, casei=True)
            lines, pref, alias = [], [], []
            for _ in range(40):
                if len(pref) < 2:
                    n = rng.choice(syll) + rng.choice(["", "a", "o", "i"]) + rng.choice(["", "x", "q"])
                    sy = n[:2] + rng.choice("qxz")
                    if n not in [a for a, _ in pref] and not any(n.startswith(k) or k.startswith(n) for k in T.pkeys if k) \
                            and not any(sy.startswith(k) or k.startswith(sy) for k in T.pkeys if k) and unread(n) and unread(sy):
                        pref.append((n, sy))
                        lines.append(f"{n}- = {rng.choice(['1e4', '1e-5', '2**12', '12'])} = {sy}-")
                if len(alias) < 3:
                    un = rng.choice(mult)
                    al = rng.choice(["metro", "zq", "qz", "xal", "ulm"]) + rng.choice(["", "o", "ix", "en"]) + str(rng.randint(0, 9)) * rng.randint(0, 1)
                    if al not in [a for _, a in alias] and IDENT.fullmatch(al) and unread(al) and unread(al + "s") \
                            and all(unread(k + al) for k in T.pkeys if k):
                        alias.append((un, al))
                        lines.append(f"@alias {un} = {al}")
            rng.shuffle(lines)
            # --- the spellings that get a reading only through the late definitions
            some_units = rng.sample([k for k in T.units if IDENT.fullmatch(k) and k.isascii()], 10)
            derived = [p + u + x for n, sy in pref for p in (n, sy) for u in some_units for x in ("", "s")]
            derived += [p + al + x for _, al in alias for p in [""] + rng.sample([k for k in T.pkeys if k], 6) + [n for n, _ in pref] for x in ("", "s")]
            derived = [d for d in dict.fromkeys(derived) if unread(d) and d.lower() != "nan"]
            folded = [v for d in rng.sample(derived, min(len(derived), 25)) for v in (d.upper(), d.title(), d.swapcase())
                      if casei_domain(v) and unread(v)]

            def ops_for(sx, ci=False):
                if ci:
                    return [("parse", False, sx), ("name", False, sx)]
                o = [("parse", None, sx), ("name", None, sx), ("symbol", None, sx)]
                if IDENT.fullmatch(sx) and lex_ok(sx) is not None:
                    o += [("units", sx, None, None), ("in", sx), ("getattr", sx), ("qto", sx)]
                return o

            A = Impl()
            asked = []
            for sx in rng.sample(derived, int(len(derived) * 0.7)):
                for op in rng.sample(ops_for(sx), rng.randint(1, 3)):
                    asked.append((op, A.call(op)))
            for sx in rng.sample(folded, int(len(folded) * 0.7)):
                for op in ops_for(sx, True):
                    asked.append((op, A.call(op)))
            for l in lines:
                A.u.define(l)
            B = Impl()
            for l in lines:
                B.u.define(l)
            # the tables and the model of the extended definition text
            extra = tmp / f"extra{ri}.txt"
            extra.write_text("\n".join(lines) + "\n", encoding="utf-8")
            full = tmp / f"full{ri}.txt"
            full.write_text(f"@import {REPO / 'pint' / 'default_en.txt'}\n" + "\n".join(lines) + "\n", encoding="utf-8")
            TX = Tables(full)
            raw = coq_list([t1_defs.coq_rawdef(d) for d in t1_defs.parse_file(extra)["defs"]])
            header = (HEADER.split("Definition R0")[0] + f"Definition RX : nreg := nreg_of (default_raw ++ {raw}).\n"
                      "Definition ok (k : ncase) : bool := c08_ok RX k.\n")
            rp0 = {"asked_before_the_definitions": [list(op) for op, _ in asked], "then_defined": lines}
            seq, nbad = [], 0
            todo = [(sx, False) for sx in derived] + [(sx, True) for sx in folded]
            rng.shuffle(todo)
            for sx, ci in todo:
                if ci and len(B.call(("parse", False, sx))[1]) > 1:
                    continue                      # set-order dependent winner
                got = {}
                for op in ops_for(sx, ci):
                    a, b = A.call(op), B.call(op)
                    got[op[0]] = a
                    if op[0] != "qto":
                        seq.append((op, a))
                    ck.case(key=("late", ri, op), nontrivial=True)
                    if a != b:
                        nbad += 1
                        fails.add(f"define-after-lookup:{op[0]}:{sx}",
                                  f"{op} answers {a} on a registry that was asked about such spellings before `{'; '.join(lines)}` "
                                  f"was defined, but {b} on a registry that got the same definitions first", {**rp0, "op": list(op), "A": a, "B": b})
                if not ci:
                    f2 = Fails()
                    oracle_string(TX, f2, sx, got["parse"], got["name"], got["symbol"], "extended definitions")
                    for key, desc, rp in f2.items:
                        fails.add("late-" + key, "after late definitions: " + desc, {**rp0, **rp})
            cases = [f"NSeq {coq_cfg()} {coq_list([coq_op(op, o) for op, o in seq])}"]
            cases += [f"NFresh {coq_cfg()} {coq_list([coq_op(op, o) for op, o in seq[i:i + 24]])}" for i in range(0, len(seq), 24)]
            bad = ck.coq_mismatches(f"c08late{ri}", header, cases, "ok", shard=max(4, len(cases) // 8 + 1), timeout=600)
            out.append({"round": ri, "definitions": lines, "spellings": len(derived), "case_folded": len(folded),
                        "asked_before": len(asked), "answers_differing_from_definitions_first": nbad,
                        "disagreements": None if bad is None else len(bad),
                        "first": {"late definitions": lines, "case": bad[0]} if bad else None})
            ck.count("late definitions: spellings asked before and after a prefix / @alias was defined", len(todo))
    finally:
        for f in tmp.glob("*"):
            f.unlink()
        tmp.rmdir()
    return out


def late_offsets(ck, rng, fails, T, rounds):
    """"Offset units cannot be prefixed" after arbitrary earlier lookups: prefixed spellings of a multiplicative unit
    are looked up, THEN the unit becomes an offset unit (an active context redefines it with an offset, or a later
    define() does), THEN the spellings are looked up again.  Judged by get_name and get_root_units (parse_units may
    answer from the parse cache): OffsetUnitCalculusError, exactly like a registry B that made the change before any
    lookup; leaving the context gives the earlier answers back.  The define() variant is also compared with the
    Coq model of the final definition text."""
    import pint
    out = []
    tmp = Path(tempfile.mkdtemp(prefix="c08off"))
    bases = [("kelvin", "2"), ("bar", "1"), ("pascal", "3"), ("kelvin", "5 / 9"), ("meter", "7")]
    pk = [k for k in T.pkeys if k]
    try:
        for ri in range(rounds):
            variant = ["context", "define"][ri % 2]
            tag = f"zq{ri}"
            name, sym, al = f"{tag}gauge", f"{tag}gg", f"{tag}_gauge_alias"
            base, scale = rng.choice(bases)
            mult_line = f"{name} = {scale} * {base} = {sym} = {al}"
            off = rng.choice(["100", "1.01325", "273.15"])
            off_line = f"{name} = {scale} * {base}; offset: {off}"

            def build():
                r = Impl()
                r.u.define(mult_line)
                if variant == "context":
                    ctx = pint.Context(f"shift{ri}")
                    ctx.redefine(off_line)
                    r.u.add_context(ctx)
                return r

            def change(r):
                if variant == "context":
                    r.u.enable_contexts(f"shift{ri}")
                else:
                    r.u.define(off_line + f" = {sym} = {al}")

            spell = [p + u + x for p in rng.sample(pk, 12) for u in (name, sym, al) for x in ("", "s")]
            spell = [x for x in dict.fromkeys(spell) if IDENT.fullmatch(x) and lex_ok(x) is not None]

            def outcome(r, x):
                return (r.call(("name", None, x)), r.call(("roots", x)))

            A, B = build(), build()
            asked, before = [], {}
            warm_apis = ["name", "parse", "symbol", "in", "units"] + (["roots", "qto"] if variant == "context" else [])
            for x in rng.sample(spell, int(len(spell) * 0.7)):
                for api in rng.sample(warm_apis, rng.randint(1, 3)):
                    op = (api, None, x) if api in ("name", "parse", "symbol") else (api, x, None, None) if api == "units" else (api, x)
                    asked.append((op, A.call(op)))
            if variant == "context":
                before = {x: outcome(A, x) for x in spell}
            change(A)
            change(B)
            rp0 = {"variant": variant, "defined_first": mult_line, "asked_while_multiplicative": [list(op) for op, _ in asked],
                   "then": (f"enable_contexts: {off_line}" if variant == "context" else f"define: {off_line} = {sym} = {al}")}
            nbad, seq = 0, []
            for x in spell:
                a, b = outcome(A, x), outcome(B, x)
                seq.append((("name", None, x), a[0]))
                ck.case(key=("late-offset", ri, x), nontrivial=True, n=2)
                if a != b or a[0] != ("err", "KOffset"):
                    nbad += 1
                    fails.add(f"offset-after-lookup:{variant}:{x}",
                              f"{name} is an offset unit now ({rp0['then']}), but get_name / get_root_units of {x!r} give {a} on a registry "
                              f"that looked such spellings up while the unit was multiplicative; the change made first gives {b}",
                              {**rp0, "string": x, "A": a, "B": b})
            if variant == "context":
                A.u.disable_contexts()
                for x in spell:
                    a = outcome(A, x)
                    if a != before[x]:
                        nbad += 1
                        fails.add(f"offset-context-left:{x}", f"after leaving the context {x!r} gives {a}, before entering it {before[x]}",
                                  {**rp0, "string": x, "after": a, "before": before[x]})
                bad = []
            else:
                extra = tmp / f"off{ri}.txt"
                extra.write_text(mult_line + "\n" + off_line + f" = {sym} = {al}\n", encoding="utf-8")
                raw = coq_list([t1_defs.coq_rawdef(d) for d in t1_defs.parse_file(extra)["defs"]])
                header = (HEADER.split("Definition R0")[0] + f"Definition RX : nreg := nreg_of (default_raw ++ {raw}).\n"
                          "Definition ok (k : ncase) : bool := c08_ok RX k.\n")
                cases = [f"NSeq {coq_cfg()} {coq_list([coq_op(op, o) for op, o in seq])}"]
                bad = ck.coq_mismatches(f"c08off{ri}", header, cases, "ok", shard=4, timeout=600)
            out.append({"round": f"offset-{ri}", "variant": variant, "definitions": [mult_line, rp0["then"]], "spellings": len(spell),
                        "asked_before": len(asked), "answers_wrong_or_differing": nbad,
                        "disagreements": None if bad is None else len(bad),
                        "first": {"late offset": rp0["then"]} if bad else None})
            ck.count("late offsets: prefixed spellings asked before and after the unit became an offset unit", len(spell))
    finally:
        for f in tmp.glob("*"):
            f.unlink()
        tmp.rmdir()
    return out


def replay(ck, path):
    import json
    d = json.load(open(path))
    print(json.dumps(d, indent=1)[:4000])
    rp = d.get("replay", {})
    if rp.get("definitions"):
        print("(generated registry: load the 'definitions' text with pint.UnitRegistry(<file>) to reproduce)")
        return 0
    if rp.get("asked_while_multiplicative") is not None:
        import pint

        def build():
            r = Impl()
            r.u.define(rp["defined_first"])
            if rp["variant"] == "context":
                ctx = pint.Context("shift")
                ctx.redefine(rp["then"].split(": ", 1)[1])
                r.u.add_context(ctx)
            return r

        def change(r):
            if rp["variant"] == "context":
                r.u.enable_contexts("shift")
            else:
                r.u.define(rp["then"].split(": ", 1)[1])
        a, b = build(), build()
        for c in rp["asked_while_multiplicative"]:
            a.call(tuple(c))
        change(a)
        change(b)
        x = rp["string"]
        print("looked up first, then changed:", a.call(("name", None, x)), a.call(("roots", x)))
        print("changed first:", b.call(("name", None, x)), b.call(("roots", x)))
        return 0
    impl = Impl()
    if rp.get("then_defined"):
        for c in rp.get("asked_before_the_definitions", []):
            impl.call(tuple(c))
        ref = Impl()
        for l in rp["then_defined"]:
            impl.u.define(l)
            ref.u.define(l)
        if "op" in rp:
            print("asked before, then defined:", impl.call(tuple(rp["op"])))
            print("defined first:", ref.call(tuple(rp["op"])))
        return 0
    def tup(x):
        return tuple(x)
    if "op" in rp and rp.get("earlier_calls"):
        for c in rp["earlier_calls"]:
            impl.call(tup(c))
        print("after the earlier calls:", impl.call(tup(rp["op"])))
        impl.reset()
        print("fresh:", impl.call(tup(rp["op"])))
    elif "op" in rp and "added" in rp:
        for k in rp["added"]:
            impl.call(("name", None, k))
        print("after warm-up:", impl.call(tuple(rp["op"])))
        impl.reset()
        print("fresh:", impl.call(tuple(rp["op"])))
    elif rp.get("string") is not None:
        for api in ("parse", "name", "symbol"):
            print(api, impl.call((api, None, rp["string"])))
    return 0
