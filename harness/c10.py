"""C10 — definition files mean what they say, independent of order and loading path.

Theorems: coq/Properties/C10.v over coq/Model/DefFile.v (line reader on strings, validation, printer)
and coq/Model/Registry.v ([elab], [load], [resolve], [root_of], [dim_of]).

Correspondence K (coq/Model/DefFileRun.v [c10_ok]):
 (a) the bundled default_en.txt / constants_en.txt: meaning (root factor, root units, dimensionality) of every
     spelling, converters, prefixes, dimensions vs pint's Fraction registry; the Coq line reader and lexer
     on every definition line vs pint's statement classes / T1; name predicates; decimal printer; kinds.
 (b) random definition files (generator below) written to a per-run temp dir: read by T1 -> Coq [load] and by
     the Coq line reader -> [load_lines]; observations taken from pint (UnitRegistry(filename), Fraction);
     for every file 6 line permutations x 3 layouts x every loading path must give the same meaning.
 (c) malformed stream: one seeded fault per file; pint must raise at load or on first use wherever the model
     says Err.
Property oracles on pint alone: order independence, layout independence, loading-path independence,
literals in the registry's numeric type, fault => exception, and the generator's own expectation
("what is written").
"""
from __future__ import annotations

import atexit
import logging
import os
import random
import shutil
import tempfile
from decimal import Decimal
from fractions import Fraction as F
from pathlib import Path

from . import regk, t1_defs
from .common import REPO, coq_bool, coq_list, coq_opt, coq_q, coq_str, coq_uc

logging.getLogger("pint").setLevel(logging.CRITICAL)

HEADER = ("From Coq Require Import Ascii String.\n"
          "From PintV Require Import Model.UC Model.Eval Model.Registry Model.UCRun Model.RegistryRun "
          "Model.DefFile Model.DefFileRun.\nOpen Scope string_scope.\n")

_TMP = []


def _cleanup():
    for d in _TMP:
        shutil.rmtree(d, ignore_errors=True)


atexit.register(_cleanup)


def mktemp():
    base = os.environ.get("TMPDIR", "/tmp")
    d = tempfile.mkdtemp(prefix="pintverif_c10_", dir=base)
    _TMP.append(d)
    return Path(d)


# ===================================================================== Coq literals
def coq_tok(k, t):
    return {"num": "TNum", "name": "TName", "op": "TOp"}[k] + " " + coq_str(t)


def coq_toks(toks):
    return coq_list([coq_tok(k, t) for k, t in toks] + ["TEnd"])


def coq_strs(xs):
    return coq_list([coq_str(x) for x in xs])


def coq_optstr(x):
    return "None" if x is None else f"(Some {coq_str(x)})"


def coq_defrec(d):
    k = d["kind"]
    if k == "prefix":
        return f"(DefPrefix {coq_str(d['name'])} {coq_str(d['value'])} {coq_optstr(d['sym'])} {coq_strs(d['aliases'])})"
    if k == "unit":
        mods = coq_list([f"({coq_str(a)}, {coq_str(b)})" for a, b in d["mods"]])
        return (f"(DefUnit {coq_str(d['name'])} {coq_str(d['rhs'])} {mods} {coq_optstr(d['sym'])} "
                f"{coq_strs(d['aliases'])})")
    if k == "dim":
        return f"(DefDim {coq_str(d['name'])})"
    if k == "ddim":
        return f"(DefDerived {coq_str(d['name'])} {coq_str(d['rhs'])})"
    if k == "alias":
        return f"(DefAlias {coq_str(d['name'])} {coq_strs(d['aliases'])})"
    raise ValueError(k)


def coq_layout(v):
    c = "None" if v["comment"] is None else f"(Some {coq_str(v['comment'])})"
    return (f"(Layout {v['indent']} {v['pre']} {v['post']} {v['trail']} {c} "
            f"{coq_bool(v['placeholder'])} {coq_bool(v['dash'])})")


# ===================================================================== reading files (Python half)
def def_lines(path: Path, seen=()):
    """the definition lines (unit / prefix / dimension / @alias lines, also those inside @group blocks)
    of a file with @import resolved, RAW (comments and indentation kept), in file order; plus the
    flattened list of all raw lines and the list of statements for define()."""
    out, flat, stmts = [], [], []
    block = None
    if path in seen:
        raise t1_defs.T1Error("import cycle")
    for raw in path.read_text(encoding="utf-8").splitlines():
        s = t1_defs.strip_comment(raw).strip()
        if block is not None:
            block.append(raw)
            flat.append(raw)
            if s == "@end":
                stmts.append("\n".join(block))
                block = None
            elif block[0].lstrip().startswith("@group") and s and "=" in s:
                out.append(raw)
            continue
        if s.startswith("@import"):
            o, f, st = def_lines((path.parent / s[len("@import"):].strip()).resolve(), seen + (path,))
            out += o
            flat += f
            stmts += st
            continue
        flat.append(raw)
        if not s:
            continue
        if s.startswith("@") and not s.startswith("@alias "):
            block = [raw]
            continue
        out.append(raw)
        stmts.append(raw)
    if block is not None:
        stmts.append("\n".join(block))
    return out, flat, stmts


# ===================================================================== generator of definition files
LOWER = "abcdefghijklmnopqrtuvwxyz"      # no "s": no spelling may look like a plural
UPPER = "ABCDEFGHJKLMNPQRTUVWXYZ"


class Names:
    def __init__(self, rng):
        self.rng = rng
        self.used = set()
        self.used_lower = set()

    def fresh(self, first, alphabet, lo=2, hi=5, digits=True):
        while True:
            n = first + "".join(self.rng.choice(alphabet) for _ in range(self.rng.randint(lo, hi)))
            if digits and self.rng.random() < 0.3:
                n += str(self.rng.randint(0, 9))
            if n.lower() not in self.used_lower and not n.endswith("s"):
                self.used.add(n)
                self.used_lower.add(n.lower())
                return n

    def fresh_mixed(self, first):
        """a mixed-case spelling (`aStadqx`): its lower-case form is unique among all spellings"""
        while True:
            n = first + self.rng.choice(UPPER) + "".join(self.rng.choice(LOWER) for _ in range(self.rng.randint(2, 4)))
            if n.lower() not in self.used_lower:
                self.used.add(n)
                self.used_lower.add(n.lower())
                return n


FACTORS = ["2", "3", "12", "60", "1000", "1_000", "0.5", "0.25", "0.3048", "2.54", "1.5", "0.001", "1e3", "1e-3",
           "2.5e2", "1.25e-2", "7", "36", "0.125", "16", "1.609344", "4.448", "9.80665", "100", "0.01", "6.02e3"]
PREFIX_VALUES = ["1e3", "1e-3", "1000", "0.001", "1e6", "1e-6", "2**10", "10**-2", "1e2", "0.1", "10", "1e-1"]


def lit_value(txt):
    t = txt.replace("_", "")
    if "**" in t:
        a, b = t.split("**")
        return F(a) ** int(b)
    return F(t)


def gen_spec(rng, size):
    """a random definition file as a structure; every meaning the file should have is computed here
    independently of pint and of the model (expected root factors)."""
    nm = Names(rng)
    sp = {"dims": [], "base": [], "prefixes": [], "units": [], "ddims": [], "alias_lines": [], "groups": [],
          "systems": [], "contexts": [], "defaults": None}
    ndim = rng.randint(2, 4)
    for _ in range(ndim):
        dim = "[" + nm.fresh("d", LOWER) + "]"
        sp["dims"].append(dim)
        sp["base"].append({"name": nm.fresh("u", LOWER), "dim": dim, "sym": nm.fresh("q", LOWER, 1, 2) if rng.random() < 0.8 else None,
                           "aliases": [nm.fresh("a", LOWER) for _ in range(rng.choice([0, 0, 1, 2]))]})
    for _ in range(rng.randint(2, 4)):
        vt = rng.choice(PREFIX_VALUES)
        sp["prefixes"].append({"name": nm.fresh("P", UPPER, 2, 4, False), "value": vt, "val": lit_value(vt),
                               "sym": nm.fresh(rng.choice("KMGNTZ"), UPPER, 0, 1, False) if rng.random() < 0.8 else None,
                               "aliases": [nm.fresh("B", UPPER, 1, 3, False) for _ in range(rng.choice([0, 0, 1]))]})
    # root (factor, {base: exp}) of every canonical unit, by the generator's own arithmetic
    root = {b["name"]: (F(1), {b["name"]: F(1)}) for b in sp["base"]}
    spell = {}                                      # spelling -> canonical
    for b in sp["base"]:
        for s in [b["name"], b["sym"]] + b["aliases"]:
            if s:
                spell[s] = b["name"]
    pspell = {}
    for p in sp["prefixes"]:
        for s in [p["name"], p["sym"]] + p["aliases"]:
            if s:
                pspell[s] = p

    def new_unit(pool, nrefs=None, linear_in=None):
        for _ in range(50):        # keep root factors inside the float range: the float registry reads the file too
            u, f, bexp = new_unit1(pool, nrefs, linear_in)
            if F(1, 10 ** 40) < abs(f) < 10 ** 40 and all(abs(e) <= 8 for e in bexp.values()):
                break
        root[u["name"]] = (f, bexp)
        for s in [u["name"], u["sym"]] + u["aliases"]:
            if s:
                spell[s] = u["name"]
        return u

    def new_unit1(pool, nrefs=None, linear_in=None):
        """a derived unit over spellings of units in `pool` (canonical names)"""
        name = nm.fresh("u", LOWER)
        ft = rng.choice(FACTORS)
        if rng.random() < 0.1:
            ft = "1/3"
        refs = []
        if linear_in is not None:
            cands = [linear_in]
            exps = [1]
        else:
            k = nrefs or rng.choice([1, 1, 2, 2, 3])
            cands = rng.sample(pool, min(k, len(pool)))
            exps = [rng.choice([1, 1, 1, 2, -1, -1, -2, 3]) for _ in cands]
            if all(e < 0 for e in exps):
                exps[0] = 1
        f, bexp = (F(1, 3) if ft == "1/3" else lit_value(ft)), {}
        for c, e in zip(cands, exps):
            spellings = [s for s, cn in spell.items() if cn == c]
            s = rng.choice(spellings)
            pf = None
            r = rng.random()
            if r < 0.25 and pspell:
                pk = rng.choice(sorted(pspell))
                pf = pspell[pk]
                s = pk + s
            if rng.random() < 0.15:
                s = s + "s"
            refs.append((s, e))
            cf, cb = root[c]
            f *= (cf * (pf["val"] if pf else 1)) ** e
            for b, be in cb.items():
                bexp[b] = bexp.get(b, 0) + be * e
        bexp = {b: e for b, e in bexp.items() if e != 0}
        u = {"name": name, "factor": ft, "refs": refs, "form": rng.randrange(5),
             "sym": nm.fresh("q", LOWER, 1, 3) if rng.random() < 0.6 else None,
             "aliases": [nm.fresh("a", LOWER) for _ in range(rng.choice([0, 0, 1, 2]))], "offset": None, "log": None}
        return u, f, bexp

    mult = [b["name"] for b in sp["base"]]
    for _ in range(size):
        u = new_unit(mult)
        sp["units"].append(u)
        mult.append(u["name"])
    # units linear in one base unit (needed by system rules)
    linear = {}
    for b in rng.sample(sp["base"], min(2, len(sp["base"]))):
        u = new_unit(mult, linear_in=b["name"])
        sp["units"].append(u)
        mult.append(u["name"])
        linear[b["name"]] = u["name"]
    # offset and logarithmic units (never referenced by other units)
    nonmult = []
    for _ in range(rng.choice([1, 1, 2])):
        u = new_unit(mult, linear_in=rng.choice(sp["base"])["name"])
        u["offset"] = rng.choice(["273.15", "32", "10", "459.67", "0.5"])
        sp["units"].append(u)
        nonmult.append(u["name"])
    for _ in range(rng.choice([0, 1, 1])):
        u = new_unit(mult, nrefs=1)
        u["log"] = rng.choice([("10", "10"), ("10", "20"), ("2", "1"), ("2.718281828", "0.5")])
        sp["units"].append(u)
        nonmult.append(u["name"])
    for n in nonmult:
        for s in [s for s, c in spell.items() if c == n]:
            del spell[s]
        spell[n] = n        # own name stays addressable for queries (not for references)
    sp["nonmult"] = nonmult
    # dimension lines: a base dimension written explicitly as well, and one that no unit uses
    sp["free_dims"] = [rng.choice(sp["dims"])] if rng.random() < 0.5 else []
    if rng.random() < 0.6:
        fd = "[" + nm.fresh("d", LOWER) + "]"
        sp["free_dims"].append(fd)
        sp["dims"].append(fd)
    # derived dimensions: chains (a derived dimension mostly builds on the most recent derived ones); their lines are
    # written in random order, so a line may use a derived dimension that is only defined further down
    dim_exp = {d: {d: F(1)} for d in sp["dims"]}          # the generator's own expansion to base dimensions
    for _ in range(rng.randint(3, 6)):
        prev = [x["name"] for x in sp["ddims"]]
        pool = sp["dims"] + prev
        first = rng.choice(prev[-2:]) if prev and rng.random() < 0.75 else rng.choice(pool)
        second = rng.choice([x for x in pool if x != first])
        refs = [(first, rng.choice([1, 1, 2])), (second, rng.choice([-1, -1, -2, 1]))]
        name = "[" + nm.fresh("x", LOWER) + "]"
        e = {}
        for dn, ex in refs:
            for b, be in dim_exp[dn].items():
                e[b] = e.get(b, 0) + be * ex
        dim_exp[name] = {b: v for b, v in e.items() if v != 0}
        sp["ddims"].append({"name": name, "refs": refs})
    rng.shuffle(sp["ddims"])
    sp["dim_exp"] = dim_exp
    base_of_dim = {b["dim"]: b["name"] for b in sp["base"]}

    def unit_expr(e):
        """a unit with exactly this dimensionality, written with base units (None: a dimension without unit is involved)"""
        if not e or any(d not in base_of_dim for d in e):
            return None
        num = " * ".join(f"{base_of_dim[d]} ** {v}" if v != 1 else base_of_dim[d] for d, v in sorted(e.items()) if v > 0) or "1"
        den = " * ".join(f"{base_of_dim[d]} ** {-v}" if v != -1 else base_of_dim[d] for d, v in sorted(e.items()) if v < 0)
        return f"({num})" + (f" / ({den})" if den else "")
    sp["dim_units"] = {d: unit_expr(e) for d, e in dim_exp.items()}
    # @alias lines: an alias of a canonical name, of a symbol or inline alias, and of an alias that an earlier
    # @alias line introduced; lower-case and mixed-case spellings
    mult_targets = [u["name"] for u in sp["units"] if u["name"] not in nonmult] + [b["name"] for b in sp["base"]]
    t1 = rng.choice(mult_targets)
    sp["alias_lines"].append({"name": t1, "aliases": [nm.fresh_mixed("a")] + [nm.fresh("a", LOWER) for _ in range(rng.randint(0, 1))], "canon": t1})
    others = [s for s, c in spell.items() if c in mult_targets and s != c]
    if others:
        s2 = rng.choice(others)
        sp["alias_lines"].append({"name": s2, "aliases": [rng.choice([nm.fresh_mixed("a"), nm.fresh("a", LOWER)])], "canon": spell[s2]})
    prev = rng.choice(sp["alias_lines"])
    sp["alias_lines"].append({"name": rng.choice(prev["aliases"]), "aliases": [nm.fresh_mixed("a"), nm.fresh("a", LOWER)][:rng.randint(1, 2)], "canon": prev["canon"]})
    if rng.random() < 0.5:
        t4 = rng.choice(mult_targets)
        sp["alias_lines"].append({"name": t4, "aliases": [nm.fresh("a", LOWER)], "canon": t4})
    # groups (their units may reference anything multiplicative defined above)
    for gi in range(rng.randint(1, 3)):
        g = {"name": nm.fresh("G", LOWER, 2, 3), "using": rng.sample([x["name"] for x in sp["groups"]], rng.randint(0, min(2, gi))),
             "units": [], "bare": []}
        for _ in range(rng.randint(1, 3)):
            u = new_unit(mult)
            g["units"].append(u)
            mult.append(u["name"])
        sp["groups"].append(g)
    for a in sp["alias_lines"]:
        for s in a["aliases"]:
            spell[s] = a["canon"]
    # systems: both rule forms
    for _ in range(rng.randint(1, 2)):
        rules = []
        for b, n in linear.items():
            if rng.random() < 0.8:
                rules.append((n, b if rng.random() < 0.5 else None, b))
        sp["systems"].append({"name": nm.fresh("S", LOWER, 2, 3), "using": rng.sample([x["name"] for x in sp["groups"]], rng.randint(1, len(sp["groups"]))),
                              "rules": rules})
    # contexts: relations between base dimensions with a parameter, a bidirectional inverse law, a redefinition
    for _ in range(rng.randint(1, 2)):
        b1, b2 = rng.sample(sp["base"], 2)
        kf = rng.choice(["2.5", "4", "0.5", "3e2"])
        nv = rng.choice(["2", "1.5", "3"])
        ctx = {"name": nm.fresh("c", LOWER, 2, 4), "aliases": [nm.fresh("c", LOWER, 1, 2)] if rng.random() < 0.6 else [],
               "defaults": {"n": nv},
               "relations": [{"src": b1["dim"], "dst": b2["dim"], "bidir": False,
                              "eq": f"value * {kf} * {b2['name']} / {b1['name']} * n", "k": lit_value(kf), "kind": "scale",
                              "b1": b1["name"], "b2": b2["name"]}],
               "redefs": []}
        if rng.random() < 0.7:
            cc = rng.choice(["4", "0.25", "10"])
            ctx["relations"].append({"src": b1["dim"], "dst": "1 / " + b1["dim"], "bidir": True, "eq": f"{cc} / value",
                                     "k": lit_value(cc), "kind": "inverse", "b1": b1["name"], "b2": None})
        dd = [x["name"] for x in sp["ddims"] if sp["dim_units"][x["name"]] and
              not (len(sp["dim_exp"][x["name"]]) == 1 and abs(list(sp["dim_exp"][x["name"]].values())[0]) == 1)]
        if dd:              # a rule keyed on a derived dimension: its key is the expansion of that dimension
            xd = rng.choice(dd)
            k2 = rng.choice(["2", "0.5", "8"])
            ctx["relations"].append({"src": xd, "dst": b2["dim"], "bidir": False,
                                     "eq": f"value * {k2} * {b2['name']} / ({sp['dim_units'][xd]}) * n", "k": lit_value(k2),
                                     "kind": "scale", "b1": b1["name"], "b2": b2["name"], "srcu": sp["dim_units"][xd], "srcdim": xd})
        cands = [u for u in sp["units"] if u["name"] not in nonmult and len(u["refs"]) == 1 and u["refs"][0][1] == 1]
        if cands and rng.random() < 0.8:
            u = rng.choice(cands)
            nf = rng.choice(["7", "0.75", "11"])
            ctx["redefs"].append({"name": u["name"], "factor": nf, "ref": u["refs"][0][0]})
        sp["contexts"].append(ctx)
    if rng.random() < 0.8:
        sp["defaults"] = {"group": rng.choice(sp["groups"])["name"], "system": rng.choice(sp["systems"])["name"]}
    # a system whose `new : old` rule must be INVERTED: the new unit contains the old root unit with exponent +-2 and
    # other root units (flux = 7 g m**2 / s**3 ; rule `flux : m`  =>  m = flux**(1/2) g**(-1/2) s**(3/2))
    if len(sp["base"]) >= 2:
        bs = rng.sample([b["name"] for b in sp["base"]], min(len(sp["base"]), rng.choice([2, 2, 3])))
        e = rng.choice([2, -2])
        others = [(b, rng.choice([1, -1, 3, -3])) for b in bs[1:]]
        mu = {"name": nm.fresh("u", LOWER), "factor": rng.choice(["4", "0.25", "9", "16", "7", "1.5"]), "refs": [(bs[0], e)] + others,
              "form": rng.randrange(5), "sym": None, "aliases": [], "offset": None, "log": None}
        rng.shuffle(mu["refs"])
        sp["units"].append(mu)
        root[mu["name"]] = (lit_value(mu["factor"]), dict(mu["refs"]))
        spell[mu["name"]] = mu["name"]
        sp["systems"].append({"name": nm.fresh("S", LOWER, 2, 3), "using": [rng.choice(sp["groups"])["name"]], "rules": [],
                              "mrules": [(mu["name"], bs[0], {mu["name"]: F(1, e), **{b: F(-v, e) for b, v in others}})]})
    sp["root"] = root
    sp["spell"] = spell
    sp["pspell"] = {k: v["name"] for k, v in pspell.items()}
    sp["linear"] = linear
    return sp


def render_rhs(u):
    terms_pos = [(s, e) for s, e in u["refs"] if e > 0]
    terms_neg = [(s, -e) for s, e in u["refs"] if e < 0]

    def t(s, e, hat=False):
        return s if e == 1 else (f"{s}^{e}" if hat else f"{s} ** {e}")
    form = u["form"]
    f = u["factor"]
    if f == "1/3":
        f = "(1/3)" if form % 2 else "1/3"
    if form == 0:
        out = " * ".join([f] + [t(s, e) for s, e in terms_pos])
        for s, e in terms_neg:
            out += " / " + t(s, e)
    elif form == 1:                        # juxtaposition, "^"
        out = " ".join([f] + [t(s, e, True) for s, e in terms_pos])
        for s, e in terms_neg:
            out += " / " + t(s, e, True)
    elif form == 2:                        # "per", negative exponents written out
        out = " * ".join([f] + [t(s, e) for s, e in terms_pos])
        for s, e in terms_neg:
            out += " per " + t(s, e)
    elif form == 3:                        # parenthesised quotient
        num = " * ".join([f] + [t(s, e) for s, e in terms_pos])
        out = num if not terms_neg else f"({num}) / ({' * '.join(t(s, e) for s, e in terms_neg)})"
    else:                                  # explicit negative powers
        out = " * ".join([f] + [t(s, e) for s, e in u["refs"]])
    return out


LAYOUTS = [
    {"id": 0, "indent": 0, "pre": 1, "post": 1, "trail": 0, "comment": None, "placeholder": False, "dash": True, "tabs": False},
    {"id": 1, "indent": 0, "pre": 0, "post": 0, "trail": 0, "comment": " a = b # c", "placeholder": True, "dash": False, "tabs": False},
    {"id": 2, "indent": 3, "pre": 2, "post": 4, "trail": 2, "comment": "x", "placeholder": False, "dash": True, "tabs": True},
]


def unit_rec(u):
    mods = []
    if u["offset"] is not None:
        mods.append(("offset", u["offset"]))
    if u["log"] is not None:
        mods += [("logbase", u["log"][0]), ("logfactor", u["log"][1])]
    return {"kind": "unit", "name": u["name"], "rhs": render_rhs(u), "mods": mods, "sym": u["sym"], "aliases": list(u["aliases"])}


def print_def(v, d, extra_indent=0):
    """the generator's own printer (Coq's [print_def] must print the same text: CPrint cases)"""
    k = d["kind"]

    def tail(f, sym, aliases):
        if sym is None and not aliases:
            return ["_"] if v["placeholder"] else []
        if sym is None:
            return ["_"] + [f(a) for a in aliases]
        return [f(sym)] + [f(a) for a in aliases]
    if k == "prefix":
        dash = (lambda s: s + "-") if v["dash"] else (lambda s: s)
        fields = [d["name"] + "-", d["value"]] + tail(dash, d["sym"], d["aliases"])
    elif k == "unit":
        fields = [d["name"], d["rhs"] + "".join(f"; {a}: {b}" for a, b in d["mods"])] + tail(lambda s: s, d["sym"], d["aliases"])
    elif k == "dim":
        fields = [d["name"]]
    elif k == "ddim":
        fields = [d["name"], d["rhs"]]
    else:
        fields = ["@alias " + d["name"]] + list(d["aliases"])
    sep = " " * v["pre"] + "=" + " " * v["post"]
    return (" " * (v["indent"] + extra_indent) + sep.join(fields) + " " * v["trail"]
            + ("" if v["comment"] is None else "#" + v["comment"]))


def section_a(sp):
    """the records of the freely permutable section: prefixes, base units, units, dimensions"""
    recs = []
    for p in sp["prefixes"]:
        recs.append({"kind": "prefix", "name": p["name"], "value": p["value"], "sym": p["sym"], "aliases": list(p["aliases"])})
    for b in sp["base"]:
        recs.append({"kind": "unit", "name": b["name"], "rhs": b["dim"], "mods": [], "sym": b["sym"], "aliases": list(b["aliases"])})
    for u in sp["units"]:
        recs.append(unit_rec(u))
    for d in sp["ddims"]:
        rhs = " * ".join(f"{n} ** {e}" if e != 1 else n for n, e in d["refs"] if e > 0)
        for n, e in d["refs"]:
            if e < 0:
                rhs += f" / {n}" + ("" if e == -1 else f" ** {-e}")
        recs.append({"kind": "ddim", "name": d["name"], "rhs": rhs})
    for d in sp["free_dims"]:
        recs.append({"kind": "dim", "name": d})
    return recs


def render_files(sp, v, order=None, inline_aliases=False):
    """-> ({relative path: text}, records in file order with their printed line).  Section A is split over
    main.txt -> sub/part1.txt -> sub/part2.txt (nested @import, relative to the importing file)."""
    recs = section_a(sp)
    if inline_aliases:          # the twin notation: every @alias spelling written inline on its unit's line
        recs = [dict(r, aliases=list(r["aliases"])) if r["kind"] == "unit" else r for r in recs]
        for a in sp["alias_lines"]:
            [r for r in recs if r["kind"] == "unit" and r["name"] == a["canon"]][0]["aliases"].extend(a["aliases"])
    if order is not None:
        recs = [recs[i] for i in order]
    printed = [(r, print_def(v, r)) for r in recs]
    n = len(printed)
    cut1, cut2 = n // 3, (2 * n) // 3
    com = (lambda s: [f"# {s}", ""]) if v["id"] != 1 else (lambda s: [f"#{s}"])
    part2 = com("part 2") + [(("\t" + ln.lstrip(" ")) if v["tabs"] else ln) for _, ln in printed[cut1:cut2]]
    part1 = com("part 1") + [ln for _, ln in printed[:cut1]] + ["@import part2.txt" + ("   # nested" if v["id"] == 2 else "")]
    main = com("generated definition file") + ["@import sub/part1.txt"] + [ln for _, ln in printed[cut2:]]
    body = []
    ind = "    " if v["id"] != 1 else ""
    for a in ([] if inline_aliases else sp["alias_lines"]):
        body.append(print_def(v, {"kind": "alias", "name": a["name"], "aliases": a["aliases"]}))
    after = []
    for g in sp["groups"]:
        body.append(f"@group {g['name']}" + (" using " + ", ".join(g["using"]) if g["using"] else ""))
        for u in g["units"]:
            r = unit_rec(u)
            ln = print_def(v, r, len(ind))
            body.append(ln)
            after.append((r, ln, len(ind)))
        body.append("@end")
    for s in sp["systems"]:
        body.append(f"@system {s['name']} using " + ", ".join(s["using"]))
        for new, old, _b in s["rules"]:
            body.append(ind + (new if old is None else (f"{new} : {old}" if v["id"] != 1 else f"{new}:{old}")))
        for new, old, _e in s.get("mrules", []):
            body.append(ind + (f"{new} : {old}" if v["id"] != 1 else f"{new}:{old}"))
        body.append("@end")
    for c in sp["contexts"]:
        hdr = "@context(" + ", ".join(f"{k}={x}" for k, x in c["defaults"].items()) + ") " + c["name"]
        for a in c["aliases"]:
            hdr += " = " + a
        body.append(hdr)
        if v["id"] != 1:
            body.append(ind + "# relations")
        for r in c["relations"]:
            body.append(ind + f"{r['src']} {'<->' if r['bidir'] else '->'} {r['dst']}: {r['eq']}")
        for rd in c["redefs"]:
            body.append(ind + f"{rd['name']} = {rd['factor']} * {rd['ref']}")
        body.append("@end")
    if sp["defaults"]:
        body += ["@defaults", ind + f"group = {sp['defaults']['group']}", ind + f"system = {sp['defaults']['system']}", "@end"]
    files = {"main.txt": "\n".join(main + body) + "\n", "sub/part1.txt": "\n".join(part1) + "\n",
             "sub/part2.txt": "\n".join(part2) + "\n"}
    return files, [(r, ln, 0) for r, ln in printed] + after


def write_files(root: Path, files):
    for rel, text in files.items():
        p = root / rel
        p.parent.mkdir(parents=True, exist_ok=True)
        p.write_text(text, encoding="utf-8")
    return root / "main.txt"


# ===================================================================== running pint
PATHS = ["file", "lines-ctor", "load_definitions", "define", "cache-cold", "cache-warm"]


def build(path_kind, main: Path, nit, cache: Path | None = None, **kw):
    import pint
    if path_kind == "file":
        return pint.UnitRegistry(str(main), non_int_type=nit, cache_folder=None, **kw)
    if path_kind in ("cache-cold", "cache-warm"):
        return pint.UnitRegistry(str(main), non_int_type=nit, cache_folder=str(cache), **kw)
    _, flat, stmts = def_lines(main)
    if path_kind == "lines-ctor":
        return pint.UnitRegistry(flat, non_int_type=nit, cache_folder=None, **kw)
    u = pint.UnitRegistry(None, non_int_type=nit, cache_folder=None, **kw)
    if path_kind == "load_definitions":
        u.load_definitions(flat)
    else:
        for s in stmts:
            u.define(s)
    return u


def fr(x):
    """exact canonical text of a number (the Fraction registry only)"""
    if isinstance(x, (int, F)) and not isinstance(x, bool):
        x = F(x)
        return f"{x.numerator}/{x.denominator}"
    if isinstance(x, Decimal):
        x = F(x)
        return f"{x.numerator}/{x.denominator}"
    return "float:" + repr(x)


def ucd(c):
    return tuple(sorted((k, fr(v)) for k, v in c.items()))


def safe(fn):
    try:
        return fn()
    except Exception as e:          # the class of the exception is part of the observable meaning
        return "ERR:" + type(e).__name__


def meaning_of(ureg, sp, sections=None):
    """canonical, exactly comparable description of what the registry says about everything the file defines"""
    UC = ureg.UnitsContainer
    one = ureg.non_int_type(1) if ureg.non_int_type is not float else 1.0
    m = {}
    units = {}
    for s in sorted(sp["spell"]):
        units[s] = (safe(lambda: ureg.get_name(s)), safe(lambda: ureg.get_symbol(s)),
                    safe(lambda: (lambda r: (fr(r[0]), ucd(r[1])))(ureg._get_root_units(UC({s: 1}), check_nonmult=False))),
                    safe(lambda: ucd(ureg.get_dimensionality(UC({s: 1})))))
    m["units"] = units
    probes = {}
    for s in sp.get("probes", []):
        probes[s] = (safe(lambda: ureg.get_name(s)),
                     safe(lambda: (lambda r: (fr(r[0]), ucd(r[1])))(ureg._get_root_units(UC({s: 1}), check_nonmult=False))))
    m["probes"] = probes
    conv = {}
    for n in sorted(set(sp["spell"].values())):
        def c():
            d = ureg._units[n]
            cv = d.converter
            return (type(cv).__name__, fr(cv.scale), fr(getattr(cv, "offset", 0)), fr(getattr(cv, "logbase", 0)),
                    fr(getattr(cv, "logfactor", 0)), d.is_base, tuple(sorted(d.aliases)), d.defined_symbol)
        conv[n] = safe(c)
    m["converters"] = conv
    m["prefixes"] = {s: safe(lambda: (ureg._prefixes[s].name, fr(ureg._prefixes[s].value), ureg._prefixes[s].symbol))
                     for s in sorted(sp["pspell"])}
    dims = {}
    for d in sp["dims"] + [x["name"] for x in sp["ddims"]]:
        dims[d] = safe(lambda: (ureg._dimensions[d].is_base, ucd(getattr(ureg._dimensions[d], "reference", {}) or {})))
    m["dimensions"] = dims
    m["dimension-expansion"] = {d: safe(lambda: ucd(ureg.get_dimensionality(UC({d: 1})))) for d in sorted(sp["dim_exp"])}
    m["dimension-check"] = {d: safe(lambda: bool(ureg.Quantity(one, ue).check(d))) for d, ue in sorted(sp["dim_units"].items()) if ue}
    m["groups"] = {g: safe(lambda: tuple(sorted(ureg.get_group(g, False).members))) for g in ["root"] + [x["name"] for x in sp["groups"]]}
    m["group-own-units"] = {x["name"]: safe(lambda: tuple(sorted(ureg.get_group(x["name"], False).non_inherited_unit_names - set(sp["orphans"]))))
                            for x in sp["groups"]}
    sysd = {}
    for s in sp["systems"]:
        def sy():
            o = ureg.get_system(s["name"], False)
            return (tuple(sorted(o.members)), tuple(sorted((k, tuple(sorted((a, fr(F(b))) for a, b in v.items()))) for k, v in o.base_units.items())))
        sysd[s["name"]] = safe(sy)
    m["systems"] = sysd
    m["system-conversion"] = {}
    for s in sp["systems"]:
        for new, _old, b in s["rules"]:
            m["system-conversion"][(s["name"], b)] = safe(lambda: (lambda r: (fr(r[0]), ucd(r[1]._units)))(ureg.get_base_units(b, system=s["name"])))
        for new, oldu, _e in s.get("mrules", []):
            m["system-conversion"][(s["name"], oldu)] = safe(lambda: (lambda r: (fr(r[0]), ucd(r[1]._units)))(ureg.get_base_units(oldu, system=s["name"])))
            m["system-conversion"][(s["name"], new)] = safe(lambda: (lambda r: (fr(r[0]), ucd(r[1]._units)))(ureg.get_base_units(new, system=s["name"])))
    m["defaults"] = (safe(lambda: ureg.default_system), tuple(sorted(ureg._defaults.items())))
    some = sorted(set(sp["spell"].values()))[:6]
    m["default-base-units"] = {n: safe(lambda: (lambda r: (fr(r[0]), ucd(r[1]._units)))(ureg.get_base_units(n))) for n in some}
    m["compatible-units"] = {b["name"]: safe(lambda: tuple(sorted(str(x) for x in ureg.get_compatible_units(b["name"])))) for b in sp["base"]}
    ctxs = {}
    for c in sp["contexts"]:
        def cx():
            o = ureg._contexts[c["name"]]
            out = [o.name, tuple(o.aliases), tuple(sorted((k, fr(v)) for k, v in o.defaults.items())),
                   tuple(sorted((ucd(a), ucd(b)) for a, b in o.funcs)), all(ureg._contexts[a] is o for a in c["aliases"])]
            res = []
            three = ureg.non_int_type(3) if ureg.non_int_type is not float else 3.0
            for r in c["relations"]:
                srcu = r.get("srcu") or sp["ctx_units"][r["b1"]]
                for kw in ({}, {"n": ureg.non_int_type(5) if ureg.non_int_type is not float else 5.0}):
                    if r["kind"] == "scale":
                        dstu = sp["ctx_units"][r["b2"]]
                        with ureg.context(c["name"], **kw):
                            res.append(fr(ureg.Quantity(three, srcu).to(dstu).magnitude))
                    else:
                        with ureg.context(c["aliases"][0] if c["aliases"] else c["name"], **kw):
                            res.append(fr(ureg.Quantity(three, srcu).to("1 / " + r["b1"]).magnitude))
                            res.append(fr(ureg.Quantity(three, "1 / " + srcu).to(r["b1"]).magnitude))
            for rd in c["redefs"]:
                with ureg.context(c["name"]):
                    res.append((rd["name"], safe(lambda: (lambda r: (fr(r[0]), ucd(r[1])))(ureg._get_root_units(UC({rd["name"]: 1}))))))
                res.append(("after", rd["name"], safe(lambda: (lambda r: (fr(r[0]), ucd(r[1])))(ureg._get_root_units(UC({rd["name"]: 1}))))))
            return tuple(out), tuple(res)
        ctxs[c["name"]] = safe(cx)
    m["contexts"] = ctxs
    m["case-insensitive"] = casei_section(ureg, sp, True)
    return m


def case_variants(sp):
    """(string, expected canonical name) for case-insensitive lookup: every spelling with its tail upper-cased, fully
    upper-cased, and (multiplicative units) behind two prefixes.  Prefixes are never case-folded; prefix spellings are
    upper case and start with other letters than any unit spelling, so every string has one reading."""
    out = []
    pfx = sorted(sp["pspell"])[:2]
    for s, c in sorted(sp["spell"].items()):
        tail_up = s[0] + s[1:].upper()
        for v in {tail_up, s.upper(), s[0] + s[1:].swapcase()}:
            out.append((v, c))
        if c not in sp["nonmult"]:
            for p in pfx:
                out.append((p + tail_up, sp["pspell"][p] + c))
                out.append((p + s, sp["pspell"][p] + c))
    return out


def casei_section(ureg, sp, explicit):
    """names found when the case of the unit part is ignored (explicit: per-call flag on a case-sensitive registry;
    otherwise the registry itself was built with case_sensitive=False)"""
    kw = {"case_sensitive": False} if explicit else {}
    UC = ureg.UnitsContainer
    out = {}
    for v, _c in case_variants(sp):
        out[v] = (safe(lambda: ureg.get_name(v, **kw)),
                  safe(lambda: tuple((a, b) for a, b, _ in ureg.parse_unit_name(v, **kw))))
    return out


def types_of(ureg, sp):
    t = {}
    for n in sorted(set(sp["spell"].values())):
        t["unit:" + n] = type(ureg._units[n].converter.scale).__name__
        for a in ("offset", "logbase", "logfactor"):
            if hasattr(ureg._units[n].converter, a):
                t[f"{a}:{n}"] = type(getattr(ureg._units[n].converter, a)).__name__
    for s in sorted(sp["pspell"]):
        t["prefix:" + s] = type(ureg._prefixes[s].value).__name__
    return t


def approx_meaning(ureg, sp):
    """float / Decimal registries: root factors as floats, for comparison within a relative bound"""
    UC = ureg.UnitsContainer
    out = {}
    for s in sorted(sp["spell"]):
        try:
            f, b = ureg._get_root_units(UC({s: 1}), check_nonmult=False)
            out[s] = (float(f), tuple(sorted((k, float(v)) for k, v in b.items())))
        except Exception as e:
            out[s] = "ERR:" + type(e).__name__
    return out


# ===================================================================== expectations of the generator itself
def expected_meaning(sp):
    """what the file says, computed from the generator's structure alone"""
    exp = {}
    for s, c in sp["spell"].items():
        f, b = sp["root"][c]
        exp[s] = (fr(f), tuple(sorted((k, fr(F(v))) for k, v in b.items())))
    return exp


def expected_groups(sp):
    own = {g["name"]: {u["name"] for u in g["units"]} for g in sp["groups"]}
    using = {g["name"]: list(g["using"]) for g in sp["groups"]}
    allu = {b["name"] for b in sp["base"]} | {u["name"] for u in sp["units"]} | {u["name"] for g in sp["groups"] for u in g["units"]}
    grouped = set().union(*own.values()) if own else set()
    orphans = allu - grouped
    if sp["defaults"]:
        own[sp["defaults"]["group"]] |= orphans

    def members(g, seen=()):
        out = set(own[g])
        for h in using[g]:
            if h not in seen:
                out |= members(h, seen + (g,))
        return out
    res = {g: tuple(sorted(members(g))) for g in own}
    res["root"] = tuple(sorted(allu))
    return res, orphans


# ===================================================================== Coq cases from pint observations
def checks_from_pint(ureg, sp):
    """observations of the reference registry as Coq [check] terms"""
    out = []
    for s in sorted(sp["spell"]):
        out.append("KReg (" + regk.case_root(ureg, {s: F(1)}) + ")")
        out.append("KReg (" + regk.case_dim(ureg, {s: F(1)}) + ")")
        out.append("KReg (" + regk.case_name(ureg, s) + ")")
        out.append("KReg (" + regk.case_symbol(ureg, s) + ")")
    for s in sp.get("probes", []):
        out.append("KReg (" + regk.case_root(ureg, {s: F(1)}) + ")")
        out.append("KReg (" + regk.case_name(ureg, s) + ")")
    for n in sorted(set(sp["spell"].values())):
        out.append(conv_check(ureg, n))
    for s in sorted(sp["pspell"]):
        p = ureg._prefixes[s]
        out.append(f"KPrefix {coq_str(s)} (Some {coq_q(F(p.value))}) {coq_str(p.name)}")
    for d in sp["dims"] + [x["name"] for x in sp["ddims"]]:
        out.append(dim_check(ureg, d))
        out.append("KReg (" + regk.case_dim(ureg, {d: F(1)}) + ")")      # its expansion to base dimensions
    return out


def conv_check(ureg, n):
    d = ureg._units[n]
    cv = d.converter
    sc = regk.outcome_of_number(cv.scale)
    k = type(cv).__name__
    if k == "ScaleConverter":
        c = "OScale"
    elif k == "OffsetConverter":
        c = f"(OOffset {coq_q(F(cv.offset))})"
    else:
        c = f"(OLog {coq_q(F(cv.logbase))} {coq_q(F(cv.logfactor))})"
    return f"KConv {coq_str(n)} {sc} {c}"


def dim_check(ureg, d):
    if d not in ureg._dimensions:
        return f"KDim {coq_str(d)} false None"
    o = ureg._dimensions[d]
    if o.is_base:
        return f"KDim {coq_str(d)} true None"
    return f"KDim {coq_str(d)} true (Some {coq_uc(regk.ucd(o.reference))})"


# ===================================================================== fault catalogue
def faults(sp, rng):
    """(kind, must_raise, edit) — edit(main_lines) -> (new main lines, target name for 'first use' or None,
    line-level?).  The listed kinds are those of the property statement plus close relatives."""
    b0 = sp["base"][0]["name"]
    b1 = sp["base"][1]["name"]
    d0 = sp["dims"][0]
    g0 = sp["groups"][0]["name"]
    u_any = sp["units"][0]["name"]
    fresh = "zz" + "".join(rng.choice(LOWER) for _ in range(4))
    fresh2 = "zy" + "".join(rng.choice(LOWER) for _ in range(4))

    def ins(*new, target=None):
        def e(lines):
            # insert right after the @import line (top level, before the blocks)
            i = next(k for k, l in enumerate(lines) if l.startswith("@import")) + 1
            return lines[:i] + list(new) + lines[i:], target
        return e

    def app(*new, target=None):
        return lambda lines: (lines + list(new), target)
    cat = [
        ("unit-name-with-space", True, ins(f"{fresh} x = 2 * {b0}")),
        ("unit-name-digit-first", True, ins(f"1{fresh} = 2 * {b0}")),
        ("unit-name-hyphen", True, ins(f"{fresh}-x = 2 * {b0}")),
        ("alias-with-space", True, ins(f"{fresh} = 2 * {b0} = _ = a b")),
        ("symbol-with-space", True, ins(f"{fresh} = 2 * {b0} = q r", target=fresh)),
        ("prefix-name-with-space", True, ins(f"Z X- = 10")),
        ("prefix-symbol-with-space", True, ins(f"ZQX- = 10 = Z Q-")),
        ("prefix-alias-with-space", True, ins(f"ZQX- = 10 = _ = Z Q-")),
        ("prefix-value-non-numeric", True, ins(f"ZQX- = abc")),
        ("prefix-value-with-unit", True, ins(f"ZQX- = 2 * {b0}")),
        ("mixed-dimension-unit-reference", True, ins(f"{fresh} = 2 * {b0} * {d0}")),
        ("cycle-of-two", True, ins(f"{fresh} = 2 * {fresh2}", f"{fresh2} = 3 * {fresh}", target=fresh)),
        ("cycle-self", True, ins(f"{fresh} = 2 * {fresh}", target=fresh)),
        ("cycle-of-three", True, ins(f"{fresh} = 2 * {fresh2}", f"{fresh2} = 3 * {fresh}x", f"{fresh}x = {fresh} / 4", target=fresh2)),
        ("undefined-reference", True, ins(f"{fresh} = 2 * {fresh2}", target=fresh)),
        ("modifier-non-numeric", True, ins(f"{fresh} = 2 * {b0}; offset: abc")),
        ("modifier-unknown", True, ins(f"{fresh} = 2 * {b0}; foo: 1")),
        ("modifier-offset-and-unknown", True, ins(f"{fresh} = 2 * {b0}; offset: 1; foo: 2")),
        ("modifier-incomplete-log", True, ins(f"{fresh} = 2 * {b0}; logbase: 10")),
        ("modifier-missing-colon", True, ins(f"{fresh} = 2 * {b0}; offset 1")),
        ("modifier-two-colons", True, ins(f"{fresh} = 2 * {b0}; offset: 1: 2")),
        ("line-without-equals", True, ins(f"{fresh}")),
        ("dimension-name-digit", True, ins("[1d]")),
        ("dimension-name-space", True, ins("[a b]")),
        ("derived-dimension-references-unit", True, ins(f"[{fresh}] = {b0} / {d0}")),
        ("derived-dimension-scaled", True, ins(f"[{fresh}] = 2 * {d0}")),
        ("derived-dimension-with-alias", True, ins(f"[{fresh}] = {d0} = [{fresh2}]")),
        ("base-unit-scaled", True, ins(f"{fresh} = 2 * {d0}")),
        ("unbalanced-parenthesis", True, ins(f"{fresh} = 2 * ({b0}")),
        ("unopened-parenthesis", True, ins(f"{fresh} = 2 * {b0})")),
        ("dangling-operator", True, ins(f"{fresh} = 2 * * {b0}")),
        ("division-by-zero", True, ins(f"{fresh} = 1/0 * {b0}")),
        ("unit-as-exponent", True, ins(f"{fresh} = {b0} ** {b1}")),
        ("number-plus-unit", True, ins(f"{fresh} = 2 + {b0}")),
        ("alias-of-undefined", True, app(f"@alias {fresh} = {fresh2}")),
        ("alias-directive-with-space", True, app(f"@alias {b0} = z w")),
        ("unknown-directive", True, ins(f"@{fresh} bar")),
        ("unterminated-group", True, app(f"@group G{fresh}", f"    {fresh} = 2 * {b0}")),
        ("unterminated-system", True, app(f"@system S{fresh} using {g0}", f"    {u_any}")),
        ("unterminated-context", True, app(f"@context c{fresh}", f"    {d0} -> 1 / {d0}: 1 / value")),
        ("unterminated-defaults", True, app("@defaults", f"    group = {g0}")),
        ("defaults-unknown-key", True, app("@defaults", f"    group = {g0}", f"    system = {sp['systems'][0]['name']}", "    colour = blue", "@end")),
        ("group-using-unknown-group", True, app(f"@group G{fresh} using Gnowhere", f"    {fresh} = 2 * {b0}", "@end")),
        ("group-defined-twice", True, app(f"@group {g0}", f"    {fresh} = 2 * {b0}", "@end")),
        ("system-using-unknown-group", True, app(f"@system S{fresh} using Gnowhere", f"    {sp['linear'][sorted(sp['linear'])[0]]}", "@end", target="system:S" + fresh)),
        ("system-rule-unknown-unit", True, app(f"@system S{fresh} using {g0}", f"    {fresh}", "@end")),
        ("context-relation-without-equation", True, app(f"@context c{fresh}", f"    {d0} -> 1 / {d0}", "@end")),
        ("context-relation-unknown-dimension", True, app(f"@context c{fresh}", f"    {d0} -> [{fresh}]: value", "@end")),
        ("context-default-non-numeric", True, app(f"@context(n=abc) c{fresh}", f"    {d0} -> 1 / {d0}: n / value", "@end")),
        ("context-default-unused", True, app(f"@context(n=2) c{fresh}", f"    {d0} -> 1 / {d0}: 1 / value", "@end")),
        ("context-redefines-base-unit", True, app(f"@context c{fresh}", f"    {b0} = 2 * {b1}", "@end", target="context:c" + fresh)),
        ("import-missing-file", True, ins("@import nowhere/else.txt")),
    ]
    return cat


LINE_LEVEL = {"unit-name-with-space", "unit-name-digit-first", "unit-name-hyphen", "alias-with-space", "symbol-with-space",
              "prefix-name-with-space", "prefix-symbol-with-space", "prefix-alias-with-space", "prefix-value-non-numeric",
              "prefix-value-with-unit", "mixed-dimension-unit-reference", "cycle-of-two", "cycle-self", "cycle-of-three",
              "undefined-reference", "modifier-non-numeric", "modifier-unknown", "modifier-offset-and-unknown",
              "modifier-incomplete-log", "modifier-missing-colon", "modifier-two-colons", "line-without-equals",
              "dimension-name-digit", "dimension-name-space", "derived-dimension-references-unit", "derived-dimension-scaled",
              "derived-dimension-with-alias", "base-unit-scaled", "unbalanced-parenthesis", "unopened-parenthesis",
              "dangling-operator", "division-by-zero", "unit-as-exponent", "number-plus-unit", "alias-of-undefined",
              "alias-directive-with-space", "unknown-directive"}


def use(ureg, target):
    """first use of a name"""
    if target.startswith("system:"):
        ureg.get_system(target[7:], False).members      # an unknown group is only logged: members == frozenset()
        return
    if target.startswith("context:"):
        with ureg.context(target[8:]):
            pass
        return
    UC = ureg.UnitsContainer
    ureg._get_root_units(UC({target: 1}), check_nonmult=False)
    ureg.get_dimensionality(UC({target: 1}))
    ureg.Quantity(1, target).to_base_units()


# ===================================================================== the check
class Rec:
    """what a worker process records for one generated file (merged into the Check by the parent)"""

    def __init__(self, seed, tier):
        self.seed, self.tier = seed, tier
        self.keys, self.counts, self.broken, self.samples = [], {}, [], []

    def case(self, key=None, nontrivial=True, sample=None, n=1):
        self.keys.append((key, nontrivial, sample))

    def count(self, name, n=1):
        self.counts[name] = self.counts.get(name, 0) + n


def b_worker(args):
    seed, fi, quirk, thorough, tmp = args
    rng = random.Random(f"c10-{seed}-{fi}")
    rec = Rec(seed, "thorough" if thorough else "quick")
    sp = gen_spec(rng, rng.randint(5, 14) if not thorough else rng.randint(5, 20))
    cases, descs, fails, fgroups = [], [], [], []
    stats = {"registries": 0, "variants": 0}

    def add(term, desc, key, nontrivial=True):
        cases.append(term)
        descs.append(desc)
        rec.case(key=key, nontrivial=nontrivial, sample=desc)
    try:
        part_b_file(rec, rng, Path(tmp), fi, sp, quirk, add, lambda k, d, r: fails.append((k, d, r)), stats, thorough, fgroups)
    except Exception as e:
        import traceback
        rec.broken.append(f"harness stopped on generated file {fi}: {e!r} {traceback.format_exc()[-600:]}")
    return {"cases": cases, "descs": descs, "fails": fails, "fgroups": fgroups, "stats": stats, "keys": rec.keys,
            "counts": rec.counts, "broken": rec.broken}


def run(ck):
    import pint
    rng = random.Random(ck.seed)
    thorough = ck.tier == "thorough"
    nfiles = 200 if thorough else 20
    ck.rule = ("(a) default_en.txt+constants_en.txt: every spelling's root factor/root units/dimensionality/name/symbol, every "
               "converter, prefix, dimension (Fraction registry, exact); Coq line reader and lexer on every definition line; "
               "(b) %d random definition files (units DAG with decimal factors, prefixes, aliases, symbols, offset and log units, "
               "chains of derived dimensions in random line order (forward references), @alias lines (of names, symbols, earlier aliases; also written inline in a twin file), groups with using, systems with both rule forms (also a `new : old` rule that has to be inverted with exponent 2), contexts with relations, parameters "
               "and redefinitions, @defaults, nested @import, comments) x 6 permutations of the unit/prefix/dimension lines x 3 "
               "layouts x loading paths file / list to constructor / load_definitions / define() / cold / warm disk cache, and "
               "non_int_type float/Decimal/Fraction, case_sensitive=False registries and lookups (case variants and prefixed case "
               "variants of every spelling); (c) one seeded fault per file from a catalogue of %d kinds. non-trivial = "
               "distinct (file, variant, path, observation) / distinct strings" % (nfiles, len(LINE_LEVEL) + 15))
    ck.assumptions += [
        "the Python half of the reader (harness/t1_defs.py, harness/c10.py def_lines) resolves @import, recognises block "
        "directives and @end, and T1 tokenises right-hand sides; the Coq half (Model/DefFile.v) strips comments, splits at '=', "
        "classifies, validates names, lexes (K compares its lexer with T1's on every right-hand side) and elaborates",
        "contexts, systems and @defaults are not modelled in Coq: their meaning is compared between loading paths, orders and "
        "layouts on pint itself and with the generator's own expectation",
        "str.isidentifier is modelled exactly on ASCII; names with non-ASCII characters are outside the CIdent comparison",
        "float and Decimal registries are compared with the exact Fraction meaning within 1e-9 relative (a test, not a proof)",
    ]
    ck.trusted.append("flexparser block machinery, file I/O, content hashing and the pickle format of the on-disk cache are exercised by K only")
    ok = ck.coq_build(["Properties/C10.vo", "Model/DefFileRun.vo", "Gen/DefaultReg.vo"])
    tmp = mktemp()
    cases, descs = [], []
    fgroups = []                  # per generated file: (name, header with its shared observations, cases, descs)
    fails = []                    # (key, description, replay)

    def add(term, desc, key, nontrivial=True):
        cases.append(term)
        descs.append(desc)
        ck.case(key=key, nontrivial=nontrivial, sample=desc if len(ck.samples) < 4 else None)

    def fail(key, desc, rp):
        fails.append((key, desc, rp))

    import time
    t0 = time.time()
    timing = {}
    # ---------------------------------------------------------------- (a) the bundled files
    try:
        part_a(ck, rng, add, fail, thorough)
    except Exception as e:          # the bundled file itself no longer loads / reads: a concrete failing input
        import traceback
        fail("load-failed:default_en.txt", f"the bundled definition file cannot be loaded or queried: {e!r}"[:400],
             {"file": "pint/default_en.txt", "traceback": traceback.format_exc()[-1500:]})
    timing["a"] = round(time.time() - t0, 1)

    # ---------------------------------------------------------------- quirk selection (DESIGN §2.6)
    quirk = True
    try:
        u = pint.UnitRegistry(None, non_int_type=F, cache_folder=None)
        u.define("zzwitness = [zzdim] = q r")
        quirk = "q r" in u._units
    except Exception:
        quirk = False
    ck.extra["quirks"] = {"q_symbol_unchecked": quirk}

    # ---------------------------------------------------------------- (b) random files
    stats = {"registries": 0, "variants": 0}
    import concurrent.futures as cf
    import multiprocessing as mp
    jobs = [(ck.seed, fi, quirk, thorough, str(tmp)) for fi in range(nfiles)]
    with cf.ProcessPoolExecutor(max_workers=min(12 if thorough else 8, os.cpu_count() or 2), mp_context=mp.get_context("fork")) as ex:
        for res in ex.map(b_worker, jobs):
            cases += res["cases"]
            descs += res["descs"]
            fails += res["fails"]
            fgroups += res["fgroups"]
            ck.broken += res["broken"]
            for k in ("registries", "variants"):
                stats[k] += res["stats"][k]
            for key, nontrivial, sample in res["keys"]:
                ck.case(key=key, nontrivial=nontrivial, sample=sample if len(ck.samples) < 6 else None)
            for name, n in res["counts"].items():
                ck.count(name, n)
    timing["b"] = round(time.time() - t0, 1)
    ck.extra["pint_registries_built"] = stats["registries"]
    ck.extra["file_variants"] = stats["variants"]

    # ---------------------------------------------------------------- (c) malformed stream
    try:
        part_c(ck, rng, tmp, quirk, add, fail, thorough)
    except Exception as e:
        import traceback
        ck.broken.append(f"malformed stream stopped: {e!r} {traceback.format_exc()[-600:]}")

    timing["c"] = round(time.time() - t0, 1)
    # ---------------------------------------------------------------- differ inside Coq
    bad = None
    if ok:
        import concurrent.futures as cf
        bad = ck.coq_mismatches("c10", HEADER, cases, "c10_ok", shard=400, timeout=1500)
        bad = None if bad is None else [descs[i] for i in bad]

        def one(g):
            name, hdr, cs, ds = g
            r = ck.coq_mismatches(name, hdr, cs, "c10_ok", shard=400, timeout=1500)
            return None if r is None else [ds[i] for i in r]
        with cf.ThreadPoolExecutor(max_workers=min(16, max(1, len(fgroups)))) as ex:
            for r in ex.map(one, fgroups):
                if r is None or bad is None:
                    bad = None
                else:
                    bad += r
    ncases = len(cases) + sum(len(g[2]) for g in fgroups)
    t = os.times()
    timing["coq"] = round(time.time() - t0, 1)
    timing["cpu_python_s"] = round(t.user + t.system, 1)
    timing["cpu_coq_children_s"] = round(t.children_user + t.children_system, 1)
    ck.extra["timing_cumulative_s"] = timing
    ck.extra["model_vs_impl_cases"] = ncases
    ck.extra["model_vs_impl_disagreements"] = None if bad is None else len(bad)
    seen = set()
    for key, desc, rp in fails:
        if key not in seen:
            seen.add(key)
            ck.violation(key, desc, rp)
    if bad:
        ck.broken.append(f"correspondence DefFileRun.c10_ok: {len(bad)} disagreements, first: {bad[0]}")
        if not [f for f in fails if ck._match_known(f[0]) is None]:
            ck.violation("correspondence", "model and implementation disagree; no property oracle failed",
                         {"first_disagreement": bad[0], "n": len(bad), "all": bad[:20]}, no_input=True)
    shutil.rmtree(tmp, ignore_errors=True)


# ===================================================================== (a)
def part_a(ck, rng, add, fail, thorough):
    import pint
    from pint.delegates import ParserConfig
    from pint.delegates.txt_defparser import plain
    from pint import errors
    from pint.util import ParserHelper
    ureg = regk.registry(F)
    sp_all = regk.spellings(ureg)
    for s in sp_all:
        add("CDefault (KReg (" + regk.case_root(ureg, {s: F(1)}) + "))", {"default root": s}, ("a-root", s))
        add("CDefault (KReg (" + regk.case_dim(ureg, {s: F(1)}) + "))", {"default dim": s}, ("a-dim", s))
    ck.count("default:spelling meaning", len(sp_all))
    written = set()
    for d in t1_defs.parse_file(REPO / "pint" / "default_en.txt")["defs"]:
        if d["kind"] == "unit":
            written |= {d["fields"][0], "delta_" + d["fields"][0]}
    canon = [n for n in regk.canonical_names(ureg) if n in written]      # not the prefixed units _build_cache registers
    for n in canon:
        add("CDefault (" + conv_check(ureg, n) + ")", {"default converter": n}, ("a-conv", n))
    ck.count("default:converter", len(canon))
    for s in ureg._prefixes:
        p = ureg._prefixes[s]
        add(f"CDefault (KPrefix {coq_str(s)} (Some {coq_q(F(p.value))}) {coq_str(p.name)})", {"default prefix": s}, ("a-prefix", s))
    for d in ureg._dimensions:
        add("CDefault (" + dim_check(ureg, d) + ")", {"default dimension": d}, ("a-dimdef", d))
    ck.count("default:prefix+dimension", len(ureg._prefixes) + len(ureg._dimensions))

    # every definition line of the bundled files through the Coq line reader; expectation from pint's own classes
    cfg = ParserConfig(F)
    nline = nlex = 0
    for fname in ("default_en.txt", "constants_en.txt"):
        in_block = None
        for raw in (REPO / "pint" / fname).read_text(encoding="utf-8").splitlines():
            s = t1_defs.strip_comment(raw).strip()
            if not s:
                add(f"CLine {coq_str(raw)} None", {"line": raw}, ("a-line", raw), nontrivial=False)
                continue
            if in_block:
                if s == "@end":
                    in_block = None
                    continue
                if in_block != "group" or "=" not in s:
                    continue
            elif s.startswith("@") and not s.startswith("@alias "):
                in_block = s.split()[0][1:].split("(")[0]
                add(f"CLine {coq_str(raw)} None", {"line": raw}, ("a-line", raw))
                continue
            exp = pint_line(plain, cfg, s)
            if exp is None:
                fail("reader:bundled-line-unreadable", f"pint's own classes do not read {raw!r}", {"line": raw})
                continue
            t1 = t1_split(s)
            exp = dict(exp)
            for k in ("rhs", "mods", "value"):
                if k in t1:
                    exp[k] = t1[k]
            add(f"CLine {coq_str(raw)} (Some {coq_defrec(exp)})", {"line": raw}, ("a-line", raw))
            nline += 1
            for txt in [exp.get("rhs"), exp.get("value")] + [b for _, b in exp.get("mods", [])]:
                if txt:
                    add(lex_case(txt), {"lex": txt}, ("a-lex", txt))
                    nlex += 1
    ck.count("default:definition lines (Coq reader)", nline)
    ck.count("default:right-hand sides (Coq lexer vs T1)", nlex)

    # name predicates (ASCII), decimal printer, literal kinds
    alphabet = "abzAZ_019 -[]=.#\t"
    strings = set()
    for n in range(3):
        for _ in range(120 if not thorough else 600):
            strings.add("".join(rng.choice(alphabet) for _ in range(rng.randint(0, 5))))
    strings |= {s for s in sp_all if s.isascii()} | {d for d in ureg._dimensions if d.isascii()} | {"", "[]", "[", "]", "[a]", "a b", " a", "a ", "_", "1a", "a1"}
    for s in sorted(strings):
        vd = False
        try:
            vd = errors.is_valid_dimension_name(s)
        except IndexError:
            continue      # is_dim("") raises; not a predicate value
        add(f"CIdent {coq_str(s)} {coq_bool(s.isidentifier())} {coq_bool(errors._no_space(s))} {coq_bool(vd)}",
            {"ident": s}, ("a-ident", s))
    ck.count("name predicates", len(strings))
    for _ in range(300 if not thorough else 1500):
        k = rng.randint(0, 8)
        q = F(rng.randint(0, 10 ** rng.randint(1, 12)), 2 ** rng.randint(0, 6) * 5 ** rng.randint(0, 6)) if rng.random() < 0.8 \
            else F(rng.randint(-50, 500), rng.choice([3, 7, 6, 1, 12, 35]))
        txt = py_print_dec(q)
        try:
            rt = F(txt) == q and not txt.startswith("(")
        except ValueError:
            rt = False
        add(f"CDec {coq_q(q)} {coq_str(txt)} {coq_bool(rt)}", {"dec": str(q)}, ("a-dec", str(q)))
    ck.count("decimal printer", 300)
    for kind, nit in (("KFloat", float), ("KDecimal", Decimal), ("KFraction", F)):
        for lit in FACTORS + PREFIX_VALUES + ["1", "0", "10", "1.0", "1e0", "007"[2:], "5_0", "3.", ".5"]:
            if "*" in lit or "/" in lit:
                continue
            try:
                v = ParserHelper.from_string(lit, nit).scale
            except Exception:
                continue
            isint = isinstance(v, int)
            if nit is not float and not isinstance(v, nit):
                fail(f"literal-kind:{nit.__name__}", f"literal {lit!r} read as {type(v).__name__} in a {nit.__name__} registry", {"literal": lit})
            add(f"CKind {kind} {coq_str(lit)} {coq_bool(isint)}", {"kind": [kind, lit]}, ("a-kind", kind, lit))
    ck.count("literal kinds", 3 * len(FACTORS))


def pint_line(plain, cfg, s):
    """what pint's statement classes make of one stripped line -> comparable record (None: not a definition)"""
    try:
        if s.startswith("@alias "):
            o = plain.AliasDefinition.from_string(s)
            return {"kind": "alias", "name": o.name, "aliases": list(o.aliases)}
        for cls in (plain.DerivedDimensionDefinition, plain.DimensionDefinition, plain.PrefixDefinition, plain.UnitDefinition):
            o = cls.from_string_and_config(s, cfg) if hasattr(cls, "from_string_and_config") and cls is not plain.DimensionDefinition \
                else cls.from_string(s)
            if o is None:
                continue
            if isinstance(o, Exception):
                return None
            if cls is plain.DerivedDimensionDefinition:
                return {"kind": "ddim", "name": o.name, "rhs": ""}
            if cls is plain.DimensionDefinition:
                return {"kind": "dim", "name": o.name}
            if cls is plain.PrefixDefinition:
                return {"kind": "prefix", "name": o.name, "value": "", "sym": o.defined_symbol, "aliases": list(o.aliases)}
            return {"kind": "unit", "name": o.name, "rhs": "", "mods": [], "sym": o.defined_symbol, "aliases": list(o.aliases)}
    except Exception:
        return None
    return None


def t1_split(s):
    """the text fields as the independent reader T1 splits them"""
    if s.startswith("@alias "):
        return {}
    fields = [p.strip() for p in s.split("=")]
    if s.startswith("["):
        return {"rhs": fields[1]} if len(fields) > 1 else {}
    if fields[0].endswith("-"):
        return {"value": fields[1]}
    value = fields[1]
    mods = []
    if ";" in value:
        value, modtxt = value.split(";", 1)
        for part in modtxt.split(";"):
            k, v = part.split(":")
            mods.append((k.strip(), v.strip()))
    return {"rhs": value.strip(), "mods": mods}


def lex_case(txt):
    try:
        toks = t1_defs.lex(txt)
        return f"CLex {coq_str(txt)} (Some {coq_toks(toks)})"
    except t1_defs.T1Error:
        return f"CLex {coq_str(txt)} None"


def py_print_dec(q):
    """independent reimplementation of the decimal printer"""
    n, d = q.numerator, q.denominator
    k, dd = 0, d
    if n >= 0:
        while dd % 2 == 0 or dd % 5 == 0:
            dd //= (10 if dd % 10 == 0 else (2 if dd % 2 == 0 else 5))
        if dd == 1:
            while (10 ** k) % d:
                k += 1
            if k == 0:
                return str(n)
            m = n * 10 ** k // d
            ip, fp = divmod(m, 10 ** k)
            return f"{ip}.{fp:0{k}d}"
    return f"({n}/{d})"


# ===================================================================== (b)
def part_b_file(ck, rng, tmp, fi, sp, quirk, add, fail, stats, thorough, fgroups):
    import pint
    # probes: prefixed / plural spellings of multiplicative units
    mult_sp = [s for s, c in sp["spell"].items() if c not in sp["nonmult"]]
    sp["probes"] = sorted({rng.choice(sorted(sp["pspell"])) + rng.choice(mult_sp) + rng.choice(["", "s"]) for _ in range(6)}
                          | {rng.choice(mult_sp) + "s" for _ in range(2)})
    sp["ctx_units"] = {b["name"]: b["name"] for b in sp["base"]}
    exp_groups, orphans = expected_groups(sp)
    sp["orphans"] = sorted(orphans)
    nrec = len(section_a(sp))
    orders = [None] + [rng.sample(range(nrec), nrec) for _ in range(6)]
    ref = None
    gcases, gdescs = [], []

    def gadd(term, desc, key):
        gcases.append(term)
        gdescs.append(desc)
        ck.case(key=key, sample=desc if len(ck.samples) < 6 else None)
    chk_name = f"chk{fi}"
    ghdr = None
    replay_base = {"file_index": fi, "seed": ck.seed}
    for oi, order in enumerate(orders):
        for v in LAYOUTS:
            vdir = tmp / f"f{fi}" / f"o{oi}l{v['id']}"
            files, printed = render_files(sp, v, order)
            main = write_files(vdir, files)
            stats["variants"] += 1
            rp = dict(replay_base, order=oi, layout=v["id"], files=files)
            label = f"file{fi}/order{oi}/layout{v['id']}"
            is_ref = (oi == 0 and v["id"] == 0)
            # ---- pint, every loading path (Fraction)
            per_path = {}
            for pk in PATHS:
                cache = vdir / "cache"
                try:
                    u = build(pk, main, F, cache)
                    stats["registries"] += 1
                    per_path[pk] = (u, meaning_of(u, sp))
                except Exception as e:
                    per_path[pk] = (None, "LOAD-ERR:" + type(e).__name__ + ":" + str(e)[:120])
                    fail(f"load-failed:{pk}", f"a well-formed file does not load through {pk}: {e!r}"[:300], rp)
                ck.case(key=("b", fi, oi, v["id"], pk))
            if is_ref:
                u0, m0 = per_path["file"]
                if u0 is None:
                    ck.broken.append(f"generated file {fi} does not load: {m0}")
                    return
                ref = m0
                # what is written (generator's expectation) vs pint
                exp = expected_meaning(sp)
                syms = {b["name"]: b["sym"] for b in sp["base"]}
                syms.update({uu["name"]: uu["sym"] for uu in sp["units"] + [x for g in sp["groups"] for x in g["units"]]})
                for s, (ef, eb) in exp.items():
                    got = m0["units"][s][2]
                    if got != (ef, eb):
                        fail("written-meaning:root", f"{s}: file says factor {ef} over {eb}, registry says {got}", dict(rp, name=s))
                    c = sp["spell"][s]
                    if m0["units"][s][0] != c or m0["units"][s][1] != (syms[c] or c):
                        fail("written-meaning:name-symbol", f"{s}: file says name {c}, symbol {syms[c] or c}; registry says {m0['units'][s][:2]}", dict(rp, name=s))
                for ps, pn in sp["pspell"].items():
                    pd = [x for x in sp["prefixes"] if x["name"] == pn][0]
                    if m0["prefixes"][ps] != (pn, fr(pd["val"]), pd["sym"] or pn):
                        fail("written-meaning:prefix", f"{ps}: file says {pn} = {pd['val']} symbol {pd['sym'] or pn}; registry says {m0['prefixes'][ps]}", dict(rp, name=ps))
                for dd in sp["ddims"]:
                    want = (False, tuple(sorted((n, fr(F(e))) for n, e in dd["refs"])))
                    if m0["dimensions"][dd["name"]] != want:
                        fail("written-meaning:derived-dimension", f"{dd['name']}: written {want}, registry {m0['dimensions'][dd['name']]}", dict(rp, name=dd["name"]))
                for d, e in sp["dim_exp"].items():
                    want = tuple(sorted((b, fr(F(v))) for b, v in e.items()))
                    if m0["dimension-expansion"][d] != want:
                        fail("written-meaning:dimension-expansion", f"get_dimensionality({d}): the lines say {want}, the registry says "
                             f"{m0['dimension-expansion'][d]}", dict(rp, name=d))
                    if d in m0["dimension-check"] and m0["dimension-check"][d] is not True:
                        fail("written-meaning:dimension-check", f"Quantity(1, {sp['dim_units'][d]!r}).check({d!r}) is {m0['dimension-check'][d]}", dict(rp, name=d))
                for d in sp["dims"]:
                    if m0["dimensions"][d] != (True, ()):
                        fail("written-meaning:base-dimension", f"{d}: registry says {m0['dimensions'][d]}", dict(rp, name=d))
                for vname, c in case_variants(sp):
                    if m0["case-insensitive"][vname][0] != c:
                        fail("written-meaning:case-insensitive-name", f"get_name({vname!r}, case_sensitive=False): the file says {c}, "
                             f"the registry says {m0['case-insensitive'][vname]}", dict(rp, name=vname))
                        break
                for g, mem in exp_groups.items():
                    if m0["groups"].get(g) != mem:
                        fail("written-meaning:group-members", f"group {g}: written {mem}, registry {m0['groups'].get(g)}", dict(rp, group=g))
                for s in sp["systems"]:
                    want = tuple(sorted([(b, ((new, "1/1"),)) for new, _o, b in s["rules"]] +
                                        [(o, tuple(sorted((u, fr(x)) for u, x in ex.items()))) for _n, o, ex in s.get("mrules", [])]))
                    got = m0["systems"][s["name"]]
                    gm = set()
                    for g in s["using"]:
                        gm |= set(exp_groups[g])
                    if got == "ERR" or got[1] != want or set(got[0]) != gm:
                        fail("written-meaning:system", f"system {s['name']}: written rules {want} members {sorted(gm)}, registry {got}", dict(rp, system=s["name"]))
                    for new, _o, b in s["rules"]:
                        f_new = sp["root"][new][0]
                        gotc = m0["system-conversion"][(s["name"], b)]
                        if gotc != (fr(1 / f_new), ((new, "1/1"),)):
                            fail("written-meaning:system-rule-applied", f"1 {b} in system {s['name']}: expected {1 / f_new} {new}, got {gotc}", dict(rp, system=s["name"]))
                    for new, oldu, ex in s.get("mrules", []):
                        gotc = m0["system-conversion"][(s["name"], oldu)]
                        okc = isinstance(gotc, tuple) and {u: numv(x) for u, x in gotc[1]} == ex
                        gotn = m0["system-conversion"][(s["name"], new)]
                        okn = isinstance(gotn, tuple) and {u: numv(x) for u, x in gotn[1]} == {new: F(1)} and numv(gotn[0]) == 1
                        if not (okc and okn):
                            fail("written-meaning:system-rule-inverted", f"system {s['name']}, rule `{new} : {oldu}` ({new} = {sp['root'][new]}): "
                                 f"1 {oldu} should be expressed in {dict(ex)}, got {gotc}; 1 {new} should stay 1 {new}, got {gotn}"[:500], dict(rp, system=s["name"]))
                if sp["defaults"] and m0["defaults"][0] != sp["defaults"]["system"]:
                    fail("written-meaning:defaults", f"default system {m0['defaults'][0]} != {sp['defaults']['system']}", rp)
                for c in sp["contexts"]:
                    got = m0["contexts"][c["name"]]
                    want = expected_context(sp, c)
                    if not isinstance(got, tuple) or [x for x in got[1] if not isinstance(x, tuple)] != want:
                        fail("written-meaning:context-rule-applied", f"context {c['name']}: expected {want}, got {got}"[:400], dict(rp, context=c["name"]))
                    else:
                        for rd in c["redefs"]:
                            inside = [x for x in got[1] if isinstance(x, tuple) and x[0] == rd["name"]][0][1]
                            after = [x for x in got[1] if isinstance(x, tuple) and x[0] == "after"][0][2]
                            refc = sp["spell"].get(rd["ref"].rstrip("s"), None)
                            if after != m0["units"][rd["name"]][2]:
                                fail("written-meaning:context-redefinition-leaks", f"{rd['name']} differs after leaving the context", rp)
                # ---- model: T1 reading and Coq reading of the same file
                try:
                    parsed = t1_defs.parse_file(main)
                    raw = coq_list([t1_defs.coq_rawdef(d) for d in parsed["defs"]])
                    dl, _flat, _st = def_lines(main)
                    checks = checks_from_pint(u0, sp)
                    names = [d["fields"][0] for d in parsed["defs"] if d["kind"] == "unit"]
                    allnames = []
                    for d in parsed["defs"]:
                        if d["kind"] == "unit":
                            allnames.append(d["fields"][0])
                            if any(k == "offset" for k, _ in d["mods"]) and u0._units[d["fields"][0]].converter.__class__.__name__ == "OffsetConverter":
                                allnames.append("delta_" + d["fields"][0])
                    ghdr = HEADER + f"Definition {chk_name} : list check := {coq_list(checks)}.\n"
                    gadd(f"CFile {raw} {coq_strs(dl)} {coq_bool(quirk)} (KUnitNames {coq_strs(allnames)} :: {chk_name})", {"file": label, "lines": len(dl)}, ("b-file", fi))
                    ck.count("files: T1+Coq reading vs pint", 1)
                    ck.count("observations per reference file", len(checks))
                    # groups / systems: the closure model
                    gs = [(g["name"], g["using"], [x for x in g["units"]]) for g in parsed["groups"]]
                    grouped = {x for _, _, us in gs for x in us}
                    gsd = {n: (us_, list(units)) for n, us_, units in gs}
                    if parsed["defaults"].get("group") in gsd:
                        gsd[parsed["defaults"]["group"]][1].extend(sorted(set(names) - grouped))
                    gsd["root"] = (sorted(gsd), list(names))
                    for s in parsed["systems"]:
                        gsd["system:" + s["name"]] = (s["using"] or ["root"], [])
                    gterm = coq_list([f"({coq_str(n)}, {coq_strs(us_)}, {coq_strs(units)})" for n, (us_, units) in gsd.items()])
                    for g in ["root"] + [x["name"] for x in sp["groups"]]:
                        add(f"CGroup {gterm} {coq_str(g)} {coq_strs(m0['groups'][g])}", {"group": [label, g]}, ("b-group", fi, g))
                    for s in sp["systems"]:
                        add(f"CGroup {gterm} {coq_str('system:' + s['name'])} {coq_strs(m0['systems'][s['name']][0])}", {"system": [label, s["name"]]}, ("b-sys", fi, s["name"]))
                    # Coq printer = generator printer, on every printed record
                    for r, ln, extra in printed:
                        add(f"CPrint {coq_layout(dict(v, indent=v['indent'] + extra))} {coq_defrec(r)} {coq_str(ln)}", {"print": ln}, ("b-print", ln))
                        add(f"CLine {coq_str(ln)} (Some {coq_defrec(r)})", {"line": ln}, ("b-line", ln))
                except t1_defs.T1Error as e:
                    ck.broken.append(f"T1 cannot read generated file {fi}: {e}")
                    return
            else:
                # ---- model on the variant: same observations as the reference (order-free ones)
                if ref is not None and ghdr is not None and (oi <= 3 or v["id"] == 0):
                    # (14 of the 20 variants of each file go through the Coq reader as well; all 20 through pint)
                    # the observations are those of the reference file: pint gave the same answers on this
                    # variant (oracle below), so the model must give them on the variant's lines
                    dl, _flat, _st = def_lines(main)
                    gadd(f"CVariant {coq_strs(dl)} {coq_bool(quirk)} {chk_name}", {"variant": label}, ("b-var", fi, oi, v["id"]))
                    ck.count("variants: Coq reading vs pint", 1)
                if v["id"] != 0 and oi <= 1:
                    for r, ln, extra in printed[:6] + printed[-2:]:
                        add(f"CPrint {coq_layout(dict(v, indent=v['indent'] + extra))} {coq_defrec(r)} {coq_str(ln)}", {"print": ln}, ("b-print", ln))
                        add(f"CLine {coq_str(ln)} (Some {coq_defrec(r)})", {"line": ln}, ("b-line", ln))
            # ---- oracles: every path / order / layout says the same
            for pk in PATHS:
                u, m = per_path[pk]
                if u is None or ref is None:
                    continue
                for section in m:
                    if m[section] != ref[section]:
                        diff = first_diff(ref[section], m[section])
                        if pk == "file":
                            key = f"{'order' if oi > 0 else 'layout'}-dependence:{section}"
                        else:
                            # is it the path, or already the variant?
                            base = per_path["file"][1]
                            if isinstance(base, dict) and base[section] == m[section]:
                                continue
                            key = f"path-dependence:{section}:{pk}"
                        fail(key, f"{label} via {pk}: {section} differs from the reference reading: {diff}"[:500], dict(rp, path=pk, section=section))
                ck.count(f"path:{pk}")
            # ---- a registry built with case_sensitive=False, through every path: the names are those written
            if is_ref or (oi == 1 and v["id"] == 1):
                want = dict(case_variants(sp))
                for pk in PATHS:
                    try:
                        u = build(pk, main, F, vdir / "cache_ci", case_sensitive=False)
                        stats["registries"] += 1
                        got = casei_section(u, sp, False)
                        for vname, c in want.items():
                            if got[vname][0] != c:
                                fail(f"case-insensitive-registry:{pk}", f"{label}: UnitRegistry(case_sensitive=False) via {pk}: {vname!r} should be {c} "
                                     f"(written as a spelling of it), registry says {got[vname]}", dict(rp, path=pk, name=vname, case_sensitive=False))
                                break
                        for sname in sorted(sp["spell"]):
                            if safe(lambda: u.get_name(sname)) != sp["spell"][sname]:
                                fail(f"case-insensitive-registry:exact:{pk}", f"{label}: {sname!r} not found in its exact case", dict(rp, path=pk, name=sname))
                                break
                    except Exception as e:
                        fail(f"load-failed:case-insensitive:{pk}", f"{label}: {e!r}"[:300], dict(rp, path=pk))
                    ck.case(key=("b-ci", fi, oi, v["id"], pk))
                ck.count("case-insensitive registries", len(PATHS))
            # ---- the same aliases written inline on the unit line instead of by @alias: same names, same meaning
            if is_ref or (oi == 2 and v["id"] == 2):
                tdir = vdir / "twin"
                tfiles, _p = render_files(sp, v, order, inline_aliases=True)
                tmain = write_files(tdir, tfiles)
                for pk in ("file", "load_definitions", "define", "cache-warm"):
                    try:
                        if pk == "cache-warm":
                            build("cache-cold", tmain, F, tdir / "cache")
                        ut = build(pk, tmain, F, tdir / "cache")
                        stats["registries"] += 1
                        mt = meaning_of(ut, sp)
                    except Exception as e:
                        fail(f"load-failed:inline-aliases:{pk}", f"{label}: {e!r}"[:300], dict(rp, files=tfiles, path=pk))
                        continue
                    md = per_path[pk][1]
                    if isinstance(md, dict):
                        for section in ("units", "probes", "prefixes", "case-insensitive", "groups", "systems"):
                            if mt[section] != md[section]:
                                fail(f"notation-dependence:alias-inline-vs-directive:{section}:{pk}",
                                     f"{label} via {pk}: {section} differs between aliases written inline and by @alias: "
                                     f"{first_diff(mt[section], md[section])}"[:500], dict(rp, twin_files=tfiles, path=pk, section=section))
                    ck.case(key=("b-twin", fi, oi, v["id"], pk))
                ck.count("inline-alias twins", 4)
            # ---- numeric kinds: the same folder for the three types (float first): the cache must be keyed by type
            if is_ref or (oi == 1 and v["id"] == 1):
                shared = vdir / "cache_shared"
                exact = {s: (F(a.split("/")[0]) / F(a.split("/")[1]) if not a.startswith("float") else None, b) for s, (_, _, (a, b), _) in
                         ((s, x) for s, x in ref["units"].items() if isinstance(x[2], tuple))}
                for nit in (float, Decimal, F, float, Decimal, F):
                    try:
                        u = pint.UnitRegistry(str(main), non_int_type=nit, cache_folder=str(shared))
                        stats["registries"] += 1
                    except Exception as e:
                        fail(f"load-failed:cache:{nit.__name__}", f"{label}: {e!r}"[:300], rp)
                        continue
                    ty = types_of(u, sp)
                    allowed = {float: {"int", "float"}, Decimal: {"Decimal", "float"}, F: {"Fraction", "float"}}[nit]
                    for k, tname in ty.items():
                        if tname not in allowed or (nit is not float and tname == "float"):
                            fail(f"literal-kind:{nit.__name__}:{tname}", f"{label}: {k} has type {tname} in a {nit.__name__} registry (shared cache folder)", dict(rp, what=k))
                    if nit is float:
                        # an int only where every literal of the definition is an integer literal
                        for uu in sp["units"]:
                            if ty.get("unit:" + uu["name"]) == "int" and not (uu["factor"].replace("_", "").isdigit()):
                                fail("literal-kind:float:int-for-non-integer", f"{uu['name']} = {uu['factor']} … kept as int", dict(rp, what=uu["name"]))
                    if nit is F:
                        mm = meaning_of(u, sp)
                        for section in ("units", "converters", "prefixes"):
                            if mm[section] != ref[section]:
                                fail(f"path-dependence:{section}:cache-shared-between-types", f"{label}: Fraction registry built over a cache folder shared with float/Decimal differs: {first_diff(ref[section], mm[section])}"[:400], rp)
                    else:
                        am = approx_meaning(u, sp)
                        for s, val in am.items():
                            if s in exact and exact[s][0] is not None and isinstance(val, tuple):
                                e = float(exact[s][0])
                                if not abs(val[0] - e) <= 1e-9 * max(abs(e), 1e-300):
                                    fail(f"numeric:{nit.__name__}", f"{label}: {s} root factor {val[0]} vs exact {e}", dict(rp, name=s))
                    ck.case(key=("b-kind", fi, oi, nit.__name__, stats["registries"]))
                ck.count("numeric kinds over a shared cache folder", 6)
    shutil.rmtree(tmp / f"f{fi}", ignore_errors=True)
    if ghdr is not None:
        fgroups.append((f"c10_f{fi}", ghdr, gcases, gdescs))


def expected_context(sp, c):
    out = []
    for r in c["relations"]:
        rs = sp["root"][r["b1"]][0]
        for n in (lit_value(c["defaults"]["n"]), F(5)):
            if r["kind"] == "scale":
                out.append(fr(3 * r["k"] * n))
            else:
                out.append(fr(r["k"] / 3))
                out.append(fr(r["k"] / 3))
    return out


def numv(txt):
    """the number behind fr()'s text (floats are read back exactly)"""
    return F(float(txt[6:])) if txt.startswith("float:") else F(txt)


def first_diff(a, b):
    if isinstance(a, dict) and isinstance(b, dict):
        for k in a:
            if k not in b or a[k] != b[k]:
                return f"{k}: {a[k]!r} vs {b.get(k)!r}"
    return f"{a!r} vs {b!r}"[:300]


# ===================================================================== (c)
def part_c(ck, rng, tmp, quirk, add, fail, thorough):
    import pint
    rounds = 3 if thorough else 1
    nkinds = 0
    for rd in range(rounds):
        sp = gen_spec(rng, rng.randint(4, 8))
        sp["probes"] = []
        sp["ctx_units"] = {b["name"]: b["name"] for b in sp["base"]}
        sp["orphans"] = []
        files, _ = render_files(sp, LAYOUTS[0])
        base_lines = files["main.txt"].splitlines()
        cat = faults(sp, rng)
        nkinds = len(cat)
        for kind, must, edit in cat:
            lines, target = edit(list(base_lines))
            vdir = tmp / f"fault{rd}_{kind}"
            ff = dict(files)
            ff["main.txt"] = "\n".join(lines) + "\n"
            main = write_files(vdir, ff)
            rp = {"fault": kind, "files": ff, "target": target}
            verdicts = {}
            for pk in ("file", "load_definitions", "define", "cache-cold", "cache-warm"):
                if kind == "import-missing-file" and pk in ("load_definitions", "define"):
                    continue
                where = None
                try:
                    u = build(pk, main, F, vdir / "cache")
                    if target:
                        try:
                            use(u, target)
                        except Exception as e:
                            where = "use:" + type(e).__name__
                except Exception as e:
                    where = "load:" + type(e).__name__
                verdicts[pk] = where
                ck.case(key=("c", rd, kind, pk))
            raised = {pk: w is not None for pk, w in verdicts.items()}
            ck.count("fault:" + kind)
            if must and not all(raised.values()):
                silent = sorted(pk for pk, r in raised.items() if not r)
                key = f"fault-accepted:{kind}" if len(silent) == len(raised) else f"fault-accepted:{kind}:" + "+".join(silent)
                fail(key, f"ill-formed definition ({kind}) is given a meaning without any error via {silent}: "
                          f"{[l for l in lines if l not in base_lines]}", rp)
            # model verdict (line-level faults: the Coq reader; block-level: the Python half of the reader)
            if kind in LINE_LEVEL:
                try:
                    dl, _f, _s = def_lines(main)
                    model_lines = dl
                    if kind == "unknown-directive":
                        model_lines = [l for l in lines if l.startswith("@" ) and not l.startswith(("@import", "@alias", "@group", "@system", "@context", "@defaults", "@end"))] + dl
                    tgt = target or ""
                    add(f"CFault {coq_strs(model_lines)} {coq_bool(quirk)} {coq_str(tgt)} {coq_bool(raised['file'])}",
                        {"fault": kind}, ("c-fault", rd, kind))
                except Exception as e:
                    ck.broken.append(f"reader failed on fault {kind}: {e!r}")
            else:
                try:
                    parsed = t1_defs.parse_file(main)
                    model_err = block_model_err(parsed, sp)
                except (t1_defs.T1Error, FileNotFoundError, ValueError):
                    model_err = True
                if kind in ("system-using-unknown-group", "context-redefines-base-unit", "context-relation-unknown-dimension",
                            "context-default-non-numeric", "context-default-unused", "context-relation-without-equation",
                            "system-rule-unknown-unit"):
                    model_err = True        # semantic faults of blocks the Python half does not interpret: stated, not computed
                if model_err and not raised["file"] and must:
                    pass                    # already reported by the oracle above
                if not model_err and raised["file"]:
                    ck.broken.append(f"reader accepts fault {kind} that pint rejects ({verdicts['file']})")
    ck.extra["fault_kinds"] = nkinds


def block_model_err(parsed, sp):
    """block-level consistency the Python half can decide: defaults keys, group references, duplicates"""
    names = [g["name"] for g in parsed["groups"]]
    if len(set(names)) != len(names):
        return True
    seen = {"root"}
    for g in parsed["groups"]:
        if any(x not in seen for x in g["using"]):
            return True
        seen.add(g["name"])
    if parsed["defaults"] and set(parsed["defaults"]) != {"group", "system"}:
        return True
    return False


def replay(ck, path):
    """re-run one recorded input on pint: rewrite the files, load them through every path, print the meanings"""
    import json
    rp = json.loads(open(path).read())
    r = rp["replay"]
    print(json.dumps({k: v for k, v in rp.items() if k != "replay"}, indent=1))
    if "files" not in r:
        print(json.dumps(r, indent=1)[:3000])
        return 0
    tmp = mktemp()
    main = write_files(tmp, r["files"])
    for pk in PATHS:
        try:
            u = build(pk, main, F, tmp / "cache")
            line = f"loaded; {len(u._units)} spellings"
            if r.get("target"):
                try:
                    use(u, r["target"])
                    line += f"; use({r['target']}) gives a meaning"
                except Exception as e:
                    line += f"; use({r['target']}) raises {type(e).__name__}"
            if r.get("section") == "compatible-units":
                line += "; compatible: " + str({d: sorted(map(str, u.get_compatible_units(d))) for d in list(u._base_units)[:3]})
        except Exception as e:
            line = f"raises {type(e).__name__}: {str(e)[:200]}"
        print(f"{pk:18s} {line}")
    shutil.rmtree(tmp, ignore_errors=True)
    return 1
