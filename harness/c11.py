"""C11 — context conversions apply the declared rules along a shortest chain.

Theorems: coq/Properties/C11.v over Model/Context.v (path search for every neighbour order,
rule lookup, parameter resolution, conversion along the path, redefinition overlay).

Correspondence K (differ inside Coq, Model/ContextRun.v):
  * the seven bundled contexts on the regenerated default registry (context blocks read by T1's
    line reader, interpreted by the Coq model) x unit pairs of the dimensionalities they link;
  * random worlds: a small generated registry, 3-5 contexts with overlapping monomial rules,
    parameters and redefinitions, stacks of activations up to four deep, every activation form;
  * pint.util.find_shortest_path alone on random integer graphs.
Where several shortest chains exist the observed value must be the model's value along one of them.

Property oracles (pint alone, reference computed independently with Fractions from the context
definitions and a registry in which no context is ever enabled): value = composition of the
declared equations along SOME shortest chain, newest context wins, kwargs > enclosing > defaults,
same-dimension conversions unchanged, unreachable => DimensionalityError, redefinitions visible
exactly while active (transitively), is_compatible_with agrees with the conversion.

Defect switch (DESIGN 2.6): the F5 witness is replayed first; the model runs with q_oldest = what
the implementation shows there.  Debug hooks (never needed by ./check): C11_DEBUG=<file> dumps the
disagreeing cases, C11_FORCE_Q=0|1 runs the model with a given switch (self-test of the differ).
"""
from __future__ import annotations

import atexit
import concurrent.futures as cf
import json
import logging
import os
import random
import re
import shutil
import tempfile
from collections import defaultdict
from fractions import Fraction as F
from pathlib import Path

from . import t1_defs
from .common import NCPU, REPO, coq_bool, coq_list, coq_opt, coq_q, coq_str, coq_uc

logging.getLogger("pint").setLevel(logging.ERROR)

HEADER = ("From PintV Require Import Model.UC Model.Eval Model.Registry Model.Context Model.ContextRun "
          "Gen.DefaultDefs Gen.DefaultReg.\nOpen Scope string_scope.\n")
BUNDLED = ["spectroscopy", "boltzmann", "energy", "chemistry", "textile", "Gaussian", "ESU"]
F5_KEY = "param-inherit:oldest-rule-owner-not-innermost"
RTOL = 1e-12


# ===================================================================== reading context blocks (T1)
class C11Error(Exception):
    pass


_HDR = re.compile(r"@context\s*(\((?P<defaults>.*)\))?\s*(?P<rest>[^()]*)$")


def parse_ctx_block(header: str, lines):
    """@context[(k=v,...)] name [= alias]* ; relation lines ; redefinition lines.  Fail-closed."""
    m = _HDR.match(header.strip())
    if not m:
        raise C11Error(f"context header {header!r}")
    names = [p.strip() for p in m.group("rest").split("=")]
    if not names or not re.fullmatch(r"\w+", names[0]):
        raise C11Error(f"context header {header!r}")
    defaults = []
    if m.group("defaults"):
        for part in m.group("defaults").split(","):
            k, v = part.split("=")
            defaults.append((k.strip(), v.strip()))
    rels, redefs = [], []
    for s in lines:
        if "->" in s and ":" in s:
            rel, eq = s.split(":")
            sep = "<->" if "<->" in rel else "->"
            src, dst = rel.split(sep)
            rels.append({"bidir": sep == "<->", "src": src.strip(), "dst": dst.strip(), "eq": eq.strip()})
        elif "=" in s:
            d = t1_defs.unit_line(s)
            if len(d["fields"]) != 1 or d["mods"]:
                raise C11Error(f"redefinition with symbol/aliases/modifiers: {s!r}")
            redefs.append({"name": d["fields"][0], "rhs": s.split("=", 1)[1].strip()})
        else:
            raise C11Error(f"context line {s!r}")
    return {"name": names[0], "aliases": names[1:], "defaults": defaults, "rels": rels, "redefs": redefs}


def coq_rawctx(c):
    dfl = coq_list([f"({coq_str(k)}, {t1_defs.coq_toks(t1_defs.lex(v))})" for k, v in c["defaults"]])
    rels = coq_list([f"RawRel {coq_bool(r['bidir'])} {t1_defs.coq_toks(t1_defs.lex(r['src']))} "
                     f"{t1_defs.coq_toks(t1_defs.lex(r['dst']))} {t1_defs.coq_toks(t1_defs.lex(r['eq']))}"
                     for r in c["rels"]])
    red = coq_list([f"({coq_str(r['name'])}, {t1_defs.coq_toks(t1_defs.lex(r['rhs']))})" for r in c["redefs"]])
    return (f"(RawCtx {coq_str(c['name'])} {coq_list([coq_str(a) for a in c['aliases']])} "
            f"{dfl} {rels} {red})")


def ctx_lines(c):
    """the block as text lines (without @end), for Context.from_lines / definition files"""
    hdr = "@context"
    if c["defaults"]:
        hdr += "(" + ", ".join(f"{k}={v}" for k, v in c["defaults"]) + ")"
    hdr += " " + " = ".join([c["name"]] + c["aliases"])
    out = [hdr]
    for r in c["rels"]:
        out.append(f"    {r['src']} {'<->' if r['bidir'] else '->'} {r['dst']}: {r['eq']}")
    for r in c["redefs"]:
        out.append(f"    {r['name']} = {r['rhs']}")
    return out


# ===================================================================== values
def fz(d):
    return frozenset((k, F(v)) for k, v in d.items() if v != 0)


def ucd(container):
    return {k: F(v) for k, v in container.items()}


def coq_pval(v):
    """a keyword-argument value: Fraction, or ('q', magnitude, {unit: exponent})"""
    if isinstance(v, tuple):
        return f"(PPh (PH {coq_q(v[1])} {coq_uc(v[2])}) false)"
    return f"(number_param {coq_q(v)})"


def coq_outcome(o):
    return {"exact": lambda: f"(CExact {coq_q(o[1])})", "float": lambda: "CFloat", "dimerr": lambda: "CDimErr",
            "zerodiv": lambda: "CZeroDiv", "undef": lambda: "CUndefined", "keyerr": lambda: "CKeyErr",
            "valueerr": lambda: "CValueErr"}.get(o[0], lambda: "COther")()


def coq_frames(frames):
    out = []
    for fr in frames:
        refs = coq_list([f"CByName {coq_str(r[1])}" if r[0] in ("name", "alias") else f"CByObj {r[1]}" for r in fr["refs"]])
        kw = coq_list([f"({coq_str(k)}, {coq_pval(v)})" for k, v in sorted(fr["kw"].items())])
        out.append(f"(Frame {refs} {kw})")
    return coq_list(out)


def js(x):
    """JSON-able rendering for replay files"""
    if isinstance(x, F):
        return str(x)
    if isinstance(x, dict):
        return {str(k): js(v) for k, v in x.items()}
    if isinstance(x, (list, tuple)):
        return [js(v) for v in x]
    if isinstance(x, frozenset):
        return sorted(js(v) for v in x)
    return x


# ===================================================================== independent reference
class RQ:
    """reference quantity: magnitude (Fraction, or float once inexact) and unit exponents"""
    __slots__ = ("m", "u", "exact")

    def __init__(self, m, u, exact=True):
        self.m, self.u, self.exact = m, {k: v for k, v in u.items() if v != 0}, exact


def _mul(a, b, sign):
    u = dict(a.u)
    for k, v in b.u.items():
        u[k] = u.get(k, 0) + sign * v
    exact = a.exact and b.exact
    x, y = (a.m, b.m) if exact else (float(a.m), float(b.m))
    return RQ(x * y if sign > 0 else x / y, u, exact)


def _pow(a, e):
    if e.u or not e.exact:
        raise TypeError("exponent with units")
    ee = F(e.m)
    u = {k: v * ee for k, v in a.u.items()}
    if a.exact and ee.denominator == 1:
        return RQ(F(a.m) ** int(ee), u, True)
    return RQ(float(a.m) ** float(ee), u, False)


class EqParser:
    """recursive descent over T1 tokens:  e := t (('*'|'/') t)* ;  t := ['-'] f ['**' t] ;
    f := number | name | '(' e ')'   (the grammar of the monomial class and of the bundled equations)"""

    def __init__(self, toks, leaf):
        self.toks, self.i, self.leaf = toks, 0, leaf

    def peek(self):
        return self.toks[self.i] if self.i < len(self.toks) else ("end", "")

    def eat(self):
        t = self.peek()
        self.i += 1
        return t

    def expr(self):
        v = self.term()
        while self.peek() in (("op", "*"), ("op", "/")):
            op = self.eat()[1]
            w = self.term()
            v = _mul(v, w, 1 if op == "*" else -1)
        return v

    def term(self):
        if self.peek() == ("op", "-"):
            self.eat()
            v = self.term()
            return RQ(-v.m, v.u, v.exact)
        v = self.factor()
        if self.peek() == ("op", "**"):
            self.eat()
            v = _pow(v, self.term())
        return v

    def factor(self):
        k, t = self.eat()
        if k == "num":
            return RQ(F(t), {})
        if k == "name":
            return self.leaf(t)
        if (k, t) == ("op", "("):
            v = self.expr()
            if self.eat() != ("op", ")"):
                raise C11Error("unbalanced")
            return v
        raise C11Error(f"unexpected token {t!r}")


def eval_equation(eq, value, params, get_name):
    def leaf(name):
        if name == "value":
            return value
        if name in params:
            p = params[name]
            return RQ(p[1], dict(p[2])) if isinstance(p, tuple) else RQ(F(p), {})
        if name == "dimensionless":
            return RQ(F(1), {})
        return RQ(F(1), {get_name(name): F(1)})
    p = EqParser(t1_defs.lex(eq), leaf)
    v = p.expr()
    if p.peek()[0] != "end":
        raise C11Error(f"trailing tokens in {eq!r}")
    return v


def all_shortest_paths(edges, src, dst):
    """every shortest path src -> dst in the digraph given by a set of (a, b)"""
    if src == dst:
        return [[src]]
    adj = defaultdict(set)
    for a, b in edges:
        adj[a].add(b)
    dist, layer = {src: 0}, [src]
    parents = defaultdict(set)
    while layer and dst not in dist:
        nxt = []
        for v in layer:
            for w in adj[v]:
                if w not in dist:
                    dist[w] = dist[v] + 1
                    nxt.append(w)
                if dist[w] == dist[v] + 1:
                    parents[w].add(v)
        layer = nxt
    if dst not in dist:
        return []

    def back(v):
        if v == src:
            return [[src]]
        return [p + [v] for u in parents[v] for p in back(u)]
    return back(dst)


# ===================================================================== a world
_TMPDIRS = []


@atexit.register
def _cleanup_tmp():
    """scratch registries live outside /repo and /verif and never survive the run"""
    for d in _TMPDIRS:
        shutil.rmtree(d, ignore_errors=True)


class World:
    """a registry under test + a registry in which no context is ever enabled (reference) + contexts"""

    def __init__(self, wid, kind, text=None, unit_lines=None):
        import pint
        self.wid, self.kind, self.text = wid, kind, text
        self.unit_lines = unit_lines or {}        # name -> definition line (random worlds: for overlays)
        self.tmp = None
        self.specs = []                            # dict(registered, to_base, raw, obj)
        self.ureg = self._mkreg(text)
        self.plain_cache = {}
        self.names = {}                            # registered name/alias -> spec index (later wins)

    def _mkreg(self, text):
        import pint
        if text is None:
            return pint.UnitRegistry(non_int_type=F, cache_folder=None)
        if self.tmp is None:
            self.tmp = tempfile.mkdtemp(prefix="c11_")
            _TMPDIRS.append(self.tmp)
        p = os.path.join(self.tmp, f"w{len(os.listdir(self.tmp))}.txt")
        Path(p).write_text(text, encoding="utf-8")
        return pint.UnitRegistry(p, non_int_type=F, cache_folder=None)

    def close(self):
        if self.tmp:
            shutil.rmtree(self.tmp, ignore_errors=True)

    # ---- contexts
    def add_file_contexts(self, parsed_blocks):
        """contexts that came with the registry's definition file (already loaded by pint)"""
        for raw in parsed_blocks:
            self._add(raw, True, True, self.ureg._contexts[raw["name"]])

    def add_object_context(self, raw, registered):
        import pint
        obj = pint.Context.from_lines(ctx_lines(raw), non_int_type=F)
        if registered:
            self.ureg.add_context(obj)
        self._add(raw, registered, False, obj)

    def _add(self, raw, registered, to_base, obj):
        i = len(self.specs)
        self.specs.append({"registered": registered, "to_base": to_base, "raw": raw, "obj": obj})
        if registered:
            for n in [raw["name"]] + raw["aliases"]:
                self.names[n] = i

    # ---- reference side
    def plain(self, redefs=()):
        """a registry with the given redefinitions written into the definition text; nothing enabled"""
        key = tuple(redefs)
        if key not in self.plain_cache:
            if not redefs:
                self.plain_cache[key] = self._mkreg(self.text)
            else:
                if self.text is None:
                    raise C11Error("redefinitions on the default registry are not generated")
                lines = self.text.splitlines()
                for name, rhs in redefs:
                    old = self.unit_lines[name]
                    idx = lines.index(old)
                    tail = old.split("=")[2:]                     # symbol / aliases are kept
                    lines[idx] = " = ".join([name, rhs] + [t.strip() for t in tail])
                self.plain_cache[key] = self._mkreg("\n".join(lines) + "\n")
        return self.plain_cache[key]

    def norm_dim(self, text):
        pl = self.plain()
        ph = pl.get_dimensionality(pl.UnitsContainer(ucd(__import__("pint").util.ParserHelper.from_string(text, F))))
        return fz(ucd(ph))

    def declared(self, i):
        """(defaults, ordered rule dict as pint builds it, redefs) of context i, from its text"""
        s = self.specs[i]
        if "decl" in s:
            return s["decl"]
        raw = s["raw"]
        import pint
        rawkey = lambda t: fz(ucd(pint.util.ParserHelper.from_string(t, F)))
        key = self.norm_dim if s["to_base"] else rawkey
        funcs = {}
        for r in raw["rels"]:
            a, b = key(r["src"]), key(r["dst"])
            funcs[(a, b)] = r["eq"]
            if r["bidir"]:
                funcs[(b, a)] = r["eq"]
        if not s["to_base"]:         # first activation: endpoints are brought to base dimensionalities
            pl = self.plain()
            nd = lambda k: fz(ucd(pl.get_dimensionality(pl.UnitsContainer(dict(k)))))
            for (a, b), f in list(funcs.items()):
                a_, b_ = nd(a), nd(b)
                if (a, b) != (a_, b_):
                    del funcs[(a, b)]
                    funcs[(a_, b_)] = f
        dfl = {k: F(v) for k, v in raw["defaults"]}
        # a redefinition may designate the unit by canonical name, symbol or alias: the unit is what counts
        s["decl"] = (dfl, funcs, [(self.plain().get_name(r["name"]), r["rhs"]) for r in raw["redefs"]])
        return s["decl"]

    def resolve(self, ref):
        if ref[0] in ("name", "alias"):
            return self.names[ref[1]]          # KeyError when unknown
        return ref[1]

    def ref_chain(self, frames, inherit):
        """the active stack (newest first) as the STATEMENT describes it (inherit='innermost') or as
        pint codes it (inherit='as-coded').  Entries: (context index, resolved parameters)."""
        chain = []
        for fr in frames:
            idxs = [self.resolve(r) for r in fr["refs"]]
            if not chain:
                inh = {}
            elif inherit == "innermost":
                inh = chain[0][1]
            else:
                inh = {}
                for (i, env) in reversed(chain):                    # oldest context with rules ...
                    funcs = self.declared(i)[1]
                    if funcs:
                        first = next(iter(funcs))
                        for (j, env2) in chain:                     # ... newest owner of its first rule
                            if first in self.declared(j)[1]:
                                inh = env2
                                break
                        break
            kw = dict(inh)
            kw.update(fr["kw"])
            new = []
            for i in idxs:
                env = dict(self.declared(i)[0])
                env.update(kw)
                new.append((i, env))
            chain = list(reversed(new)) + chain
        return chain

    def reference(self, frames, x, src, dst, inherit="innermost"):
        """set of acceptable outcomes: one per shortest chain"""
        import pint
        try:
            chain = self.ref_chain(frames, inherit)
        except KeyError:
            return [("keyerr",)], 0
        if fz(src) == fz(dst):
            return [("exact", F(x))], 1
        redefs = []
        for (i, _) in reversed(chain):                               # oldest first, newest overrides
            for name, rhs in self.declared(i)[2]:
                redefs = [r for r in redefs if r[0] != name] + [(name, rhs)]
        pl = self.plain(tuple(sorted(redefs)))
        sd = fz(ucd(pl.get_dimensionality(pl.UnitsContainer(src))))
        dd = fz(ucd(pl.get_dimensionality(pl.UnitsContainer(dst))))
        edges = {}
        for (i, env) in reversed(chain):                             # newest context owns the edge
            for e, eq in self.declared(i)[1].items():
                edges[e] = (eq, env)
        paths = all_shortest_paths(set(edges), sd, dd) if edges else []
        outs = []
        for path in (paths or [None]):
            try:
                q = RQ(F(x), dict(src))
                if path:
                    for a, b in zip(path[:-1], path[1:]):
                        eq, env = edges[(a, b)]
                        q = eval_equation(eq, q, env, pl.get_name)
                r = pl.convert(q.m, pl.UnitsContainer(q.u), pl.UnitsContainer(dst))
                outs.append(("exact", F(r)) if isinstance(r, (int, F)) and q.exact else ("float", float(r)))
            except pint.DimensionalityError:
                outs.append(("dimerr",))
            except ZeroDivisionError:
                outs.append(("zerodiv",))
            except pint.UndefinedUnitError:
                outs.append(("undef",))
        return outs, len(paths)

    # ---- implementation side
    def _arg(self, ref):
        if ref[0] in ("name", "alias"):
            return ref[1]
        return self.specs[ref[1]]["obj"]

    def _kw(self, kw):
        return {k: (self.ureg.Quantity(v[1], self.ureg.UnitsContainer(v[2])) if isinstance(v, tuple) else v)
                for k, v in kw.items()}

    def run_impl(self, frames, forms, body, cleanup=True):
        """activate the frames (outermost first) with the given forms, call body(extra) inside;
        a last form 'percall' passes the last frame to body as (contexts, kwargs)."""
        ureg = self.ureg

        def go(i):
            if i == len(frames):
                return body(None)
            fr, form = frames[i], forms[i]
            args, kw = [self._arg(r) for r in fr["refs"]], self._kw(fr["kw"])
            if form == "percall":
                return body((args, kw))
            if form == "with":
                with ureg.context(*args, **kw):
                    return go(i + 1)
            if form == "deco":
                return ureg.with_context(args[0], **kw)(lambda: go(i + 1))()
            ureg.enable_contexts(*args, **kw)
            try:
                return go(i + 1)
            finally:
                ureg.disable_contexts(len(args))
        try:
            return go(0)
        finally:
            if cleanup and ureg._active_ctx.contexts:        # C12's subject; keep the scenarios independent
                ureg.disable_contexts()

    def outcome(self, fn):
        import pint
        try:
            m = fn()
        except pint.DimensionalityError:
            return ("dimerr",)
        except ZeroDivisionError:
            return ("zerodiv",)
        except pint.UndefinedUnitError:
            return ("undef",)
        except KeyError:
            return ("keyerr",)
        except ValueError:
            return ("valueerr",)
        except Exception as e:
            return ("other", type(e).__name__)
        if isinstance(m, (int, F)) and not isinstance(m, bool):
            return ("exact", F(m))
        return ("float", float(m))

    def raise_then_observe(self, frames, forms, kind, x, src, dst, bad, later):
        """The body run under the activations RAISES (kind 'dimerr': it converts `bad` = (source, target)
        that no rule links; kind 'value': an unrelated ValueError).  The exception leaves through every
        activation form; nothing is reset by hand.  Then, on the same registry: convert (x, src) -> dst
        with no context active, and inside a later `with ureg.context(later)`."""
        ureg = self.ureg

        def body(extra):
            a, kw = extra if extra else ((), {})
            if kind == "dimerr":
                ureg.Quantity(F(1), ureg.UnitsContainer(bad[0])).to(ureg.Unit(ureg.UnitsContainer(bad[1])), *a, **kw)
            raise ValueError("unrelated failure inside the body")

        def conv():
            return ureg.Quantity(x, ureg.UnitsContainer(src)).to(ureg.Unit(ureg.UnitsContainer(dst))).magnitude
        try:
            try:
                self.run_impl(frames, forms, body, cleanup=False)
                raised = "nothing"
            except Exception as e:
                raised = type(e).__name__
            after = self.outcome(conv)

            def later_conv():
                with ureg.context(*[self._arg(r) for r in later["refs"]], **self._kw(later["kw"])):
                    return conv()
            return {"raised": raised, "after": after, "later": self.outcome(later_conv)}
        finally:
            if ureg._active_ctx.contexts:
                ureg.disable_contexts()

    def convert(self, frames, forms, x, src, dst, api="to"):
        import pint
        ureg = self.ureg

        def body(extra):
            q = ureg.Quantity(x, ureg.UnitsContainer(src))
            tgt = ureg.Unit(ureg.UnitsContainer(dst))
            a, kw = extra if extra else ((), {})
            if api == "ito":
                q.ito(tgt, *a, **kw)
                return q.magnitude
            if api == "m_as" and not extra:
                return q.m_as(tgt)
            return q.to(tgt, *a, **kw).magnitude
        try:
            m = self.run_impl(frames, forms, body)
        except pint.DimensionalityError:
            return ("dimerr",)
        except ZeroDivisionError:
            return ("zerodiv",)
        except pint.UndefinedUnitError:
            return ("undef",)
        except KeyError:
            return ("keyerr",)
        except ValueError:
            return ("valueerr",)
        except Exception as e:                     # anything else is itself an observation
            return ("other", type(e).__name__)
        if isinstance(m, (int, F)) and not isinstance(m, bool):
            return ("exact", F(m))
        return ("float", float(m))

    def live(self, frames, forms, x, src, dst):
        """One live stack: convert (x, src) -> dst before anything is enabled, after EACH further
        activation, and again after each deactivation, never starting over.  Returns
        [(number of frames active, phase, outcome)], phase in down / percall / up / activate."""
        import pint
        ureg, obs = self.ureg, []

        def conv(extra=None):
            try:
                q = ureg.Quantity(x, ureg.UnitsContainer(src))
                a, kw = extra if extra else ((), {})
                m = q.to(ureg.Unit(ureg.UnitsContainer(dst)), *a, **kw).magnitude
            except pint.DimensionalityError:
                return ("dimerr",)
            except ZeroDivisionError:
                return ("zerodiv",)
            except pint.UndefinedUnitError:
                return ("undef",)
            except KeyError:
                return ("keyerr",)
            except ValueError:
                return ("valueerr",)
            except Exception as e:
                return ("other", type(e).__name__)
            if isinstance(m, (int, F)) and not isinstance(m, bool):
                return ("exact", F(m))
            return ("float", float(m))

        def go(i):
            obs.append((i, "down", conv()))
            if i == len(frames):
                return
            fr, form = frames[i], forms[i]
            try:
                args, kw = [self._arg(r) for r in fr["refs"]], self._kw(fr["kw"])
                if form == "percall":
                    obs.append((i + 1, "percall", conv((args, kw))))
                elif form == "with":
                    with ureg.context(*args, **kw):
                        go(i + 1)
                elif form == "deco":
                    ureg.with_context(args[0], **kw)(lambda: go(i + 1))()
                else:
                    ureg.enable_contexts(*args, **kw)
                    try:
                        go(i + 1)
                    finally:
                        ureg.disable_contexts(len(args))
            except KeyError:
                obs.append((i + 1, "activate", ("keyerr",)))
            obs.append((i, "up", conv()))
        try:
            go(0)
        finally:
            if ureg._active_ctx.contexts:
                ureg.disable_contexts()
        return obs

    def compatible(self, frames, forms, x, src, dst):
        """Quantity.is_compatible_with(target, *contexts, **kw) under the same activation"""
        ureg = self.ureg

        def body(extra):
            q = ureg.Quantity(x, ureg.UnitsContainer(src))
            a, kw = extra if extra else ((), {})
            return q.is_compatible_with(ureg.Unit(ureg.UnitsContainer(dst)), *a, **kw)
        try:
            return self.run_impl(frames, forms, body)
        except Exception as e:
            return ("raised", type(e).__name__)

    def observe(self, frames, forms, src_dim=None, dst_dim=None):
        """(parameters of every active context newest first, path found) — internal observables"""
        from pint.util import find_shortest_path
        ureg = self.ureg

        def body(_):
            ps = [dict(c.defaults) for c in ureg._active_ctx.contexts]
            path = None
            if src_dim is not None:
                path = find_shortest_path(ureg._active_ctx.graph, ureg.UnitsContainer(dict(src_dim)),
                                          ureg.UnitsContainer(dict(dst_dim)))
                path = None if path is None else [ucd(p) for p in path]
            return ps, path
        try:
            return self.run_impl(frames, forms, body)
        except KeyError:
            return None, None

    # ---- model side
    def coq_world(self):
        if self.text is None:
            reg = "default_reg"
        else:
            parsed = t1_defs.parse_file(Path(self._textfile()))
            reg = "(match load " + coq_list([t1_defs.coq_rawdef(d) for d in parsed["defs"]]) + \
                  " with Ok r => r | Err _ => empty_reg end)"
        specs = coq_list([f"CtxSpec {coq_bool(s['registered'])} {coq_bool(s['to_base'])} {coq_rawctx(s['raw'])}"
                          for s in self.specs])
        return f"Definition R : reg := {reg}.\nDefinition W : world := world_or_empty (mk_world R {specs}).\n"

    def _textfile(self):
        p = os.path.join(self.tmp, "t1.txt")
        Path(p).write_text(self.text, encoding="utf-8")
        return p


def same_outcome(a, b):
    if a[0] in ("exact", "float") and b[0] in ("exact", "float"):
        x, y = float(a[1]), float(b[1])
        if a[0] == b[0] == "exact":
            return a[1] == b[1]
        return abs(x - y) <= RTOL * max(abs(x), abs(y), 1e-300)
    return a[0] == b[0]


# ===================================================================== generators
FORMS = ["with", "enable", "deco"]


def pick_forms(rng, frames, allow_percall=True):
    forms = []
    for i, fr in enumerate(frames):
        opts = ["with", "enable"]
        if len(fr["refs"]) == 1 and fr["refs"][0][0] in ("name", "alias"):
            opts.append("deco")
        if allow_percall and i == len(frames) - 1:
            opts += ["percall", "percall"]
        forms.append(rng.choice(opts))
    return forms


def gen_world_text(rng, wid):
    """a small registry: 3-6 base dimensions, derived units, a prefix, derived dimensions"""
    k = rng.randint(3, 6)
    letters = "abcdef"[:k]
    lines, unit_lines, units_of, spell = ["kilo- = 1000 = k-"], {}, {}, {}
    for c in letters:
        lines.append(f"u{c} = [d{c}]")
        units_of[c] = [f"u{c}"]
        for j in range(1, rng.randint(1, 3) + 1):
            name = f"u{c}{j}"
            scale = rng.choice(["3", "7/2", "2.5", "12", "1/8", "0.3", "250"])
            ref = rng.choice(units_of[c])
            tail = rng.choice(["", f" = s{c}{j}", f" = s{c}{j} = al_{c}{j}", f" = s{c}{j} = al_{c}{j}", f" = _ = al_{c}{j}"])
            spell[name] = [name] + ([f"s{c}{j}"] if f" s{c}{j}" in tail else []) + ([f"al_{c}{j}"] if "al_" in tail else [])
            line = f"{name} = {scale} * {ref}{tail}"
            lines.append(line)
            unit_lines[name] = line
            units_of[c].append(name)
    ddims = {}
    for _ in range(rng.randint(0, 2)):
        a, b = rng.sample(letters, 2)
        nm = f"[d{a}{b}]"
        if nm not in ddims:
            ddims[nm] = (a, b)
            lines.append(f"{nm} = [d{b}] / [d{a}]")
    gen_world_text.spell = spell
    return letters, lines, unit_lines, units_of, ddims


def node_pool(rng, letters, ddims):
    """nodes of the rule graphs: (text as written in a relation, exponents over base letters)"""
    nodes = [(f"[d{c}]", {c: 1}) for c in letters]
    for nm, (a, b) in ddims.items():
        nodes.append((nm, {b: 1, a: -1}))
    for _ in range(rng.randint(0, 2)):
        a, b = rng.sample(letters, 2)
        nodes.append(rng.choice([(f"[d{a}] * [d{b}]", {a: 1, b: 1}), (f"[d{a}] / [d{b}]", {a: 1, b: -1}),
                                 (f"1 / [d{a}]", {a: -1})]))
    return nodes


def unit_expr(exps):
    """a product of base units with the given dimension exponents, as equation factors"""
    fs = []
    for c, e in sorted(exps.items()):
        for _ in range(abs(e)):
            fs.append(("*" if e > 0 else "/", f"u{c}"))
    return fs


def gen_equation(rng, src, dst, params):
    """c * value^{+-1} * prod param^k, dimensionally right except in 6% of the rules.
    A decimal coefficient comes first so that every division has an exact (Fraction) left operand."""
    coef = rng.choice(["1.0", "2.0", "0.5", "1.5", "3.0", "0.25", "7.0", "2.5e-1"])
    inv = rng.random() < 0.3
    need = dict(dst[1])
    for c, e in src[1].items():
        need[c] = need.get(c, 0) + (e if inv else -e)
    if rng.random() < 0.06:
        c = rng.choice(list(need) or ["a"])
        need[c] = need.get(c, 0) + 1
    fs = [("/" if inv else "*", "value")] + unit_expr({c: e for c, e in need.items() if e})
    used = []
    for p in rng.sample(params, rng.randint(0, min(2, len(params)))):
        e = rng.choice([1, 1, -1, 2, -2])
        fs.append(("*" if e > 0 else "/", p if abs(e) == 1 else f"{p} ** {abs(e)}"))
        used.append(p)
    rng.shuffle(fs)
    return coef + "".join(f" {op} {t}" for op, t in fs), used


def gen_world(rng, wid):
    letters, lines, unit_lines, units_of, ddims = gen_world_text(rng, wid)
    nodes = node_pool(rng, letters, ddims)
    edge_pool = [tuple(rng.sample(range(len(nodes)), 2)) for _ in range(rng.randint(4, 9))]
    params = ["n", "m", "kp"]
    spell = gen_world_text.spell
    hot = rng.sample(sorted(unit_lines), min(2, len(unit_lines)))
    raws = []
    for ci in range(rng.randint(3, 5)):
        rels, used = [], set()
        for _ in range(rng.randint(0 if ci == 0 and rng.random() < 0.3 else 1, 4)):
            a, b = rng.choice(edge_pool) if rng.random() < 0.8 else tuple(rng.sample(range(len(nodes)), 2))
            bidir = rng.random() < 0.25
            eq, us = gen_equation(rng, nodes[a], nodes[b], params)
            if bidir:      # one equation both ways: only meaningful for value**-1 forms; keep whatever comes
                pass
            rels.append({"bidir": bidir, "src": nodes[a][0], "dst": nodes[b][0], "eq": eq})
            used.update(us)
        dfl = [(p, rng.choice(["1", "2", "3", "0.5", "4", "0"] if rng.random() < 0.08 else ["1", "2", "3", "0.5", "4"]))
               for p in sorted(used)]
        redefs = []
        for _ in range(rng.choice([0, 0, 1, 1, 1, 2]) if unit_lines else 0):
            # mostly one of the world's two "hot" units, so that active contexts collide on a unit;
            # the unit is designated by its canonical name, its symbol or an alias
            name = rng.choice(hot) if rng.random() < 0.75 else rng.choice(sorted(unit_lines))
            c = name[1]
            # only units created before `name`: every definition (original or redefined) points to an
            # earlier unit, so no combination of active redefinitions can close a cycle
            refs = units_of[c][:units_of[c].index(name)]
            ref = rng.choice(refs)
            redefs.append({"name": rng.choice(spell[name]),
                           "rhs": f"{rng.choice(['5', '9/4', '0.2', '40', '7', '11'])} * {rng.choice(spell.get(ref, [ref]))}"})
        raws.append({"name": f"rc{ci}", "aliases": rng.choice([[], [f"r{ci}"], [f"r{ci}", f"rr{ci}"]]),
                     "defaults": dfl, "rels": rels, "redefs": redefs})
    # a diamond A->B->D, A->C->D spread over the contexts: two shortest chains with different values
    if len(nodes) >= 4 and rng.random() < 0.7:
        a, b, c, d = rng.sample(range(len(nodes)), 4)
        for (x, y) in [(a, b), (a, c), (b, d), (c, d)]:
            tgt = rng.choice(raws)
            eq, us = gen_equation(rng, nodes[x], nodes[y], [p for p, _ in tgt["defaults"]])
            tgt["rels"].append({"bidir": False, "src": nodes[x][0], "dst": nodes[y][0], "eq": eq})
    # where each context lives: in the definition file, registered object, or unregistered object
    place = [rng.choice(["file", "file", "reg-obj", "obj"]) for _ in raws]
    text_lines = list(lines)
    for raw, pl in zip(raws, place):
        if pl == "file":
            text_lines += ctx_lines(raw) + ["@end"]
    text = "\n".join(text_lines) + "\n"
    w = World(wid, "random", text, unit_lines)
    w.add_file_contexts([r for r, pl in zip(raws, place) if pl == "file"])
    for raw, pl in zip(raws, place):
        if pl != "file":
            w.add_object_context(raw, pl == "reg-obj")
    w.letters, w.units_of, w.params = letters, units_of, params
    w.nodes = nodes
    return w


def rnd_ref(rng, w, i):
    s = w.specs[i]
    opts = [("obj", i)]
    if s["registered"] and w.names.get(s["raw"]["name"]) == i:
        opts += [("name", s["raw"]["name"])] * 2
        opts += [("alias", a) for a in s["raw"]["aliases"] if w.names.get(a) == i]
    return rng.choice(opts)


def rnd_kw(rng, w, p_some=0.5):
    kw = {}
    for p in w.params:
        if rng.random() < p_some * 0.6:
            kw[p] = rng.choice([F(2), F(3), F(1, 2), F(5), F(10), F(7, 3)])
    return kw


def rnd_unit(rng, w, exps):
    """a unit container whose dimension exponents over the base letters are `exps`"""
    d = {}
    for c, e in exps.items():
        u = rng.choice(w.units_of[c] + ["kilo" + rng.choice(w.units_of[c])] * (rng.random() < 0.15))
        d[u] = d.get(u, 0) + F(e)
    return {k: v for k, v in d.items() if v != 0}


# ===================================================================== the check
def run(ck):
    import pint
    rng = random.Random(ck.seed)
    thorough = ck.tier == "thorough"
    ck.rule = ("bundled contexts (spectroscopy, boltzmann, energy, chemistry, textile, Gaussian, ESU) on the default "
               "registry x unit pairs of the linked dimensionalities (sampled / exhaustive), same-dimension and unlinked pairs, "
               "stacks of bundled contexts and an overriding object context; random worlds (generated registry over 3-6 base "
               "dimensions with derived units, a prefix, derived dimensions; 3-5 contexts with overlapping monomial rules "
               "c*value^{+-1}*prod param^k, defaults, redefinitions; contexts in the definition file / registered objects / "
               "unregistered objects) x stacks 1-4 deep x activation forms (enable_contexts, with, with_context decorator, "
               "per-call to/ito) x references by name / alias / object; find_shortest_path on random integer digraphs. "
               "non-trivial = distinct (world, frames, forms, source, target) with at least one context active")
    ck.assumptions += [
        "multiplicative units only (offset / logarithmic units under contexts: C06)",
        "magnitudes and keyword arguments are Fractions (an int/int division inside an equation is a Python float; not generated)",
        "Gaussian / ESU equations contain ** 0.5: compared as floats with rtol 1e-12 against an independent float computation; the Coq model classifies them as inexact",
        "the iteration order of Python sets is not modelled: any shortest chain is accepted (model enumerates all of them)",
        "context activation state (stack discipline, caches, failed activations) is C12's subject; every scenario here starts from an empty stack",
    ]
    ck.trusted += ["harness/c11.py reference evaluator (own equation parser, own BFS, plain pint conversions with no context enabled)"]
    import time
    phases, t_ph = {}, time.time()
    built = ck.coq_build(["Properties/C11.vo", "Model/ContextRun.vo", "Gen/DefaultReg.vo"])
    phases["coq build + Print Assumptions"] = round(time.time() - t_ph, 1)
    t_ph = time.time()

    fails = []                      # (key, desc, replay)
    groups = []                     # (world, q_oldest, [(coq term, desc)])
    stats = defaultdict(int)

    def oracle_fail(key, desc, rp):
        fails.append((key, desc, rp))

    # ---------------------------------------------------------------- F5 switch: replay the witness
    w5 = World("f5", "witness", "ua = [da]\nub = [db]\nuc = [dc]\n")
    w5.add_object_context({"name": "c1", "aliases": [], "defaults": [("n", "1")], "redefs": [],
                           "rels": [{"bidir": False, "src": "[da]", "dst": "[db]", "eq": "1.0 * value * ub / ua * n"}]}, True)
    w5.add_object_context({"name": "c2", "aliases": [], "defaults": [("n", "2")], "redefs": [],
                           "rels": [{"bidir": False, "src": "[db]", "dst": "[dc]", "eq": "1.0 * value * uc / ub * n"}]}, True)
    w5.add_object_context({"name": "c3", "aliases": [], "defaults": [("n", "3")], "redefs": [],
                           "rels": [{"bidir": False, "src": "[da]", "dst": "[dc]", "eq": "1.0 * value * uc / ua * n"}]}, True)
    f5_frames = [{"refs": [("name", "c1")], "kw": {"n": F(10)}}, {"refs": [("name", "c2")], "kw": {"n": F(20)}},
                 {"refs": [("name", "c3")], "kw": {}}]
    got = w5.convert(f5_frames, ["with", "with", "with"], F(1), {"ua": F(1)}, {"uc": F(1)})
    rp5 = {"world": w5.text, "contexts": [ctx_lines(s["raw"]) for s in w5.specs], "frames": js(f5_frames),
           "convert": ["1", {"ua": "1"}, {"uc": "1"}], "expected": "20 (innermost enclosing context c2)", "observed": js(got)}
    if got == ("exact", F(10)):
        q_oldest = True
        ck.violation(F5_KEY, "third nested context without kwargs takes n from the outermost context (10), not from the "
                     "innermost enclosing one (20)", rp5)
    elif got == ("exact", F(20)):
        q_oldest = False
    else:
        q_oldest = True
        oracle_fail("param-inherit:witness-neither", f"F5 witness gives {got}, neither 10 (as coded) nor 20 (statement)", rp5)
    if os.environ.get("C11_FORCE_Q"):          # self-test of the differ: run the model with the wrong switch
        q_oldest = os.environ["C11_FORCE_Q"] == "1"
    ck.extra["defect_switch_q_oldest"] = q_oldest
    w5.close()

    # ---------------------------------------------------------------- scenario runner
    def scenario(w, cases, frames, forms, x, src, dst, tag, api="to", observe=False, compat=False, impl=None, live=None):
        """run one conversion on the implementation (or take the one observed on a live stack),
        decide the oracles, emit the Coq case"""
        if impl is None:
            impl = w.convert(frames, forms, x, src, dst, api)
        refs, npaths = w.reference(frames, x, src, dst, "innermost")
        rp = {"world": w.kind if w.text is None else w.text,
              "contexts": [{"registered": s["registered"], "from_file": s["to_base"], "lines": ctx_lines(s["raw"])} for s in w.specs],
              "frames": js(frames), "forms": forms, "api": api, "convert": [str(x), js(src), js(dst)],
              "expected_one_of": js(refs), "observed": js(impl)}
        if live is not None:
            rp["live"] = live
        ok = any(same_outcome(impl, r) for r in refs)
        if not ok:
            # the F5 reading is only consulted while the F5 witness itself still reproduces
            coded = w.reference(frames, x, src, dst, "as-coded")[0] if q_oldest else []
            if any(same_outcome(impl, r) for r in coded):
                ck.violation(F5_KEY, "a context enabled without a value for a parameter inherits it from the context owning "
                             "the first rule of the OLDEST active context, not from the innermost enclosing one", rp)
                stats["F5 scenarios"] += 1
            else:
                ctxs = "+".join("/".join(w.specs[w.resolve(r)]["raw"]["name"] if r[1] in w.names or r[0] == "obj" else "?" for r in fr["refs"]) for fr in frames)
                if npaths == 0 and refs == [("dimerr",)]:
                    key = f"unreachable-not-refused:{tag}:{ctxs}"
                elif refs and len(refs) == 1 and fz(ucd(w.plain().get_dimensionality(w.plain().UnitsContainer(src)))) == \
                        fz(ucd(w.plain().get_dimensionality(w.plain().UnitsContainer(dst)))) and not any(w.declared(i)[2] for i in range(len(w.specs))):
                    key = f"same-dim-changed:{tag}:{ctxs}"
                else:
                    key = f"along-shortest:{tag}:{ctxs}"
                oracle_fail(key, f"{impl} is not the composition of the declared equations along any shortest chain "
                            f"(expected one of {refs[:4]})", rp)
        if compat:
            got = w.compatible(frames, forms, x, src, dst)
            # must agree with the conversion under the very same activation (whatever F5 does to it)
            want = True if impl[0] in ("exact", "float") else False if impl == ("dimerr",) else None
            if want is not None and got is not want:
                oracle_fail(f"is-compatible-with:{tag}:{want}", f"is_compatible_with under the contexts answers {got}; the conversion "
                            f"{'succeeds' if want else 'is refused (DimensionalityError)'}", dict(rp, observed_is_compatible_with=js(got)))
            stats["is_compatible_with checks"] += 1
        distinct = []
        for r in refs:
            if not any(same_outcome(r, d) for d in distinct):
                distinct.append(r)
        if npaths > 1:
            stats["several shortest chains"] += 1
            if len(distinct) > 1:
                stats["several shortest chains with different values"] += 1
        stats["outcome:" + impl[0]] += 1
        stats["depth:%d" % len(frames)] += 1
        for f in forms:
            stats["form:" + f] += 1
        for fr in frames:
            for r in fr["refs"]:
                stats["ref:" + r[0]] += 1
        term = f"KConv {coq_frames(frames)} {coq_q(x)} {coq_uc(src)} {coq_uc(dst)} {coq_outcome(impl)}"
        cases.append((term, rp))
        ck.case(key=(w.wid, json.dumps(js(frames), sort_keys=True), tuple(forms), api, str(x), str(sorted(src.items())), str(sorted(dst.items())),
                     None if live is None else live["step"]),
                nontrivial=bool(frames), sample={"contexts": [[r[1] for r in fr["refs"]] for fr in frames], "forms": forms,
                                                 "convert": [str(x), js(src), js(dst)], "observed": js(impl)})
        if observe and "percall" not in forms:
            pl = w.plain()
            try:
                sdim = fz(ucd(pl.get_dimensionality(pl.UnitsContainer(src))))
                ddim = fz(ucd(pl.get_dimensionality(pl.UnitsContainer(dst))))
            except Exception:
                return impl
            ps, path = w.observe(frames, forms, sdim, ddim)
            if ps is not None:
                obs = coq_list([coq_list([f"({coq_str(k)}, {coq_pval(_pv(v))})" for k, v in sorted(d.items())]) for d in ps])
                cases.append((f"KParams {coq_frames(frames)} (Some {obs})", dict(rp, observe="parameters", observed=js([{k: str(v) for k, v in d.items()} for d in ps]))))
                pterm = coq_opt(None if path is None else coq_list([coq_uc(p) for p in path]))
                cases.append((f"KPath {coq_frames(frames)} {coq_uc(dict(sdim))} {coq_uc(dict(ddim))} {pterm}",
                              dict(rp, observe="path", observed=js(path))))
                # oracle on the path itself: a path of declared rules of minimal length
                chain = w.ref_chain(frames, "innermost")
                edges = set()
                for (i, _) in chain:
                    edges |= set(w.declared(i)[1])
                allp = all_shortest_paths(edges, sdim, ddim)
                good = (path is None and not allp) or (path is not None and [fz(p) for p in path] in allp)
                if not good:
                    oracle_fail(f"path-not-shortest:{tag}", f"find_shortest_path returned {path}; shortest chains: {len(allp)}", rp)
                stats["path observations"] += 1
            else:
                cases.append((f"KParams {coq_frames(frames)} None", dict(rp, observe="parameters", observed="KeyError")))
        return impl

    def scenario_live(w, cases, frames, forms, x, src, dst, tag):
        """the same pair converted on ONE live stack before and after every activation and every
        deactivation; each answer is judged against the chain active at that moment"""
        obs = w.live(frames, forms, x, src, dst)
        hist = [[n, ph, js(o)] for n, ph, o in obs]
        for k, (n, phase, out) in enumerate(obs):
            if phase == "activate":
                continue
            fs = frames[:n]
            fm = list(forms[:n])
            scenario(w, cases, fs, fm, x, src, dst, tag + "-live", impl=out,
                     live={"frames": js(frames), "forms": list(forms), "step": k, "phase": phase, "active_frames": n, "history": hist})
            stats["live conversions"] += 1
        stats["live stacks"] += 1

    def scenario_raise(w, cases, frames, forms, kind, x, src, dst, bad, later, tag):
        """a body that raises under the activations; afterwards the registry must answer as if nothing
        had ever been enabled, and a later activation must get its DECLARED defaults"""
        forms = [f if f != "percall" or kind == "dimerr" else "with" for f in forms]
        out = w.raise_then_observe(frames, forms, kind, x, src, dst, bad, later)
        info = {"kind": "after-raise", "frames": js(frames), "forms": list(forms), "body": kind, "bad": js(bad),
                "later": js(later), "raised": out["raised"]}
        want = "DimensionalityError" if kind == "dimerr" else "ValueError"
        if out["raised"] != want:
            oracle_fail(f"raise-propagates:{tag}:{kind}", f"the body's {want} left the activations as {out['raised']}",
                        {"world": w.kind if w.text is None else w.text, "live": info})
        scenario(w, cases, [], [], x, src, dst, tag + "-after-raise", impl=out["after"], live=dict(info, step="after"))
        scenario(w, cases, [later], ["with"], x, src, dst, tag + "-after-raise", impl=out["later"], live=dict(info, step="later"))
        stats["raising bodies"] += 1
        stats["raising bodies:" + kind] += 1
        for f in forms:
            stats["raising form:" + f] += 1

    def _pv(v):
        if hasattr(v, "magnitude"):
            return ("q", F(v.magnitude), ucd(v._units))
        return F(v)

    # ---------------------------------------------------------------- (A) bundled contexts, default registry
    parsed = t1_defs.parse_file(REPO / "pint" / "default_en.txt")
    blocks = {}
    for b in parsed["contexts"]:
        raw = parse_ctx_block(b["header"], b["lines"])
        blocks[raw["name"]] = raw
    missing = [n for n in BUNDLED if n not in blocks]
    if missing:
        ck.broken.append(f"translator: bundled contexts not found in default_en.txt: {missing}")
    wd = World("default", "default")
    wd.add_file_contexts([blocks[n] for n in blocks])
    # an object context colliding with spectroscopy and adding a shortcut [energy] -> [length]
    wd.add_object_context({"name": "ovr", "aliases": ["ov"], "defaults": [("n", "2")], "redefs": [],
                           "rels": [{"bidir": False, "src": "[length]", "dst": "[frequency]", "eq": "2.0 * speed_of_light / n / value"},
                                    {"bidir": False, "src": "[energy]", "dst": "[length]", "eq": "1.0 * planck_constant * speed_of_light / value"},
                                    {"bidir": False, "src": "[length]", "dst": "[energy]", "eq": "3.0 * planck_constant * speed_of_light / value / n"}]}, True)
    wd.params = ["n"]
    pl = wd.plain()
    from . import regk
    canon = regk.canonical_names(pl)
    mult = [n for n in canon if pl._units[n].is_multiplicative]
    by_dim = defaultdict(list)
    for n in mult:
        by_dim[fz(ucd(pl.get_dimensionality(pl.UnitsContainer({n: 1}))))].append(n)
    cases_d = []
    chem_kw = {"mw": ("q", F(18), {"gram": F(1), "mole": F(-1)}), "volume": ("q", F(2), {"liter": F(1)}),
               "solvent_mass": ("q", F(3, 2), {"kilogram": F(1)})}
    kw_for = {"spectroscopy": [{}, {"n": F(3, 2)}], "chemistry": [chem_kw, {}, {"mw": chem_kw["mw"]}]}

    def units_for(dim, k):
        """k unit containers of dimensionality `dim`: canonical units where they exist, else a product"""
        names = by_dim.get(dim, [])
        if names:
            return [{n: F(1)} for n in (names if k is None or len(names) <= k else rng.sample(names, k))]
        out = []
        for _ in range(2 if k is None else min(k, 2)):
            d = {}
            for b, e in dim:
                cand = by_dim.get(fz({b: 1}), [])
                if not cand:
                    return []
                u = rng.choice(cand)
                d[u] = d.get(u, 0) + e
            out.append({k_: v for k_, v in d.items() if v != 0})
        return out

    xs = [F(1), F(500), F(3, 2), F(7, 1000), F(12345, 7)]
    for name in [n for n in BUNDLED if n in blocks]:
        i = wd.names[name]
        funcs = wd.declared(i)[1]
        dims = sorted({d for e in funcs for d in e}, key=lambda d: sorted(d))
        comp = defaultdict(set)                              # linked pairs = reachability in the rule graph
        for a in dims:
            for b in dims:
                if a != b and all_shortest_paths(set(funcs), a, b):
                    comp[a].add(b)
        linked = [(a, b) for a in dims for b in sorted(comp[a], key=lambda d: sorted(d))]
        pairs = []
        for a, b in linked:
            for ua in units_for(a, None if thorough else 3):
                for ub in units_for(b, None if thorough else 3):
                    pairs.append((ua, ub))
        if not thorough and len(pairs) > 70:
            pairs = rng.sample(pairs, 70)
        if thorough and len(pairs) > 4000:
            pairs = rng.sample(pairs, 4000)
        ref_opts = [("name", name)] + [("alias", a) for a in blocks[name]["aliases"]] + [("obj", i)]
        for ua, ub in pairs:
            fr = [{"refs": [rng.choice(ref_opts)], "kw": rng.choice(kw_for.get(name, [{}]))}]
            scenario(wd, cases_d, fr, pick_forms(rng, fr), rng.choice(xs), ua, ub, "bundled:" + name,
                     api=rng.choice(["to", "to", "ito", "m_as"]), observe=rng.random() < 0.15, compat=rng.random() < 0.2)
            stats["bundled:" + name] += 1
        # same-dimension and unlinked pairs while the context is active
        for _ in range(40 if thorough else 8):
            a = rng.choice(dims)
            us = units_for(a, 2)
            if len(us) >= 1:
                fr = [{"refs": [rng.choice(ref_opts)], "kw": {}}]
                u1, u2 = rng.choice(us), rng.choice(units_for(a, None) or us)
                scenario(wd, cases_d, fr, pick_forms(rng, fr), rng.choice(xs), u1, u2, "same-dim:" + name)
                stats["same-dimension"] += 1
            other = rng.choice(list(by_dim))
            if other not in dims and us:
                fr = [{"refs": [rng.choice(ref_opts)], "kw": {}}]
                scenario(wd, cases_d, fr, pick_forms(rng, fr), F(1), rng.choice(us), {rng.choice(by_dim[other]): F(1)}, "unlinked:" + name)
                stats["unlinked"] += 1
    # stacks of bundled contexts (+ the overriding object), up to four deep
    stack_names = [n for n in BUNDLED if n in blocks] + ["ovr"]
    probe_dims = [fz({"[length]": 1}), fz({"[time]": -1}), fz({"[length]": 2, "[mass]": 1, "[time]": -2}), fz({"[length]": -1}),
                  fz({"[temperature]": 1}), fz({"[mass]": 1}), fz({"[substance]": 1})]
    for _ in range(1500 if thorough else 120):
        depth = rng.randint(2, 4)
        frames = []
        for _ in range(depth):
            ns = rng.sample(stack_names, rng.choice([1, 1, 2]))
            refs = [rnd_ref(rng, wd, wd.names[n]) for n in ns]
            kw = {}
            if rng.random() < 0.5:
                kw["n"] = rng.choice([F(2), F(3), F(5, 4)])
            if "chemistry" in ns and rng.random() < 0.7:
                kw.update(chem_kw)
            frames.append({"refs": refs, "kw": kw})
        a, b = rng.sample(probe_dims, 2)
        ua, ub = units_for(a, 1), units_for(b, 1)
        if ua and ub:
            scenario(wd, cases_d, frames, pick_forms(rng, frames), rng.choice(xs), ua[0], ub[0], "bundled-stack",
                     observe=rng.random() < 0.3)
            stats["bundled stacks"] += 1
            if rng.random() < 0.25:
                scenario_live(wd, cases_d, frames, pick_forms(rng, frames), rng.choice(xs), ua[0], ub[0], "bundled-stack")
    # live stacks where a later activation SHORTENS the chain: spectroscopy links [energy] -> [frequency] -> [length],
    # the object context ovr adds a direct [energy] -> [length] rule with another coefficient (and vice versa)
    for first, second in [("spectroscopy", "ovr"), ("ovr", "spectroscopy"), ("sp", "ov")]:
        for s_u, d_u in [({"electron_volt": F(1)}, {"nanometer": F(1)}), ({"nanometer": F(1)}, {"joule": F(1)}),
                         ({"micrometer": F(1)}, {"terahertz": F(1)})]:
            fr2 = [{"refs": [("name", first)], "kw": {}}, {"refs": [("name", second)], "kw": {}}]
            for forms in (["with", "with"], ["enable", "enable"], ["with", "percall"], ["enable", "deco"], ["deco", "with"]):
                scenario_live(wd, cases_d, fr2, forms, F(3, 2), s_u, d_u, "bundled-shortcut")
    # bodies that raise under every activation form; afterwards nothing may be left active, and a later
    # `with ureg.context('sp')` must see the declared n = 1, not the n of the finished call
    nm, thz, amp = {"nanometer": F(1)}, {"terahertz": F(1)}, {"ampere": F(1)}
    for stack in ([{"refs": [("name", "sp")], "kw": {"n": F(2)}}],
                  [{"refs": [("name", "boltzmann")], "kw": {}}, {"refs": [("alias", "sp")], "kw": {"n": F(3)}}],
                  [{"refs": [("name", "spectroscopy")], "kw": {"n": F(5, 4)}}, {"refs": [("name", "energy")], "kw": {}}]):
        k_ = len(stack)
        for forms in (["with"] * k_, ["enable"] * k_, ["deco"] * k_, ["with"] * (k_ - 1) + ["percall"],
                      ["deco"] + ["with"] * (k_ - 1), ["enable"] * (k_ - 1) + ["deco"]):
            for kind in ("dimerr", "value"):
                scenario_raise(wd, cases_d, stack, forms, kind, F(500), nm, thz, (nm, amp),
                               {"refs": [("name", "sp")], "kw": {}}, "bundled")
    groups.append((wd, cases_d))

    # ---------------------------------------------------------------- (B) a directed world: collisions, precedence, redefinitions
    dtext = ("kilo- = 1000 = k-\nua = [da]\nub = [db]\nuc = [dc]\nud = [dd]\n"
             "ua1 = 3 * ua = sa1\nua2 = 4 * ua1\nub1 = 5/2 * ub\nuc1 = 7 * uc\n[dab] = [db] / [da]\n")
    dunits = {"ua1": "ua1 = 3 * ua = sa1", "ua2": "ua2 = 4 * ua1", "ub1": "ub1 = 5/2 * ub", "uc1": "uc1 = 7 * uc"}
    dctx = [
        {"name": "A", "aliases": ["a1"], "defaults": [("n", "1")], "redefs": [],
         "rels": [{"bidir": False, "src": "[da]", "dst": "[db]", "eq": "2.0 * value * ub / ua * n"},
                  {"bidir": False, "src": "[db]", "dst": "[dc]", "eq": "3.0 * value * uc / ub"},
                  {"bidir": False, "src": "[dc]", "dst": "[dd]", "eq": "5.0 * value * ud / uc / n"}]},
        {"name": "B", "aliases": [], "defaults": [("n", "2")], "redefs": [],
         "rels": [{"bidir": False, "src": "[da]", "dst": "[db]", "eq": "7.0 * value * ub / ua * n"},       # collides with A
                  {"bidir": False, "src": "[da]", "dst": "[dc]", "eq": "11.0 * value * uc / ua * n ** 2"}]},   # shortcut
        {"name": "C", "aliases": ["cc"], "defaults": [("n", "3"), ("m", "4")], "redefs": [{"name": "ua1", "rhs": "10 * ua"}],
         "rels": [{"bidir": True, "src": "[dab]", "dst": "[dd]", "eq": "1.0 * ud * ub / ua / value / m"},
                  {"bidir": False, "src": "[da]", "dst": "[dd]", "eq": "13.0 * value * ud / ua * n"}]},
        {"name": "R", "aliases": [], "defaults": [], "redefs": [{"name": "ub1", "rhs": "9 * ub"}, {"name": "ua1", "rhs": "2 * ua"}], "rels": []},
        # the same unit ua1 designated by its symbol; and twice in one context (the last line counts)
        {"name": "S", "aliases": [], "defaults": [], "redefs": [{"name": "sa1", "rhs": "6 * ua"}], "rels": []},
        {"name": "T", "aliases": [], "defaults": [], "redefs": [{"name": "ua1", "rhs": "7 * ua"}, {"name": "sa1", "rhs": "8 * ua"}], "rels": []},
    ]
    text_b = dtext + "\n".join(sum([ctx_lines(c) + ["@end"] for c in dctx[:2]], [])) + "\n"
    wb = World("directed", "directed", text_b, dunits)
    wb.add_file_contexts(dctx[:2])
    wb.add_object_context(dctx[2], True)
    wb.add_object_context(dctx[3], True)
    wb.add_object_context(dctx[4], True)
    wb.add_object_context(dctx[5], False)
    wb.params, wb.units_of, wb.letters = ["n", "m"], {"a": ["ua", "ua1", "ua2"], "b": ["ub", "ub1"], "c": ["uc", "uc1"], "d": ["ud"]}, "abcd"
    cases_b = []
    U = lambda **kw: {k: F(v) for k, v in kw.items()}
    N = lambda s, **kw: {"refs": [("name", n) for n in s.split(",")], "kw": {k: F(v) for k, v in kw.items()}}
    directed = [
        ([N("A")], U(ua=1), U(ub=1)), ([N("B")], U(ua=1), U(ub=1)),
        ([N("A"), N("B")], U(ua=1), U(ub=1)), ([N("B"), N("A")], U(ua=1), U(ub=1)),        # newest wins
        ([N("A,B")], U(ua=1), U(ub=1)), ([N("B,A")], U(ua=1), U(ub=1)),                    # last listed wins
        ([N("A")], U(ua=1), U(ud=1)), ([N("A"), N("B")], U(ua=1), U(ud=1)),                # 3 rules vs shortcut + 1
        ([N("A"), N("B"), N("C")], U(ua=1), U(ud=1)),                                      # direct rule of C
        ([N("A", n=10)], U(ua=1), U(ub=1)), ([N("A", n=10), N("B")], U(ua=1), U(ub=1)),    # enclosing > defaults
        ([N("A", n=10), N("B", n=20)], U(ua=1), U(ub=1)),                                  # kwargs > enclosing
        ([N("A"), N("B")], U(ua=1), U(uc=1)), ([N("A", n=5), N("B")], U(ua2=1), U(uc1=1)),
        ([N("A", n=10), N("B", n=20), N("C")], U(ua=1), U(ud=1)),                          # F5 shape
        ([N("A", n=10), N("B", n=20), N("C", n=30)], U(ua=1), U(ud=1)),
        ([N("C")], U(ub=1, ua=-1), U(ud=1)), ([N("C")], U(ud=1), U(ub1=1, ua1=-1)),        # derived-dimension endpoint, bidirectional
        ([N("C")], U(ua2=1), U(ua=1)), ([], U(ua2=1), U(ua=1)), ([N("R")], U(ua2=1), U(ua=1)),   # redefinition, transitively
        ([N("C"), N("R")], U(ua2=1), U(ua=1)), ([N("R"), N("C")], U(ua2=1), U(ua=1)),      # newest redefinition wins
        ([N("R")], U(kiloua1=1), U(ua=1)), ([N("R")], U(ub1=1), U(ub=1)), ([N("R"), N("A")], U(ua1=1), U(ub1=1)),
        ([N("A")], U(ua=1), U(ua1=1)), ([N("A")], U(ub=1), U(ua=1)), ([N("A")], U(ud=1), U(ua=1)),   # same-dim, unreachable (rules are one way)
        # colliding redefinitions under different spellings: the most recently enabled context is in force
        ([N("S")], U(ua2=1), U(ua=1)), ([N("C"), N("S")], U(ua2=1), U(ua=1)), ([N("S"), N("C")], U(ua2=1), U(ua=1)),
        ([N("C,S")], U(ua2=1), U(ua=1)), ([N("S,C")], U(ua2=1), U(ua=1)), ([N("R"), N("S")], U(kiloua1=1), U(ua=1)),
        ([N("S"), N("R")], U(sa1=1), U(ua=1)), ([N("C"), N("R"), N("S")], U(ua2=1), U(ua=1)),
        ([{"refs": [("obj", 5)], "kw": {}}], U(ua2=1), U(ua=1)), ([N("S"), {"refs": [("obj", 5)], "kw": {}}], U(ua2=1), U(ua=1)),
        ([{"refs": [("obj", 5)], "kw": {}}, N("S")], U(ua2=1), U(ua=1)), ([N("S"), N("A")], U(ua1=1), U(ub=1)),
        ([{"refs": [("name", "nope")], "kw": {}}], U(ua=1), U(ub=1)),                        # unknown context
        ([N("A"), {"refs": [("alias", "a1")], "kw": {}}], U(ua=1), U(ub=1)),
    ]
    for frames, src, dst in directed:
        for forms in ([["with"] * len(frames), ["enable"] * len(frames)] + ([pick_forms(rng, frames)] if frames else [])):
            scenario(wb, cases_b, frames, forms, F(3, 2), src, dst, "directed", observe=True, compat=True)
            stats["directed"] += 1
        if len(frames) >= 2 and all(r[1] != "nope" for fr in frames for r in fr["refs"]):
            n = len(frames)
            for forms in (["with"] * n, ["enable"] * n, ["with"] * (n - 1) + ["percall"],
                          ["enable"] * (n - 1) + (["deco"] if len(frames[-1]["refs"]) == 1 else ["with"]), pick_forms(rng, frames)):
                scenario_live(wb, cases_b, frames, forms, F(3, 2), src, dst, "directed")
    # bodies that raise: rules, redefinitions and keyword values must all be gone afterwards
    for stack, src, dst, later in [
            ([N("A", n=5)], U(ua=1), U(ub=1), N("A")), ([N("C")], U(ua2=1), U(ua=1), N("R")),
            ([N("A", n=5), N("B")], U(ua=1), U(uc=1), N("B")), ([N("B", n=7), N("C", m=9)], U(ua=1), U(ud=1), N("C")),
            ([N("S")], U(kiloua1=1), U(ua=1), N("A"))]:
        k_ = len(stack)
        for forms in (["with"] * k_, ["enable"] * k_, ["deco"] * k_, ["with"] * (k_ - 1) + ["percall"],
                      ["deco"] + ["enable"] * (k_ - 1), ["with"] * (k_ - 1) + ["deco"]):
            for kind in ("dimerr", "value"):
                scenario_raise(wb, cases_b, stack, forms, kind, F(3, 2), src, dst, (U(ud=1), U(ua=1)), later, "directed")
    # redefinitions are visible exactly while active: before / inside / after on the SAME registry
    before = wb.convert([], [], F(1), U(ua2=1), U(ua=1))
    inside = wb.convert([N("C")], ["with"], F(1), U(ua2=1), U(ua=1))
    after = wb.convert([], [], F(1), U(ua2=1), U(ua=1))
    if not (before == after == ("exact", F(12)) and inside == ("exact", F(40))):
        oracle_fail("redefinition-scope:ua2", f"ua2 -> ua gives {before} before, {inside} inside, {after} after a context that "
                    "redefines ua1 = 10 * ua (ua2 = 4 * ua1): expected 12, 40, 12", {"world": text_b, "context": ctx_lines(dctx[2])})
    groups.append((wb, cases_b))

    # ---------------------------------------------------------------- (C) random worlds
    nworlds = 400 if thorough else 40
    per_world = 45 if thorough else 40
    for wi in range(nworlds):
        w = gen_world(rng, f"rnd{wi}")
        cases_w = []
        nctx = len(w.specs)
        for si in range(per_world):
            depth = rng.choice([1, 1, 2, 2, 3, 3, 4])
            frames = []
            for _ in range(depth):
                idxs = rng.sample(range(nctx), rng.choice([1, 1, 1, 2]))
                frames.append({"refs": [rnd_ref(rng, w, i) for i in idxs], "kw": rnd_kw(rng, w, rng.choice([0, 0.5, 1]))})
            if rng.random() < 0.02:
                frames[rng.randrange(depth)]["refs"] = [("name", "unknown_ctx")]
            # source / target: mostly a node of the active rule graph and a node reachable from it
            active = [w.resolve(r) for fr in frames for r in fr["refs"] if r[1] != "unknown_ctx"]
            edges = set()
            for i in active:
                edges |= set(w.declared(i)[1])
            exps_of = lambda key: {n[2:-1]: int(e) for n, e in key}
            starts = sorted({e[0] for e in edges}, key=sorted)
            if starts and rng.random() < 0.85:
                ka = rng.choice(starts)
                reach, todo = {ka}, [ka]
                while todo:
                    v = todo.pop()
                    for (p_, q_) in edges:
                        if p_ == v and q_ not in reach:
                            reach.add(q_)
                            todo.append(q_)
                far = sorted(reach - {ka}, key=sorted)
                a = exps_of(ka)
                b = exps_of(rng.choice(far)) if far and rng.random() < 0.8 else rng.choice(w.nodes)[1]
            else:
                a, b = rng.choice(w.nodes)[1], rng.choice(w.nodes)[1]
            if rng.random() < 0.1:
                b = a
            x = rng.choice([F(1), F(2), F(3, 2), F(10), F(-4), F(1, 7), F(0)] if rng.random() < 0.1 else [F(1), F(2), F(3, 2), F(10), F(-4), F(1, 7)])
            src, dst = rnd_unit(rng, w, a), rnd_unit(rng, w, b)
            if not src or not dst:
                continue
            scenario(w, cases_w, frames, pick_forms(rng, frames), x, src, dst, "random",
                     api=rng.choice(["to", "to", "to", "ito", "m_as"]), observe=rng.random() < 0.25, compat=rng.random() < 0.2)
            stats["random scenarios"] += 1
            if depth >= 2 and rng.random() < 0.25:
                scenario_live(w, cases_w, frames, pick_forms(rng, frames), x, src, dst, "random")
            if rng.random() < 0.2 and all(r[1] != "unknown_ctx" for fr in frames for r in fr["refs"]):
                # a body that raises under these activations: a pair no rule links if one is found, else a ValueError
                kind, bad = "value", (src, dst)
                if rng.random() < 0.6:
                    for _ in range(6):
                        bs, bd = rnd_unit(rng, w, rng.choice(w.nodes)[1]), rnd_unit(rng, w, rng.choice(w.nodes)[1])
                        if bs and bd and w.reference(frames, F(1), bs, bd)[0] == [("dimerr",)]:
                            kind, bad = "dimerr", (bs, bd)
                            break
                forms = pick_forms(rng, frames)
                decoable = [i for i, fr in enumerate(frames) if len(fr["refs"]) == 1 and fr["refs"][0][0] in ("name", "alias")]
                if decoable and rng.random() < 0.6:
                    forms[rng.choice(decoable)] = "deco"
                later = {"refs": [rng.choice(rng.choice(frames)["refs"])], "kw": {}}
                scenario_raise(w, cases_w, frames, forms, kind, x, src, dst, bad, later, "random")
        groups.append((w, cases_w))
    ck.count("worlds", len(groups))

    # ---------------------------------------------------------------- (D) find_shortest_path alone
    from pint.util import find_shortest_path
    bfs_cases = []
    for _ in range(6000 if thorough else 600):
        g = defaultdict(set)
        if rng.random() < 0.5:
            n = rng.randint(2, 8)
            p = rng.choice([0.15, 0.3, 0.5])
            for a in range(n):
                for b in range(n):
                    if a != b and rng.random() < p:
                        g[a].add(b)
            src, dst = rng.randrange(n), rng.randrange(n)
        else:                      # layered: many shortest paths, longer detours, back edges
            widths = [1] + [rng.randint(1, 3) for _ in range(rng.randint(1, 3))] + [1]
            layers, n = [], 0
            for wd_ in widths:
                layers.append(list(range(n, n + wd_)))
                n += wd_
            for la, lb in zip(layers[:-1], layers[1:]):
                for a in la:
                    for b in lb:
                        if rng.random() < 0.75:
                            g[a].add(b)
            for _ in range(rng.randint(0, 4)):
                a, b = rng.randrange(n), rng.randrange(n)
                if a != b:
                    g[a].add(b)
            src, dst = (0, n - 1) if rng.random() < 0.8 else (rng.randrange(n), rng.randrange(n))
        snapshot = {k: set(v) for k, v in g.items()}
        path = find_shortest_path(g, src, dst)
        allp = all_shortest_paths({(a, b) for a in snapshot for b in snapshot[a]}, src, dst)
        if not ((path is None and not allp) or (path is not None and path in allp)):
            oracle_fail("find_shortest_path:not-shortest", f"find_shortest_path({dict(snapshot)}, {src}, {dst}) = {path}; "
                        f"shortest paths: {allp[:3]}", {"graph": {str(k): sorted(v) for k, v in snapshot.items()}, "src": src, "dst": dst, "observed": path})
        if len(allp) > 1:
            stats["bfs: several shortest paths"] += 1
        nat = lambda v: f"{v}%nat"
        gl = coq_list([f"({nat(a)}, {coq_list([nat(b) for b in sorted(snapshot[a])])})" for a in sorted(snapshot)])
        obs = coq_opt(None if path is None else coq_list([nat(v) for v in path]))
        bfs_cases.append((f"KBfs {gl} {nat(n)} {nat(src)} {nat(dst)} {obs}", {"graph": {str(k): sorted(v) for k, v in snapshot.items()}, "src": src, "dst": dst, "observed": path}))
        ck.case(key=("bfs", gl, src, dst), nontrivial=src != dst)
        stats["find_shortest_path graphs"] += 1

    # ---------------------------------------------------------------- differ inside Coq (one file per world, in parallel)
    phases["implementation + oracles"] = round(time.time() - t_ph, 1)
    t_ph = time.time()
    total_cases, total_bad, first_bad = 0, 0, None

    def diff_world(wc):
        w, cs = wc
        if not cs:
            return w, cs, []
        hdr = HEADER + w.coq_world() + f"Definition ok (c : c11case) : bool := c11_ok {coq_bool(q_oldest)} W c.\n"
        t0 = time.time()
        bad = ck.coq_mismatches(f"c11_{w.wid}", hdr, [c for c, _ in cs], "ok", shard=40 if w.text is None else 300)
        if os.environ.get("C11_DEBUG"):
            print(f"  world {w.wid}: {len(cs)} cases {time.time() - t0:.1f}s")
        return w, cs, bad

    if built:
        empty = World("bfs", "bfs", "ua = [da]\n")
        jobs = groups + [(empty, bfs_cases)]
        with cf.ThreadPoolExecutor(max_workers=max(2, NCPU)) as ex:
            results = list(ex.map(diff_world, jobs))
        for w, cs, bad in results:
            total_cases += len(cs)
            if bad is None:
                continue                      # already recorded in ck.broken
            total_bad += len(bad)
            if bad and os.environ.get("C11_DEBUG"):
                with open(os.environ["C11_DEBUG"], "a") as fh:
                    for b in bad:
                        fh.write(json.dumps({"world": w.wid, "case": cs[b][0][:1500], "rp": js({k: v for k, v in cs[b][1].items() if k not in ("world", "contexts")})}, default=str) + "\n")
            if bad and first_bad is None:
                first_bad = (w, cs[bad[0]], len(bad))
        empty.close()
    for w, _ in groups:
        w.close()

    phases["model side (coqc)"] = round(time.time() - t_ph, 1)
    ck.extra["phase_seconds"] = phases
    for k, v in sorted(stats.items()):
        ck.count(k, v)
    ck.extra["model_vs_impl_cases"] = total_cases
    ck.extra["model_vs_impl_disagreements"] = total_bad
    ck.extra["several_shortest_chains"] = {"scenarios": stats["several shortest chains"],
                                           "with_different_values": stats["several shortest chains with different values"],
                                           "integer_graphs": stats["bfs: several shortest paths"]}
    seen, per_class = set(), defaultdict(int)
    for key, desc, rp in fails:
        cls = key.split(":")[0]
        if key not in seen and per_class[cls] < 6:        # one replay per distinct key, at most 6 per oracle
            seen.add(key)
            per_class[cls] += 1
            ck.violation(key, desc, rp)
    ck.extra["oracle_failures"] = len(fails)
    if first_bad is not None:
        w, (term, rp), n = first_bad
        ck.broken.append(f"correspondence ContextRun.c11_ok: {total_bad} disagreements, first in world {w.wid}: "
                         f"{json.dumps(js({k: rp[k] for k in rp if k not in ('world', 'contexts')}), default=str)[:600]}")
        if not fails:
            ck.violation("correspondence", "model and implementation disagree; no property oracle failed",
                         {"first_disagreement": js(rp), "coq_case": term[:3000], "n_disagreements": total_bad}, no_input=True)


# ===================================================================== replay
def replay(ck, path):
    """re-run the recorded scenario on the implementation and print expected / observed"""
    data = json.loads(Path(path).read_text())
    print(json.dumps({k: data[k] for k in ("property", "key", "what")}, indent=1))
    rp = data.get("replay", {})
    if "frames" not in rp or "contexts" not in rp:
        print(json.dumps(rp, indent=1)[:6000])
        return 0

    def unjs_kw(kw):
        out = {}
        for k, v in kw.items():
            out[k] = ("q", F(v[1]), {a: F(b) for a, b in v[2].items()}) if isinstance(v, list) else F(v)
        return out
    world = rp["world"]
    text = None if world == "default" else world
    w = World("replay", "replay", text)
    frames = [{"refs": [tuple(r) for r in fr["refs"]], "kw": unjs_kw(fr["kw"])} for fr in rp["frames"]]
    for c in rp["contexts"]:
        lines = c["lines"] if isinstance(c, dict) else c
        raw = parse_ctx_block(lines[0], [l.strip() for l in lines[1:]])
        if isinstance(c, dict) and c.get("from_file"):
            w.add_file_contexts([raw])
        else:
            w.add_object_context(raw, c.get("registered", True) if isinstance(c, dict) else True)
    x, src, dst = rp["convert"]
    if "live" in rp and rp["live"].get("kind") == "after-raise":
        lv = rp["live"]
        lframes = [{"refs": [tuple(r) for r in fr["refs"]], "kw": unjs_kw(fr["kw"])} for fr in lv["frames"]]
        later = {"refs": [tuple(r) for r in lv["later"]["refs"]], "kw": unjs_kw(lv["later"]["kw"])}
        bad = [{k: F(v) for k, v in d_.items()} for d_ in lv["bad"]]
        out = w.raise_then_observe(lframes, lv["forms"], lv["body"], F(x), {k: F(v) for k, v in src.items()},
                                   {k: F(v) for k, v in dst.items()}, bad, later)
        print(f"body raising ({lv['body']}) under forms {lv['forms']}: raised {out['raised']}")
        print(f"step '{lv['step']}': observed now", js(out[lv["step"]]), "expected one of", rp.get("expected_one_of"))
        w.close()
        return 0
    if "live" in rp:
        lv = rp["live"]
        lframes = [{"refs": [tuple(r) for r in fr["refs"]], "kw": unjs_kw(fr["kw"])} for fr in lv["frames"]]
        obs = w.live(lframes, lv["forms"], F(x), {k: F(v) for k, v in src.items()}, {k: F(v) for k, v in dst.items()})
        print("live stack, recorded history:", lv["history"])
        print("live stack, history now     :", [[n, ph, js(o)] for n, ph, o in obs])
        print(f"step {lv['step']} ({lv['phase']}, {lv['active_frames']} frames active): observed now",
              js(obs[lv["step"]][2]) if lv["step"] < len(obs) else None, "expected one of", rp.get("expected_one_of"))
        w.close()
        return 0
    got = w.convert(frames, rp.get("forms", ["with"] * len(frames)), F(x), {k: F(v) for k, v in src.items()},
                    {k: F(v) for k, v in dst.items()}, rp.get("api", "to"))
    print("observed now :", js(got))
    print("expected     :", rp.get("expected_one_of", rp.get("expected")))
    w.close()
    return 0
