"""C12 — context activation is scoped, stack-like, atomic and leaves no residue.

Theorems: coq/Properties/C12.v over the state machine coq/Model/CtxState.v.
Correspondence K (coq/Model/CtxStateRun.v): every operation sequence up to a bounded length over
a pool of four contexts (rules only / redefinitions only / both / invalid redefinition) is run on
a real Fraction registry built from the definition lines below; after every step the active
context names, the number of unit-table layers, the number of caches and the answers to a table
of probes are compared, inside Coq, with the model.  Plus random sequences of length 30 with
explicit probes, exceptions injected inside `with` bodies, and two registries sharing the Context
objects.  Oracles decide the property statement on the real registry alone.
"""
import itertools
import json
import os
import random
import time
from fractions import Fraction as F

from .common import coq_bool, coq_list, coq_opt, coq_q, coq_str

HEADER0 = "From PintV Require Import Model.UC Model.CtxState Model.CtxStateRun.\nOpen Scope string_scope.\n"

# ------------------------------------------------------------------ the generated registry
# (name, scale, reference) — the harness's own description; pint gets definition lines
# rendered from it, the Coq model gets literals rendered from it.
UNITS = [
    ("meter", F(1), {"[L]": 1}),
    ("second", F(1), {"[T]": 1}),
    ("gram", F(1), {"[M]": 1}),
    ("inch", F(127, 5000), {"meter": 1}),
    ("foot", F(12), {"inch": 1}),
    ("yard", F(3), {"foot": 1}),
    ("minute", F(60), {"second": 1}),
    ("pound", F(45359237, 100000), {"gram": 1}),
    ("fpm", F(1), {"foot": 1, "minute": -1}),
    ("sqyd", F(1), {"yard": 2}),
    ("lap", F(400), {"meter": 1}),
    ("laps", F(2), {"lap": 1}),      # also the plural of "lap": two prefix-less readings of the name
]
HERTZ_R1 = ("hertz", F(1), {"second": -1})
HERTZ_R2 = ("hertz", F(1), {"[F]": 1})
# the two registries also differ for a unit that a shared context redefines: derived in the first,
# a base unit of its own dimension in the second (where redefining it must raise)
STONE_R1 = ("stone", F(14), {"pound": 1})
STONE_R2 = ("stone", F(1), {"[W]": 1})


def units_of(second):
    return UNITS + ([HERTZ_R2, STONE_R2] if second else [HERTZ_R1, STONE_R1])
DIMS_COMMON = {"[V]": {"[L]": 1, "[T]": -1}, "[A]": {"[L]": 2}}
DIMS_R1 = dict(DIMS_COMMON, **{"[F]": {"[T]": -1}})
DIMS_R2 = dict(DIMS_COMMON)
# default system "mini": the lines `inch` and `minute` replace the root units meter and second
SYS_LINES = ["inch", "minute"]
SYS = {"meter": {"inch": 1}, "second": {"minute": 1}}
DEFINABLE = {"smoot": (F(67), {"inch": 1}), "blip": (F(2), {"foot": 1})}

# context pool: rules are (src dim, dst dim, coef, (par, multiply?) | None, units)
#   meaning  value * coef [* par | / par] * units
CTX = {
    "ra": dict(defaults={"n": F(3)}, rules=[
        ("[L]", "[T]", F(1), ("n", False), {"second": 1, "meter": -1}),
        ("[T]", "[L]", F(1), ("n", True), {"meter": 1, "second": -1})], redefs=[]),
    "rb": dict(defaults={}, rules=[], redefs=[("foot", F(10), {"inch": 1}), ("minute", F(30), {"second": 1})]),
    "rc": dict(defaults={"k": F(2)}, rules=[
        ("[V]", "[M]", F(1), ("k", True), {"gram": 1, "second": 1, "meter": -1}),
        ("[L]", "[T]", F(1, 5), None, {"second": 1, "meter": -1}),
        ("[T]", "[M]", F(2), None, {"gram": 1, "second": -1})],
        # minute is redefined by rb as well (30 s): the two nesting orders of rb and rc must differ
        redefs=[("yard", F(2), {"foot": 1}), ("minute", F(45), {"second": 1})]),
    "rd": dict(defaults={}, rules=[("[M]", "[L]", F(7), None, {"meter": 1, "gram": -1})],
               redefs=[("yard", F(4), {"foot": 1}), ("foot", F(2), {"second": 1}), ("minute", F(20), {"second": 1})]),
    # invalid redefinition whose failure is not a ValueError: "laps" has two readings, so
    # _redefine trips `assert len(candidates_no_prefix) == 1` (AssertionError)
    "re": dict(defaults={}, rules=[], redefs=[("yard", F(5), {"foot": 1}), ("laps", F(3), {"lap": 1})]),
    # a second redefinition-only context in conflict with rb (minute): without parameters, so the
    # two nesting orders [rb, rf] and [rf, rb] consist of the very same parameterised contexts
    "rf": dict(defaults={}, rules=[], redefs=[("minute", F(45), {"second": 1}), ("yard", F(7, 2), {"foot": 1})]),
    # shared between the registries: valid in the first, invalid in the second (stone is a base unit there)
    "rt": dict(defaults={}, rules=[], redefs=[("stone", F(10), {"pound": 1})]),
    "rs": dict(defaults={"k": F(2)}, rules=[("[F]", "[L]", F(1), ("k", True), {"meter": 1, "hertz": -1})],
               redefs=[]),
}
REDEFINING = {n for n, c in CTX.items() if c["redefs"]}


def fr(x):
    x = F(x)
    return str(x.numerator) if x.denominator == 1 else f"({x.numerator}/{x.denominator})"


def uexpr(d):
    if len(d) == 1 and list(d.values())[0] == 1:
        return list(d)[0]
    return " * ".join(f"{k} ** {v}" for k, v in sorted(d.items())) if d else "dimensionless"


def def_line(name, scale, ref):
    if all(k.startswith("[") for k in ref):
        return f"{name} = " + " * ".join(f"{k} ** {v}" for k, v in ref.items())
    return f"{name} = {fr(scale)} * " + uexpr(ref)


def registry_lines(second):
    units = units_of(second)
    dims = DIMS_R2 if second else DIMS_R1
    lines = [def_line(*u) for u in units]
    lines += [f"{k} = " + " * ".join(f"{d} ** {e}" for d, e in v.items()) for k, v in dims.items()]
    lines += ["@system mini"] + ["    " + s for s in SYS_LINES] + ["@end", "@defaults", "    group = root", "    system = mini", "@end"]
    return lines


def ctx_lines(name):
    c = CTX[name]
    head = "@context" + ("(" + ", ".join(f"{k}={fr(v).strip('()')}" for k, v in c["defaults"].items()) + ")" if c["defaults"] else "") + " " + name
    out = [head]
    for src, dst, coef, par, units in c["rules"]:
        eq = f"value * {fr(coef)}"
        if par:
            eq += (" * " if par[1] else " / ") + par[0]
        eq += f" * ({uexpr(units)})"
        out.append(f"    {src} -> {dst}: {eq}")
    for n, s, r in c["redefs"]:
        out.append("    " + def_line(n, s, r))
    return out


# ------------------------------------------------------------------ Coq literals
def cq(x):
    x = F(x)
    return f"(mkq ({x.numerator}) {x.denominator})"


def cul(d):
    return "[" + "; ".join(f"({coq_str(k)}, {cq(v)})" for k, v in sorted(d.items())) + "]"


def cuc(d):
    return f"(mkuc {cul(d)})"


def cud(scale, ref):
    s = F(scale)
    return f"(mkud ({s.numerator}) {s.denominator} {cul(ref)})"


def cps(d):
    return f"(mkps {cul(d)})"


def coq_setup(qk):
    def table(second):
        units = units_of(second)
        return "(mkut [" + "; ".join(f"({coq_str(n)}, {cud(s, r)})" for n, s, r in units) + "])"

    def cfg(second):
        dims = DIMS_R2 if second else DIMS_R1
        return ("(RC (mkdm [" + "; ".join(f"({coq_str(k)}, {cul(v)})" for k, v in dims.items()) + "]) (mkum ["
                + "; ".join(f"({coq_str(k)}, {cuc(v)})" for k, v in SYS.items()) + "]))")

    def rule(r):
        src, dst, coef, par, units = r
        p = "None" if par is None else f"(Some ({coq_str(par[0])}, {coq_bool(par[1])}))"
        return f"(RL {cuc({src: 1})} {cuc({dst: 1})} {cq(coef)} {p} {cuc(units)})"

    objs = "(mkobjs [" + "; ".join(
        f"({coq_str(n)}, CO {cps(c['defaults'])} [" + "; ".join(rule(r) for r in c["rules"]) + "] ["
        + "; ".join(f"({coq_str(u)}, {cud(s, rf)})" for u, s, rf in c["redefs"]) + "] false)"
        for n, c in CTX.items()) + "])"
    probes = "[" + "; ".join(coq_probe(p) for p in PROBES) + "]"
    return (HEADER0 + f"Definition QKv := QK {coq_bool(qk['F6'])} {coq_bool(qk['F7'])} {coq_bool(qk['F8'])} {coq_bool(qk['F110'])} {coq_bool(qk['F5'])}.\n"
            f"Definition SUv := SU QKv ({cfg(False)}, {cfg(True)}) ({table(False)}, {table(True)}) {objs} {probes}.\n")


def coq_probe(p):
    if p[0] == "conv":
        return f"(PConv {cq(p[1])} {cuc(p[2])} {cuc(p[3])})"
    if p[0] == "root":
        return f"(PRoot {cuc(p[1])})"
    if p[0] == "base":
        return f"(PBase {cuc(p[1])})"
    return f"(PParse {coq_str(p[1])})"


def coq_op(op):
    k = op[0]
    if k in ("en", "with"):
        c = "OEnable" if k == "en" else "OWithEnter"
        return f"({c} {coq_list([coq_str(x) for x in op[1]])} {cps(dict(op[2]))})"
    if k == "dis":
        return f"(ODisable {coq_opt(None if op[1] is None else str(op[1]) + '%nat')})"
    if k == "exit":
        return "OWithExit"
    if k == "raise":
        return "ORaise"
    if k == "probe":
        return f"(OProbe {coq_probe(op[1])})"
    if k == "def":
        s, r = DEFINABLE[op[1]]
        return f"(ODefine {coq_str(op[1])} {cud(s, r)})"
    raise ValueError(op)


def coq_answer(a):
    if a[0] == "Q":
        return f"aq ({a[1].numerator}) {a[1].denominator}"
    if a[0] == "FU":
        return f"af ({a[1].numerator}) {a[1].denominator} {cul(a[2])}"
    if a[0] == "U":
        return f"au {cul(a[1])}"
    return f"AErr {a[1]}"


def coq_out(o):
    if o[0] == "done":
        return "ODone"
    if o[0] == "failed":
        return f"(OFailed {o[1]})"
    if o[0] == "exc":
        return "OExc"
    if o[0] == "invalid":
        return "OInvalid"
    if o[0] == "swallowed":
        return "ODone"
    return f"(OAns ({coq_answer(o[1])}))"


class Interner:
    """names repeated sub-terms (answer vectors, context observations, operations) so that a node
    of a case tree is short; the definitions go into the header of the shard that uses them"""

    def __init__(self):
        self.defs = {}

    def __call__(self, prefix, typ, text):
        import hashlib
        name = prefix + hashlib.sha1(text.encode()).hexdigest()[:12]
        self.defs[name] = f"Definition {name} : {typ} := {text}."
        return name


def coq_obs(ob, regs, it, ctx_names=("rc", "rs")):
    items = []
    for r in regs:
        b = coq_bool(r == 1)
        o = ob["regs"][r]
        items.append(f"ObActive {b} {coq_list([coq_str(x) for x in o['active']])}")
        items.append(f"ObLayers {b} {o['layers']}")
        items.append(f"ObCaches {b} {o['caches']}")
        items.append(f"ObFrames {b} {o['frames']}")
        if o.get("answers") is not None:
            items.append(f"ObAns {b} " + it("A", "list answer", coq_list([coq_answer(a) for a in o['answers']])))
    cx = []
    for name, (keys, defaults, checked, *_rest) in sorted(ob.get("ctx", {}).items()):
        if name not in ctx_names:
            continue
        ks = coq_list([f"({cuc(a)}, {cuc(b)})" for a, b in keys])
        cx.append(f"ObCtx {coq_str(name)} {ks} {cps(defaults)} {coq_bool(checked)}")
    txt = coq_list(items)
    if cx:
        txt = f"({txt} ++ " + it("X", "list obsitem", coq_list(cx)) + ")"
    return txt


def coq_node(r, op, out, ob, regs, kids, it):
    if op[0] == "deco":
        # the decorator form is a with-block of one context around the decorated call: in the model
        # an enter node (observed from inside the function) followed by the exit / raise node
        enter = ("with", (op[1],), op[2])
        if out[0] != "deco":                       # the activation itself failed
            return coq_node(r, enter, out, ob, regs, kids, it)
        _, oe, obi, ox = out
        inner = coq_node(r, ("raise",) if op[3] else ("exit",), ox, ob, regs, kids, it)
        return coq_node(r, enter, oe, obi, regs, [inner], it)
    return (f"Node ({coq_bool(r == 1)}, " + it("P", "op", coq_op(op)) + f") {coq_out(out[:2])} "
            f"{coq_obs(ob, regs, it)} {coq_list(kids)}")


# ------------------------------------------------------------------ probes swept after every step
def U(**kw):
    return {k: F(v) for k, v in kw.items()}


PROBES = [
    ("conv", F(1), U(yard=1), U(inch=1)),            # redefinitions of yard / foot
    ("conv", F(6), U(fpm=1), {"inch": F(1), "second": F(-1)}),   # foot and minute redefinitions
    ("conv", F(30), U(meter=1), U(second=1)),        # only inside a context with a length->time rule
    ("conv", F(2), U(minute=1), U(foot=1)),          # time->length rule and redefinitions together
    ("conv", F(30), U(foot=1), U(gram=1)),           # two-step path length->time->mass
    ("conv", F(5), U(pound=1), U(yard=1)),           # mass->length: only while the invalid context is (wrongly) active
    ("conv", F(3), {"meter": F(1), "second": F(-1)}, U(gram=1)),  # rule declared on a derived dimension
    ("conv", F(1), U(smoot=1), U(inch=1)),           # a unit defined later
    ("root", U(sqyd=1)),
    ("root", U(fpm=1)),
    ("root", U(smoot=1)),
    ("root", U(laps=1)),
    ("parse", "foot"),
    ("parse", "smoot"),
]
PROBES2 = [("conv", F(3), U(hertz=1), U(meter=1))]   # extra probe of the two-registry runs
USERDEF = set(DEFINABLE)


def probe_units(p):
    if p[0] == "conv":
        return set(p[2]) | set(p[3])
    if p[0] in ("root", "base"):
        return set(p[1])
    return {p[1]}


def probe_name(p):
    if p[0] == "conv":
        return f"conv:{uexpr(p[2]).replace(' ', '')}->{uexpr(p[3]).replace(' ', '')}"
    if p[0] in ("root", "base"):
        return f"{p[0]}:{uexpr(p[1]).replace(' ', '')}"
    return f"parse:{p[1]}"


# ------------------------------------------------------------------ the implementation side
def errclass(e):
    import pint
    from pint.errors import DimensionalityError, RedefinitionError, UndefinedUnitError
    if isinstance(e, RedefinitionError):
        return "ERedef"
    if isinstance(e, DimensionalityError):
        return "EDim"
    if isinstance(e, UndefinedUnitError):
        return "EUndef"
    if isinstance(e, KeyError):
        return "EKey"
    if isinstance(e, ZeroDivisionError):
        return "EZero"
    if isinstance(e, AssertionError):
        return "EAssert"
    if isinstance(e, ValueError):
        return "EValue"
    return "EOther"


def cont(u):
    d = getattr(u, "_units", u)
    return {k: F(v) for k, v in d.items()}


def canon(v):
    """order- and address-free rendering of an attribute value of a Context object"""
    import weakref
    if isinstance(v, weakref.WeakValueDictionary):
        return sorted(repr(k) for k in v.keys())
    if isinstance(v, dict):
        return sorted(((canon(k), canon(x)) for k, x in v.items()), key=repr)
    if isinstance(v, (set, frozenset)):
        return sorted((canon(x) for x in v), key=repr)
    if isinstance(v, (list, tuple)):
        return [canon(x) for x in v]
    if callable(v):
        return getattr(v, "__qualname__", type(v).__name__)
    return repr(v)


def ctx_attrs(c):
    """every public and private attribute of a Context object"""
    return {k: canon(v) for k, v in vars(c).items()}


class Injected(Exception):
    pass


_CDEFS = {}
_RDEFS = {}


def context_definitions():
    if not _CDEFS:
        from pint.facets.context.definitions import ContextDefinition
        for n in CTX:
            _CDEFS[n] = ContextDefinition.from_lines(ctx_lines(n), F)
    return _CDEFS


def registry_definitions(second):
    """the definition lines parsed once (used by the fast construction path)"""
    if second not in _RDEFS:
        import pint
        tmp = pint.UnitRegistry(None, non_int_type=F, cache_folder=None)
        pp = tmp._def_parser.parse_string("\n".join(registry_lines(second)))
        _RDEFS[second] = list(tmp._def_parser.iter_parsed_project(pp))
    return _RDEFS[second]


def fast_rule(coef, par, units):
    def f(ureg, value, **kw):
        c = coef
        if par:
            c = c * kw[par[0]] if par[1] else c / kw[par[0]]
        return value * ureg.Quantity(c, ureg.UnitsContainer(units))
    return f


class World:
    """one or two real registries with freshly built Context objects registered in all of them.
    fast=False: registries built by UnitRegistry(definition lines), context rules are the text
    equations (evaluated by parse_expression).  fast=True (volume): the same lines parsed once and
    fed to define(), rules attached with add_transformation as Python callables."""

    def __init__(self, two=False, fast=False):
        import pint
        from pint import Context
        self.regs = []
        for i in range(2 if two else 1):
            if fast:
                u = pint.UnitRegistry(None, non_int_type=F, cache_folder=None, on_redefinition="raise")
                for d in registry_definitions(i == 1):
                    u.define(d)
                u.default_system = "mini"
            else:
                u = pint.UnitRegistry(registry_lines(i == 1), non_int_type=F, cache_folder=None, on_redefinition="raise")
            self.regs.append(u)
        self.ctx = {n: Context.from_definition(cd) for n, cd in context_definitions().items()}
        if fast:
            for n, c in self.ctx.items():
                for (src, dst), (_, _, coef, par, units) in zip(list(c.funcs), CTX[n]["rules"]):
                    c.add_transformation(src, dst, fast_rule(coef, par, units))
        for u in self.regs:
            for c in self.ctx.values():
                u.add_context(c)
        self.cms = [[] for _ in self.regs]

    def close(self):
        """finish generators of with-blocks left open (their finally clause may raise under F6)"""
        for cms in self.cms:
            while cms:
                try:
                    cms.pop().gen.close()
                except Exception:
                    pass

    def ask(self, r, p):
        u = self.regs[r]
        try:
            if p[0] == "conv":
                return ("Q", F(u.Quantity(p[1], uexpr(p[2])).to(uexpr(p[3])).magnitude))
            if p[0] == "root":
                f, un = u.get_root_units(uexpr(p[1]))
                return ("FU", F(f), cont(un))
            if p[0] == "base":
                f, un = u.get_base_units(uexpr(p[1]))
                return ("FU", F(f), cont(un))
            return ("U", cont(u.parse_units(p[1])))
        except Exception as e:
            return ("E", errclass(e))

    def deco(self, r, op, obs_fn):
        """op = ("deco", name, kwargs, raises): call a function decorated with
        ureg.with_context(name, **kwargs); the function observes the registry from inside and, if
        `raises`, raises.  Returns ("deco", enter outcome, inside observation, exit outcome) or the
        failure of the activation."""
        u = self.regs[r]
        inside = {}

        def body():
            inside["ob"] = obs_fn()
            inside["ob"]["regs"][r]["frames"] += 1      # the decorator's own block
            if op[3]:
                raise Injected("raised inside the decorated function")
            return 42

        try:
            res = u.with_context(op[1], **dict(op[2]))(body)()
            ox = ("swallowed",) if op[3] or res != 42 else ("done",)
        except Injected:
            ox = ("exc",)
        except Exception as e:
            if "ob" not in inside:
                return ("failed", errclass(e), type(e).__name__)
            ox = ("failed", errclass(e), type(e).__name__)
        return ("deco", ("done",), inside["ob"], ox)

    def do(self, r, op):
        u = self.regs[r]
        k = op[0]
        try:
            if k == "en":
                u.enable_contexts(*op[1], **dict(op[2]))
            elif k == "dis":
                u.disable_contexts(op[1])
            elif k == "with":
                cm = u.context(*op[1], **dict(op[2]))
                cm.__enter__()
                self.cms[r].append(cm)
            elif k in ("exit", "raise"):
                if not self.cms[r]:
                    return ("invalid",)
                cm = self.cms[r].pop()
                if k == "exit":
                    cm.__exit__(None, None, None)
                else:
                    exc = Injected("raised inside the with body")
                    swallowed = cm.__exit__(Injected, exc, None)
                    return ("swallowed",) if swallowed else ("exc",)
            elif k == "probe":
                return ("ans", self.ask(r, op[1]))
            elif k == "def":
                s, rf = DEFINABLE[op[1]]
                u.define(def_line(op[1], s, rf))
            return ("done",)
        except Exception as e:
            return ("failed", errclass(e), type(e).__name__)

    def obs(self, regs=(0,), sweep=True, probes=PROBES, ctx=()):
        ob = {"regs": {}}
        for r in regs:
            u = self.regs[r]
            ob["regs"][r] = {
                "active": [c.name for c in u._active_ctx.contexts],
                "layers": len(u._units.maps),
                "caches": len(u._caches),
                "frames": len(self.cms[r]),
                "answers": [self.ask(r, p) for p in probes] if sweep else None,
            }
        if ctx:
            ob["ctx"] = {n: ([(cont(a), cont(b)) for a, b in self.ctx[n].funcs], dict(self.ctx[n].defaults), self.ctx[n].checked,
                             ctx_attrs(self.ctx[n])) for n in ctx}
        return ob


# ------------------------------------------------------------------ property oracles (real registry only)
STRICT_LAYERS = [True]     # cleared by detect_quirks on a tree that rebuilds overlays on a cache hit (F110)


def do_and_judge(w, orc, op, ob0, obs_fn):
    """run one operation of a single-registry run and feed the oracles; returns (outcome, observation)"""
    if op[0] == "deco":
        out = w.deco(0, op, obs_fn)
        ob1 = obs_fn()
        enter = ("with", (op[1],), op[2])
        if out[0] == "deco":
            _, oe, obi, ox = out
            orc.step(enter, oe, ob0, obi, ob0["ctx"], obi["ctx"])
            orc.n -= 1                                  # both halves belong to the same operation
            orc.step(("raise",) if op[3] else ("exit",), ox, obi, ob1)
        else:
            orc.step(enter, out, ob0, ob1, ob0["ctx"], ob1["ctx"])
    else:
        out = w.do(0, op)
        ob1 = obs_fn()
        orc.step(op, out, ob0, ob1, ob0["ctx"], ob1["ctx"])
    orc.stack_probe(w, ob1["regs"][0])
    if op[0] == "probe" and op[1][0] == "base" and out[0] == "ans":
        orc.base_probe(w, op[1], out[1])
    return out, ob1


class Oracle:
    """Decides the C12 statement on one run of the real registry: the active stack equals the
    stack the operations imply; answers after a context has been left equal those before entry;
    a failed activation changes nothing; shared Context objects are not modified by activation."""

    def __init__(self, pristine, probes=PROBES):
        self.stack = []          # reference stack, oldest first: dict(name, snap)
        self.frames = []
        self.ndefs = 0
        self.overlay_defined = set()
        self.tainted = False
        self.n = 0               # operations seen so far
        self.found = []          # (key, description, number of operations that exhibit it)
        self.pristine = pristine
        self.probes = probes

    def report(self, key, desc, taint=True):
        if not self.tainted and key not in [f[0] for f in self.found]:
            self.found.append((key, desc, self.n))
        if taint:
            self.tainted = True  # later deviations of this run are consequences

    def _compare_answers(self, before, ndefs_before, after, what):
        for p, a, b in zip(self.probes, before, after):
            if a == b:
                continue
            units = probe_units(p)
            if units & USERDEF and self.ndefs != ndefs_before:
                continue         # a define in between legitimately changes these
            if units & self.overlay_defined:
                self.report(f"{what}:overlay-defined-unit:{probe_name(p)}",
                            f"{probe_name(p)} answered {a} before entry and {b} after exit (unit defined while a redefining context was active)")
            else:
                self.report(f"{what}:{probe_name(p)}", f"{probe_name(p)} answered {a} before entry and {b} after exit")
            return

    def step(self, op, out, ob0, ob1, ctx0=None, ctx1=None, r=0):
        self.n += 1
        if self.tainted:
            return
        k = op[0]
        o0, o1 = ob0["regs"][r], ob1["regs"][r]
        if k in ("en", "with"):
            if ctx0 is not None:
                self.context_objects(op, ctx0, ctx1)
            if out[0] == "failed":
                # whatever was raised: active stack, unit-table layers and answers must be as before
                comps = ("active", "layers", "answers") if STRICT_LAYERS[0] else ("active", "answers")
                changed = [c for c in comps if o0[c] != o1[c] and o0[c] is not None and o1[c] is not None]
                if changed == ["answers"]:
                    diff = [p for p, a, b in zip(self.probes, o0["answers"], o1["answers"]) if a != b]
                    if all(probe_units(p) & self.overlay_defined for p in diff):
                        self.report(f"failed-activation:overlay-defined-unit:{probe_name(diff[0])}",
                                    f"{k} {list(op[1])} raised {out[2]}; afterwards {probe_name(diff[0])} answers differently "
                                    "(unit defined while a redefining context was active)")
                        return
                if changed:
                    self.report(f"failed-activation:{out[2]}:{'+'.join(changed)}",
                                f"{k} {list(op[1])} raised {out[2]} but changed {changed}: active {o0['active']} -> {o1['active']}, layers {o0['layers']} -> {o1['layers']}")
                return
            for i, n in enumerate(op[1]):
                self.stack.append({"name": n, "snap": (o0["answers"], self.ndefs) if i == 0 and o0["answers"] is not None else None})
            if k == "with":
                self.frames.append(len(op[1]))
        elif k in ("dis", "exit", "raise"):
            if out[0] == "invalid":
                return
            if out[0] == "swallowed":
                self.report("with-swallowed-exception", "an exception raised inside the with body did not propagate")
                return
            if out[0] == "failed":
                self.report(f"deactivation-raised:{out[2]}", f"{k} raised {out[2]}")
                return
            n = op[1] if k == "dis" else self.frames.pop()
            popped = self.stack[:] if n is None else (self.stack[len(self.stack) - n:] if n else [])
            self.stack = self.stack[:len(self.stack) - len(popped)]
            expected = [e["name"] for e in reversed(self.stack)]
            if o1["active"] != expected:
                self.report(f"stack:{k}", f"after {op} the active contexts are {o1['active']}, the operations imply {expected}")
                return
            if popped and popped[0]["snap"] is not None and o1["answers"] is not None:
                self._compare_answers(popped[0]["snap"][0], popped[0]["snap"][1], o1["answers"], "exit-restores")
        elif k == "def":
            if out[0] == "done":
                self.ndefs += 1
                if any(e["name"] in REDEFINING for e in self.stack):
                    self.overlay_defined.add(op[1])
        if self.tainted:
            return
        expected = [e["name"] for e in reversed(self.stack)]
        if o1["active"] != expected:
            self.report(f"stack:{k}", f"after {op} the active contexts are {o1['active']}, the operations imply {expected}")
            return
        if not self.stack and o1["answers"] is not None and k not in ("probe", "def"):
            # every context has been left: the answers must be those of the untouched registry
            self._compare_answers(self.pristine["answers"], 0, o1["answers"], "residue-at-empty")

    def context_objects(self, op, ctx0, ctx1):
        """Context objects are never modified by being activated: every attribute (public or not)
        of every registered Context object has the same value after the call"""
        for n in ctx0:
            if ctx0[n][0] != ctx1[n][0]:
                self.report(f"shared-context-modified:funcs-keys:{n}",
                            f"activating {list(op[1])} rewrote the rule endpoints of Context {n}: {ctx0[n][0]} -> {ctx1[n][0]}",
                            taint=False)   # does not derail the reference stack: keep checking this run
            if ctx0[n][1] != ctx1[n][1]:
                self.report(f"shared-context-modified:defaults:{n}", f"activating {list(op[1])} changed the defaults of Context {n}")
                return
            a0, a1 = ctx0[n][3], ctx1[n][3]
            for attr in sorted(set(a0) | set(a1)):
                if attr in ("funcs", "relation_to_context", "defaults") or a0.get(attr) == a1.get(attr):
                    continue        # rule endpoints / defaults are reported above
                self.report(f"shared-context-modified:{attr}:{n}",
                            f"activating {list(op[1])} changed attribute {attr!r} of Context {n}: {str(a0.get(attr))[:200]} -> {str(a1.get(attr))[:200]}",
                            taint=False)

    def stack_probe(self, world, o1, r=0):
        """Every answer depends only on the current stack (names and parameters, in order), not on
        which combinations of contexts the registry has seen before: a fresh registry brought
        directly to the same stack must answer the same.  Checked when at least two redefining
        contexts are active and no unit has been defined by the user in this run."""
        if self.tainted or self.ndefs or o1["answers"] is None:
            return
        if sum(n in REDEFINING for n in o1["active"]) < 2:
            return
        stack = [(c.name, tuple(sorted(c.defaults.items()))) for c in reversed(world.regs[r]._active_ctx.contexts)]
        want = twin_answers(tuple(stack), tuple(self.probes))
        if want is None:
            return
        for p, a, b in zip(self.probes, o1["answers"], want):
            if a != b:
                self.report(f"stack-determines-answers:{probe_name(p)}",
                            f"with the active stack {[n for n, _ in reversed(stack)]} (newest first) {probe_name(p)} answers {a}; "
                            f"a fresh registry brought to the same stack answers {b} (the answer depends on which combinations were seen before)")
                return

    def base_probe(self, world, p, ans, r=0):
        """get_base_units asked while no context is active must give the untouched registry's answer"""
        if self.tainted or self.stack or (probe_units(p) & USERDEF):
            return
        want = self.pristine["base"].get(probe_name(p))
        if want is not None and ans != want:
            root_ok = world.ask(r, ("root", p[1])) == self.pristine["root"].get(probe_name(p))
            tag = "get_base_units-only" if root_ok else "get_base_units+root"
            self.report(f"exit-restores:{tag}:{uexpr(p[1]).replace(' ', '')}",
                        f"get_base_units({uexpr(p[1])}) outside every context answers {ans}, the untouched registry answers {want}"
                        + (" (get_root_units is right: the context-blind _base_units_cache serves a value computed inside a context)" if root_ok else ""))


_TWIN = {}


def twin_answers(stack, probes):
    """answers of a fresh registry on which exactly `stack` (oldest first: (name, parameters)) was enabled"""
    key = (stack, tuple(probe_name(p) + str(p[1]) for p in probes))
    if key not in _TWIN:
        w = World(False, fast=True)
        try:
            for name, kw in stack:
                w.regs[0].enable_contexts(name, **dict(kw))
            _TWIN[key] = [w.ask(0, p) for p in probes]
        except Exception:
            _TWIN[key] = None
        w.close()
    return _TWIN[key]


BASE_PROBES = [("base", U(yard=1)), ("base", U(fpm=1))]
_PRISTINE = {}


def pristine(two=False):
    if two not in _PRISTINE:
        w = World(two)
        pr = {"answers": [w.ask(0, p) for p in PROBES], "base": {}, "root": {}}
        for p in BASE_PROBES:
            pr["root"][probe_name(p)] = w.ask(0, ("root", p[1]))
            pr["base"][probe_name(p)] = w.ask(0, p)
        _PRISTINE[two] = pr
    return _PRISTINE[two]


def run_sequence(ops, sweep=True, fast=False):
    """one fresh single-registry world; returns per-step (out, obs) and the oracle findings"""
    w = World(False, fast)
    orc = Oracle(pristine())
    ctxn = tuple(CTX)
    ob0 = w.obs(sweep=sweep, ctx=ctxn)
    steps = []
    for op in ops:
        out, ob1 = do_and_judge(w, orc, op, ob0, lambda: w.obs(sweep=sweep, ctx=ctxn))
        steps.append((out, ob1))
        ob0 = ob1
    w.close()
    return steps, orc.found


# ------------------------------------------------------------------ exhaustive exploration
def kwt(**kw):
    return tuple(sorted((k, F(v)) for k, v in kw.items()))


ALPHABET = {
    "core": [("en", ("ra",), ()), ("en", ("rb",), ()), ("en", ("rd",), ()), ("dis", None),
             ("with", ("rc",), ()), ("exit",), ("raise",)],
    "mid": [("en", ("ra",), ()), ("en", ("rb",), ()), ("en", ("rc",), ()), ("en", ("rd",), ()),
            ("dis", None), ("dis", 1), ("with", ("rb",), ()), ("with", ("rc",), ()), ("exit",), ("raise",),
            ("probe", ("base", U(yard=1))), ("def", "smoot")],
    "order": [("en", ("rb",), ()), ("en", ("rf",), ()), ("dis", None), ("with", ("rc",), ()), ("exit",),
              ("deco", "rb", (), True)],
    "tiny": [("en", ("rb",), ()), ("dis", None), ("with", ("rc",), ()), ("exit",), ("def", "smoot")],
    "lean": [("en", ("ra",), ()), ("en", ("rb",), ()), ("en", ("rc",), ()),
             ("en", ("re",), ()), ("dis", None), ("with", ("rc",), ()), ("exit",), ("raise",),
             ("probe", ("base", U(yard=1))), ("def", "smoot")],
    "full": [("en", ("ra",), ()), ("en", ("ra",), kwt(n=5)), ("en", ("rb",), ()), ("en", ("rc",), ()),
             ("en", ("rd",), ()), ("en", ("re",), ()), ("en", ("rb", "ra"), ()), ("dis", None), ("dis", 1),
             ("with", ("ra",), ()), ("with", ("rb",), ()), ("with", ("rc",), kwt(k=3)), ("with", ("rd",), ()),
             ("with", ("rb", "re"), ()),
             ("exit",), ("raise",), ("probe", ("base", U(yard=1))), ("def", "smoot"),
             ("deco", "rc", kwt(k=3), True), ("deco", "ra", (), False)],
}


def op_json(op):
    def j(x):
        if isinstance(x, F):
            return str(x)
        if isinstance(x, dict):
            return {k: j(v) for k, v in x.items()}
        if isinstance(x, (tuple, list)):
            return [j(y) for y in x]
        return x
    return j(op)


def op_unjson(x):
    def u(y, top=False):
        if isinstance(y, dict):
            return {k: F(v) for k, v in y.items()}
        if isinstance(y, list):
            return tuple(u(z) for z in y)
        if isinstance(y, str) and not top:
            try:
                return F(y) if (y[:1].isdigit() or y[:1] == "-") else y
            except ValueError:
                return y
        return y
    t = tuple(u(z) for z in x)
    return t


def explore_subtree(args):
    """worker: `prefix` and all its extensions up to `depth` ops over `alphabet`.  Every node is a
    fresh world replaying the whole sequence with the probe sweep after every step.  Returns one
    Coq case (the chain of prefix nodes ending in the subtree), the interned definitions it uses,
    oracle findings and the node count."""
    prefix, alphabet, depth = args
    findings, count, nontriv = {}, [0], [0]
    above = []
    it = Interner()

    def node(seq):
        steps, found = run_sequence(seq, fast=len(seq) > 2)
        count[0] += 1
        nontriv[0] += any(o[0] in ("en", "with", "deco") for o in seq)
        for key, desc, n in found:
            if key not in findings or len(findings[key][1]) > n:
                findings[key] = (desc, [op_json(o) for o in seq[:n]])
        if len(seq) == len(prefix):
            above.extend(steps[:-1])
        out, ob = steps[-1]
        kids = []
        if len(seq) < depth and out[0] != "invalid":
            open_blocks = ob["regs"][0]["frames"]
            for op in alphabet:
                if op[0] in ("exit", "raise") and not open_blocks:
                    continue
                kids.append(node(seq + [op]))
        return coq_node(0, seq[-1], out, ob, (0,), kids, it)

    t = node(list(prefix))
    for op, (out, ob) in reversed(list(zip(prefix[:-1], above))):
        t = coq_node(0, op, out, ob, (0,), [t], it)
    return prefix, f"KRun SUv [{t}]", it.defs, findings, count[0], nontriv[0]


def valid_prefixes(alphabet, k=2):
    """all op sequences of length k whose with_exit / raise_inside have an open block"""
    level = [[]]
    for _ in range(k):
        nxt = []
        for seq in level:
            if seq:
                steps, _ = run_sequence(seq)
                out, ob = steps[-1]
                open_blocks = ob["regs"][0]["frames"]
            else:
                open_blocks = 0
            for op in alphabet:
                if op[0] in ("exit", "raise") and not open_blocks:
                    continue
                nxt.append(seq + [op])
        level = nxt
    return level


# ------------------------------------------------------------------ two registries sharing Context objects
ALPHABET2 = [(r, op) for r in (0, 1) for op in
             [("en", ("rs",), ()), ("with", ("rs",), kwt(k=3)), ("exit",), ("dis", None), ("en", ("rt",), ())]] + [(0, ("en", ("rc",), ()))]
PROBES_W2 = [("root", U(stone=1)), PROBES[0], PROBES[6], PROBES2[0]]


def run_world2(ops, project=None):
    """ops: list of (registry, op) on a fresh two-registry world; with `project` only that
    registry's operations are executed (the other registry stays idle)"""
    w = World(True, fast=len(ops) > 2)
    steps = []
    for r, op in ops:
        if project is not None and r != project:
            steps.append(None)
            continue
        out = w.do(r, op)
        steps.append((out, w.obs(regs=(0, 1), probes=PROBES_W2, ctx=("rs", "rc", "rt"))))
    w.close()
    return steps


def explore2_subtree(args):
    prefix, depth = args
    findings, count = {}, [0]
    above = []
    it = Interner()

    def node(seq):
        steps = run_world2(seq)
        count[0] += 1
        # oracle: what registry r observes does not depend on what the other registry did with the shared contexts
        for r in (0, 1):
            alone = run_world2(seq, project=r)
            for i, (st, al) in enumerate(zip(steps, alone)):
                if al is None:
                    continue
                a, b = st[1]["regs"][r], al[1]["regs"][r]
                if st[0][:2] != al[0][:2] or a["answers"] != b["answers"] or a["active"] != b["active"]:
                    used_by_other = {n for rr, op in seq[:i] if rr != r and op[0] in ("en", "with") for n in op[1]}
                    if st[0][:2] != al[0][:2] or a["active"] != b["active"]:
                        names = sorted({n for n in seq[i][1][1] if n in used_by_other}) if seq[i][1][0] in ("en", "with") else []
                        key = f"shared-context:interference:outcome:{'+'.join(names) or 'none'}"
                        what = f"{seq[i][1]} ends {st[0][:2]} with active {a['active']}, alone {al[0][:2]} with active {b['active']}"
                    else:
                        diff = [probe_name(p) for p, x, y in zip(PROBES_W2, a["answers"], b["answers"]) if x != y]
                        names = sorted({n for n in a["active"] if n in used_by_other})
                        key = f"shared-context:interference:answer:{diff[0]}:{'+'.join(names) or 'none'}"
                        what = f"answers {diff}: {a['answers']} vs alone {b['answers']}"
                    if key not in findings or len(findings[key][1]) > i + 1:
                        findings[key] = (f"registry {r + 1} behaves differently when registry {2 - r} used the shared Context object(s) first "
                                         f"than with Context objects of its own: {what}", [[rr, op_json(o)] for rr, o in seq[:i + 1]])
                    break
        if len(seq) == len(prefix):
            above.extend(steps[:-1])
        out, ob = steps[-1]
        kids = []
        if len(seq) < depth and out[0] != "invalid":
            for r, op in ALPHABET2:
                if op[0] in ("exit", "raise") and not ob["regs"][r]["frames"]:
                    continue
                kids.append(node(seq + [(r, op)]))
        return coq_node(seq[-1][0], seq[-1][1], out, ob, (0, 1), kids, it)

    t = node(list(prefix))
    for (r, op), (out, ob) in reversed(list(zip(prefix[:-1], above))):
        t = coq_node(r, op, out, ob, (0, 1), [t], it)
    return prefix, f"KRun SUv2 [{t}]", it.defs, findings, count[0]


# ------------------------------------------------------------------ random long sequences
def random_ops(rng, n):
    names = ["ra", "rb", "rc", "rf", "rt", "rd", "re"]
    ops = []
    for _ in range(n):
        x = rng.random()
        if x < 0.28:
            cs = tuple(rng.choice(names[:5] if rng.random() < 0.8 else names) for _ in range(1 if rng.random() < 0.8 else 2))
            kw = rng.choice([(), (), kwt(n=5), kwt(k=3), kwt(n=2, k=7)])
            ops.append((rng.choice(["en", "with"]), cs, kw))
        elif x < 0.40:
            ops.append(("dis", rng.choice([None, 1, 1, 2, 0])))
        elif x < 0.48:
            ops.append((rng.choice(["exit", "raise"]),))
        elif x < 0.52:
            ops.append(("deco", rng.choice(names[:5]), rng.choice([(), kwt(n=5)]), rng.random() < 0.6))
        elif x < 0.57:
            ops.append(("def", rng.choice(sorted(DEFINABLE))))
        elif x < 0.67:
            ops.append(("probe", rng.choice(BASE_PROBES)))
        else:
            ops.append(("probe", rng.choice(PROBES)))
    return ops


def run_random(args):
    seed, n = args
    rng = random.Random(seed)
    ops = random_ops(rng, n)
    w = World(False)
    orc = Oracle(pristine())
    ctxn = tuple(CTX)
    ob0 = w.obs(sweep=True, ctx=ctxn)
    nodes = []
    for op in ops:
        out, ob1 = do_and_judge(w, orc, op, ob0, lambda: w.obs(sweep=rng.random() < 0.5, ctx=ctxn))
        nodes.append((op, out, ob1))
        ob0 = ob1
    it = Interner()
    t = []
    for op, out, ob in reversed(nodes):
        t = [coq_node(0, op, out, ob, (0,), t, it)]
    w.close()
    return [op_json(o) for o in ops], f"KRun SUv {coq_list(t)}", it.defs, orc.found


# ------------------------------------------------------------------ witnesses: which defect switches does this tree have?
W6 = [("en", ("rd",), ())]
W23 = [("en", ("rb",), ()), ("dis", None), ("en", ("rb",), ())]
W7 = [("with", ("rb",), ()), ("probe", ("base", U(yard=1))), ("exit",), ("probe", ("base", U(yard=1)))]
W8 = [("en", ("rc",), ())]
W5 = [("en", ("rc",), ()), ("en", ("rs",), kwt(k=3)), ("en", ("rs",), ())]
W23b = [("en", ("rb",), ()), ("def", "smoot"), ("dis", None), ("en", ("rb",), ()), ("with", ("ra",), ()), ("exit",)]


def detect_quirks(ck):
    qk, notes = {}, {}
    steps, f6 = run_sequence(W6)
    o = steps[-1][1]["regs"][0]
    if steps[-1][0][0] != "failed":
        notes["F6"] = "the invalid redefinition no longer fails"
        qk["F6"] = False
    elif o["active"] == ["rd"]:
        qk["F6"] = True
    elif o["active"] == []:
        qk["F6"] = False
    else:
        notes["F6"] = f"unexpected active contexts {o['active']} after the failed activation"
        qk["F6"] = True
    steps, _ = run_sequence(W23)
    qk["F110"] = steps[-1][1]["regs"][0]["layers"] >= 3
    STRICT_LAYERS[0] = not qk["F110"]
    steps, f7 = run_sequence(W7)
    inside, after = steps[1][0][1], steps[3][0][1]
    qk["F7"] = after == inside and after != pristine()["base"]["base:yard"]
    steps, f8 = run_sequence(W8)
    qk["F8"] = steps[-1][1]["ctx"]["rc"][0] != [({"[V]": F(1)}, {"[M]": F(1)}), ({"[L]": F(1)}, {"[T]": F(1)}), ({"[T]": F(1)}, {"[M]": F(1)})]
    # F5 (C11's finding, repaired by 9fd2d28): whose parameters does a context enabled without kwargs inherit?
    w = World(False)
    for op in W5:
        w.do(0, op)
    a5 = w.ask(0, PROBES2[0])
    w.close()
    if a5 == ("Q", F(9)):
        qk["F5"] = False          # innermost enclosing context (k=3)
    elif a5 == ("Q", F(6)):
        qk["F5"] = True           # the context owning the oldest context's first rule (k=2)
    else:
        notes["F5"] = f"unexpected answer {a5} to the parameter-inheritance witness"
        qk["F5"] = False
    _, f23 = run_sequence(W23b)
    found = []
    for ops, fs in ((W6, f6), (W7, f7), (W8, f8), (W23b, f23)):
        for key, desc, n in fs:
            found.append((key, desc, [op_json(o) for o in ops[:n]]))
    return qk, notes, found


# ------------------------------------------------------------------ the check
PLAN = {
    "quick": dict(single=[("full", 3), ("lean", 4), ("core", 5), ("order", 5)], two=4, random=(150, 30)),
    "thorough": dict(single=[("full", 4), ("mid", 4), ("lean", 5), ("core", 6), ("tiny", 7), ("order", 6)], two=4, random=(1500, 30)),
}


def sharded_mismatches(ck, name, header, cases, budget=1500, timeout=1500):
    """differ inside Coq, like Check.coq_mismatches, but every shard gets only the interned
    definitions its own cases use.  cases: list of (term, defs dict, nodes).  Returns the indices of
    disagreeing cases (None when Coq itself failed)."""
    import concurrent.futures as cf
    import re
    from .common import NCPU
    order = sorted(range(len(cases)), key=lambda i: -cases[i][2])
    nshards = max(1, min(len(cases), max(2 * NCPU, sum(c[2] for c in cases) // budget)))
    shards = [[] for _ in range(nshards)]
    load = [0] * nshards
    for i in order:                       # greedy balancing by node count
        j = load.index(min(load))
        shards[j].append(i)
        load[j] += cases[i][2]

    def one(si):
        idx = shards[si]
        defs = {}
        for i in idx:
            defs.update(cases[i][1])
        body = (header + "\n".join(defs[k] for k in sorted(defs)) + "\nDefinition cases := "
                + coq_list([cases[i][0] for i in idx]) + ".\n"
                "Definition bad := filter (fun ib : N * bool => negb (snd ib)) "
                "(imap (fun i c => (N.of_nat i, c12_ok c)) cases).\n"
                'Goal True. let r := eval vm_compute in (map fst bad) in idtac "@@BAD" r. exact I. Qed.\n')
        rc, out = ck.coq_eval(f"{name}_{si}", body, timeout)
        if rc != 0 or "@@BAD" not in out:
            return si, None, out
        txt = out.split("@@BAD", 1)[1]
        return si, [idx[int(x)] for x in re.findall(r"(\d+)%N", txt)], out

    bad = []
    with cf.ThreadPoolExecutor(max_workers=NCPU) as ex:
        for si, b, out in ex.map(one, range(nshards)):
            if b is None:
                ck.broken.append(f"model evaluation failed for {name} shard {si}: {out[-600:]}")
                return None
            bad += b
    return sorted(bad)


def linear_case(seq, two=False, fast=False):
    """one Coq case for one operation sequence (observations after every step)"""
    it = Interner()
    t = []
    if two:
        steps = run_world2(seq)
        for (r, op), (out, ob) in reversed(list(zip(seq, steps))):
            t = [coq_node(r, op, out, ob, (0, 1), t, it)]
        return f"KRun SUv2 {coq_list(t)}", it.defs, len(seq)
    steps, _ = run_sequence(seq, fast=fast)
    for op, (out, ob) in reversed(list(zip(seq, steps))):
        t = [coq_node(0, op, out, ob, (0,), t, it)]
    return f"KRun SUv {coq_list(t)}", it.defs, len(seq)


def subtree_sequences(prefix, alphabet, depth, two=False):
    """every operation sequence of the case rooted at `prefix` (same pruning as the exploration)"""
    out = []

    def go(seq):
        out.append(list(seq))
        if len(seq) >= depth:
            return
        if two:
            steps = run_world2(seq)
            res, ob = steps[-1]
            if res[0] == "invalid":
                return
            for r, op in alphabet:
                if op[0] in ("exit", "raise") and not ob["regs"][r]["frames"]:
                    continue
                go(seq + [(r, op)])
        else:
            steps, _ = run_sequence(seq, fast=len(seq) > 2)
            res, ob = steps[-1]
            if res[0] == "invalid":
                return
            for op in alphabet:
                if op[0] in ("exit", "raise") and not ob["regs"][0]["frames"]:
                    continue
                go(seq + [op])

    for i in range(1, len(prefix)):
        out.append(list(prefix[:i]))
    go(list(prefix))
    return out


def pinpoint(ck, header, desc):
    """shortest operation sequence of a disagreeing case on which model and implementation differ"""
    if desc.get("random"):
        ops = [op_unjson(o) for o in desc["ops"]]
        seqs, two = [ops[:i] for i in range(1, len(ops) + 1)], False
    elif desc.get("two_registries"):
        pre = [(r, op_unjson(o)) for r, o in desc["prefix"]]
        seqs, two = subtree_sequences(pre, ALPHABET2, desc["depth"], two=True), True
    else:
        pre = [op_unjson(o) for o in desc["prefix"]]
        seqs, two = subtree_sequences(pre, ALPHABET[desc["alphabet"]], desc["depth"]), False
    cases = [linear_case(q, two) for q in seqs]
    bad = sharded_mismatches(ck, "c12_pin", header, cases)
    if not bad:
        return None, two
    best = min(bad, key=lambda i: len(seqs[i]))
    return seqs[best], two


def run(ck):
    import multiprocessing as mp
    plan = PLAN[ck.tier]
    ck.rule = ("breadth-first exhaustive: every operation sequence over the alphabets "
               + ", ".join(f"{a}({len(ALPHABET[a])} ops) to length {d}" for a, d in plan["single"])
               + " (with_exit / raise_inside only while a with-block is open), each on a fresh Fraction registry built from "
               f"{len(UNITS) + 1} generated definition lines with a pool of contexts ra(rules) rb(redefinitions) rc(both) rf(redefinitions in conflict with rb) rd(invalid redefinition: ValueError) re(invalid redefinition: AssertionError); "
               "after EVERY step the active names, len(_units.maps), len(_caches), open blocks, the shared Context objects and the answers to "
               f"{len(PROBES)} probes are compared with the Coq model inside Coq; two registries sharing the Context objects to length {plan['two']}; "
               f"{plan['random'][0]} random sequences of length {plan['random'][1]} with explicit probes. "
               "non-trivial = distinct operation sequence (tree node) containing at least one activation")
    ck.assumptions += [
        "conversion / root-unit memo contents are not part of the model state (a stale memo shows up as a disagreement of answers)",
        "context rules are monomials value*c*p^(+-1)*units and the rule graphs have unique shortest paths (path choice is C11's)",
        "unit names without prefixes, symbols or plural forms (name resolution is C08's)",
        "single-threaded use of the registry",
    ]
    ck.extra["theorem_status"] = {
        "full (every quirk setting, no bound)": ["C12_active_is_stack", "C12_activation_pure_on_context"],
        "guarded by defect switches off (proved), refuted for pint as it is": {
            "C12_exit_restores / C12_block_restores": "guard q_rebuild_on_hit=false (F110); get_base_units additionally q_base_cache_ctx_blind=false (F7); C12_exit_restores_refuted, C12_exit_restores_base_refuted",
            "C12_failed_activation_atomic": "guard q_partial_activation=false (F6) and q_rebuild_on_hit=false; C12_failed_activation_atomic_refuted",
            "C12_shared_context_unmodified / C12_other_registry_unaffected": "guard q_rewrite_shared=false (F8); C12_shared_context_unmodified_refuted, C12_other_registry_refuted"},
        "guarded by q_rebuild_on_hit=false, histories without define": ["C12_answers_determined_by_stack"],
        "repaired model (all switches off)": ["C12_exit_restores_repaired", "C12_failed_activation_atomic_repaired"],
        "non-vacuity": ["C12_active_is_stack_nonvacuous", "C12_exit_restores_nonvacuous", "C12_failed_activation_nonvacuous", "C12_answers_determined_nonvacuous"],
    }
    t0 = time.time()
    qk, notes, wfound = detect_quirks(ck)
    ck.extra["defect_switches_selected"] = qk
    for k, v in notes.items():
        ck.broken.append(f"witness {k}: {v}")
    ck.coq_build(["Properties/C12.vo", "Model/CtxStateRun.vo"])
    ck.extra["build_s"] = round(time.time() - t0, 1)
    t0 = time.time()
    header = (coq_setup(qk) + "Definition SUv2 := SU (su_qk SUv) (su_cfgs SUv) (su_bases SUv) (su_objs SUv) ["
              + "; ".join(coq_probe(p) for p in PROBES_W2) + "].\n")
    findings = {}

    def add_findings(fs):
        for key, (desc, ops) in fs.items():
            if key not in findings or len(findings[key][1]) > len(ops):
                findings[key] = (desc, ops)

    add_findings({k: (d, o) for k, d, o in wfound})
    cases = []       # (term, defs, nodes, description)
    nontrivial = 0
    # ---------------------------------------------------------- corpus first
    from .common import VERIF
    ncorpus = 0
    for f in sorted((VERIF / "corpus" / "C12").glob("*.json")):
        for item in json.load(open(f)).get("sequences", []):
            two = bool(item.get("two"))
            seq = [(r, op_unjson(o)) for r, o in item["ops"]] if two else [op_unjson(o) for o in item["ops"]]
            term, defs, n = linear_case(seq, two)
            cases.append((term, defs, n, {"corpus": f.name, "why": item.get("why"), "two_registries": two, "random": not two,
                                          "ops": item["ops"], "prefix": item["ops"], "depth": len(seq)}))
            if two:
                add_findings(explore2_subtree((seq, len(seq)))[3])
            else:
                add_findings({k: (d, [op_json(o) for o in seq[:m]]) for k, d, m in run_sequence(seq)[1]})
            ncorpus += 1
            ck.evaluations += n
    ck.count("corpus sequences", ncorpus)
    with mp.Pool(min(os.cpu_count() or 4, 16)) as pool:
        jobs = []
        for aname, depth in plan["single"]:
            alphabet = ALPHABET[aname]
            prefixes = valid_prefixes(alphabet, 2 if depth <= 5 else 3)
            jobs.append((aname, depth, pool.map_async(explore_subtree, [(p, alphabet, depth) for p in prefixes], chunksize=1)))
        pre2 = [[a, b] for a in ALPHABET2 if a[1][0] not in ("exit", "raise") for b in ALPHABET2
                if not (b[1][0] in ("exit", "raise") and not (a[1][0] == "with" and a[0] == b[0]))]
        job2 = pool.map_async(explore2_subtree, [(p, plan["two"]) for p in pre2], chunksize=1)
        nr, ln = plan["random"]
        jobr = pool.map_async(run_random, [(ck.seed * 1000003 + i, ln) for i in range(nr)], chunksize=4)
        for aname, depth, job in jobs:
            total = 0
            for prefix, term, defs, fs, n, nt in job.get():
                cases.append((term, defs, n, {"alphabet": aname, "depth": depth, "prefix": [op_json(o) for o in prefix]}))
                add_findings(fs)
                total += n
                nontrivial += nt
            ck.count(f"exhaustive {aname} depth {depth}: nodes", total)
            ck.extra.setdefault("exhaustive_nodes", {})[f"{aname}:{depth}"] = total
            ck.evaluations += total
        total = 0
        for prefix, term, defs, fs, n in job2.get():
            cases.append((term, defs, n, {"two_registries": True, "depth": plan["two"], "prefix": [[r, op_json(o)] for r, o in prefix]}))
            add_findings(fs)
            total += n
        ck.count("two registries: nodes", total)
        ck.evaluations += total
        for ops, term, defs, found in jobr.get():
            cases.append((term, defs, ln, {"random": True, "ops": ops}))
            add_findings({k: (d, ops[:n]) for k, d, n in found})
        ck.count("random sequences", nr)
        ck.evaluations += nr * ln
    ck.extra["impl_side_s"] = round(time.time() - t0, 1)
    # every tree node is a distinct operation sequence; non-trivial ones contain an activation
    ck.nontrivial = set(range(nontrivial + total + nr))
    ck.samples = [cases[i][3] for i in range(0, len(cases), max(1, len(cases) // 6))][:8]

    # ---------------------------------------------------------- differ inside Coq
    t1 = time.time()
    bad = sharded_mismatches(ck, "c12", header, [(c[0], c[1], c[2]) for c in cases])
    ck.extra["model_side_s"] = round(time.time() - t1, 1)
    ck.extra["model_vs_impl_cases"] = len(cases)
    ck.extra["model_vs_impl_nodes"] = sum(c[2] for c in cases)
    ck.extra["model_vs_impl_disagreements"] = None if bad is None else len(bad)

    for key, (desc, ops) in sorted(findings.items()):
        ck.violation(key, desc, {"ops": ops, "two_registries": key.startswith("shared-context:interference")})
    if bad:
        term, defs, n, desc = cases[bad[0]]
        seq, two = pinpoint(ck, header, desc)
        shown = ""
        if seq is not None:
            flat = []
            for r, o in (seq if two else [(0, o) for o in seq]):
                if o[0] == "deco":     # decorator form = enter + exit / raise in the model
                    flat += [(r, ("with", (o[1],), o[2])), (r, ("raise",) if o[3] else ("exit",))]
                else:
                    flat.append((r, o))
            ops_txt = coq_list([f"({coq_bool(r == 1)}, {coq_op(o)})" for r, o in flat])
            shown = ck.coq_show(header, f"model_obs {'SUv2' if two else 'SUv'} {ops_txt} false")
            w = World(two)
            for x in seq:
                if not two and x[0] == "deco":
                    last = w.deco(0, x, lambda: w.obs(sweep=False))
                    last = (last[0], last[1], last[3]) if last[0] == "deco" else last
                else:
                    last = w.do(*(x if two else (0, x)))
            impl = (last, w.obs(regs=(0, 1) if two else (0,), probes=PROBES_W2 if two else PROBES))
            w.close()
        if all(ck._match_known(k) for k in findings):
            ck.violation("correspondence", "model and implementation disagree; no (new) property oracle failed",
                         {"first_disagreeing_case": desc, "n_disagreeing_cases": len(bad), "correspondence": True,
                          "two_registries": two, "ops": None if seq is None else ([[r, op_json(o)] for r, o in seq] if two else [op_json(o) for o in seq]),
                          "implementation (last outcome, observations of registry 1)": None if seq is None else str(impl),
                          "model (active, layers, caches, answers of registry 1)": shown}, no_input=True)
        ck.broken.append(f"correspondence Model.CtxStateRun.c12_ok: {len(bad)} disagreeing cases, first: {json.dumps(desc)[:300]}")


def replay(ck, path):
    d = json.load(open(path))
    rp = d.get("replay", {})
    print(json.dumps(d, indent=1)[:4000])
    ops = rp.get("ops")
    if not ops:
        return 0
    if rp.get("correspondence"):
        qk, _, _ = detect_quirks(ck)
        header = (coq_setup(qk) + "Definition SUv2 := SU (su_qk SUv) (su_cfgs SUv) (su_bases SUv) (su_objs SUv) ["
                  + "; ".join(coq_probe(p) for p in PROBES_W2) + "].\n")
        two = bool(rp.get("two_registries"))
        seq = [(r, op_unjson(o)) for r, o in ops] if two else [op_unjson(o) for o in ops]
        bad = sharded_mismatches(ck, "c12_replay", header, [linear_case(seq, two)])
        print("defect switches:", qk)
        print("model and implementation", "DISAGREE" if bad or bad is None else "agree", "on", seq)
        return 1 if bad or bad is None else 0
    if rp.get("two_registries"):
        seq = [(r, op_unjson(o)) for r, o in ops]
        steps = run_world2(seq)
        for (r, op), st in zip(seq, steps):
            print(r, op, st[0], {k: (v["active"], v["answers"]) for k, v in st[1]["regs"].items()})
        _, _, _, fs, _ = explore2_subtree((seq, len(seq)))
        found = [(k, v[0]) for k, v in fs.items()]
    else:
        seq = [op_unjson(o) for o in ops]
        steps, found = run_sequence(seq)
        for op, (out, ob) in zip(seq, steps):
            print(op, out, ob["regs"][0]["active"], ob["regs"][0]["layers"], ob["regs"][0]["answers"])
    for f in found:
        print("ORACLE", f[0], f[1])
    return 1 if any(f[0] == d.get("key") for f in found) else 0
