"""C13 — answers do not depend on query history: caches are transparent.

Theorems: coq/Properties/C13.v over the state machine coq/Model/Cache.v (every memo of pint as a
finite map; invariant by induction over arbitrary histories; define_conservative; _refuted /
_guarded for F3 F7 F9 F100 F101 F102 F103; registries_isolated).

Correspondence K (coq/Model/CacheRun.v) and the property's own oracle, on the REAL default
registry (Fraction numeric type):
  * random histories (length 40 quick / 200 thorough) and bounded-exhaustive ones (every sequence
    of length <= 3 quick / 4 thorough over a 12-operation alphabet, explored as a tree by fork());
  * after EACH step the real registry's answer is compared
      (a) inside Coq with the model's answer (Cache.step with the quirks the witnesses select),
      (b) with a FRESH real registry brought to the same declarative state — built from
          definition FILES containing the same definitions (default_en.txt + the defined lines),
          same contexts enabled, same default system — that is asked this one question and nothing
          else (every oracle question runs in a fork()ed copy of a never-queried registry);
  * a second registry is created / used at random points (isolation); an oracle-only stream adds
    formatting, to_compact, Quantity.to and a context with transformation rules.
A discrepancy (b) is minimised (greedy removal of operations, re-checked against the oracle) and
keyed by the pattern of operation kinds that remains, e.g. history:define→get_compatible_units.
"""
import json
import logging
import os
import pickle
import random
import shutil
import sys
import tempfile
import time
from fractions import Fraction as F

from .common import NCPU, REPO, coq_list, coq_str

logging.getLogger("pint").setLevel(logging.CRITICAL)

# ------------------------------------------------------------------ pools
DEFS = {
    "smoot": dict(line="smoot = 67 * inch = smt",
                  coq='(mkud "smoot" (Some "smt") [] 67 1 [("inch", mkq 1 1)] false)', keys=["smoot", "smt"]),
    "blip": dict(line="blip = 2 * foot", coq='(mkud "blip" None [] 2 1 [("foot", mkq 1 1)] false)', keys=["blip"]),
    "zork": dict(line="zork = [zorkiness]", coq='(mkud "zork" None [] 1 1 [("[zorkiness]", mkq 1 1)] true)', keys=["zork"]),
    # a DIFFERENT definition of blip, given to the second registry only (isolation stream)
    "blip_t": dict(line="blip = 5 * second", coq='(mkud "blip" None [] 5 1 [("second", mkq 1 1)] false)', keys=["blip"]),
    # a new name that gives an OLD spelling an earlier prefixed reading: 'dam' = deca+meter becomes deci+am
    "am": dict(line="am = 5 * second", coq='(mkud "am" None [] 5 1 [("second", mkq 1 1)] false)', keys=["am"]),
    # new PREFIXES: beyond quetta, below quecto, a second name for 1e3
    "bronto": dict(line="bronto- = 1e33 = Br-", prefix=True, keys=["bronto", "Br"],
                   coq='(mkpd "bronto" (Some "Br") (10 ^ 33)%Z 1)'),
    "tiny": dict(line="tiny- = 1e-33", prefix=True, keys=["tiny"], coq='(mkpd "tiny" None 1 (10 ^ 33)%positive)'),
    "thousand": dict(line="thousand- = 1e3", prefix=True, keys=["thousand"], coq='(mkpd "thousand" None 1000 1)'),
}
PREFIX_DEFS = ["bronto", "tiny", "thousand"]
MAIN_DEFS = ["blip", "smoot", "zork"]
# contexts the model knows: name -> redefinitions (name, integer scale, reference)
CTX = {
    "ra": [("inch", 3, {"centimeter": 1})],
    "rb": [("yard", 1, {"meter": 1})],
    "rn": [],
    "sp": [],          # the bundled spectroscopy context: transformation rules, no redefinitions
    "boltzmann": [],   # bundled: [temperature] <-> [energy]
    "energy": [],      # bundled: [energy] <-> [mass]
}
RULES = {"sp", "boltzmann", "energy"}
REDEF = {n for n, r in CTX.items() if r}
SYSTEMS = ["mks", "imperial", "cgs"]

# unit strings; every name is multiplicative except the ones in PARSE_ONLY
US_PARSED = ["meter", "m", "km", "kilometer", "yard", "foot", "ft", "inch", "mile", "kiloinch",
             "millikiloinch", "smoot", "smt", "kilosmoot", "blip", "zork", "second", "hour",
             "km/hour", "mile/hour", "meter**2/second", "kilogram", "pound", "gram", "kph", "hertz", "joule", "kelvin", "brontometer",
             "dimensionless", ""]
US_RAW = [s for s in US_PARSED if s != "dimensionless"]
PARSE_ONLY = ["degC", "degC/hour", "kilodegC", "nosuchunit", "kiloblip", "millikilosmoot", "thousandmeter", "tinysecond", "Brm", "blip/millisecond"]
SHADOW = ["dam"]          # used by the directed shadowing histories only
ALL_STRINGS = US_PARSED + PARSE_ONLY + SHADOW      # extended below by the spellings of CI
FORMATS = ["", "~", "P", "~P", "C", "D", "H", "L", "c13x", "~c13x"]
CUSTOM_SPEC = "c13x"


def register_custom_format():
    """one custom unit format, registered once per process (before anything is fork()ed): it renders
    every name with the dimensionality the registry it is handed gives it, so that formatting with
    another registry's definitions shows"""
    import pint
    from pint.delegates.formatter._spec_helpers import REGISTERED_FORMATTERS
    if CUSTOM_SPEC in REGISTERED_FORMATTERS:
        return

    @pint.register_unit_format(CUSTOM_SPEC)
    def _format_c13x(unit, registry, **options):
        parts = []
        for name, exp in sorted(unit.items()):
            if registry is None:
                dim = "no-registry"
            else:
                try:
                    dim = "*".join(f"{k}^{v}" for k, v in sorted(registry.get_dimensionality(name).items()))
                except Exception as e:      # noqa: BLE001
                    dim = "raises " + type(e).__name__
            parts.append(f"{name}^{exp}<{dim}>")
        return " ".join(parts)
# case-insensitive questions (oracle only): (ordinary spelling that may have been looked up before, other letter case)
CI = [("kiloinch", "KILOINCH"), ("kiloinch", "Kiloinch"), ("millisecond", "MILLISECOND"), ("kilometer", "KiloMeter"),
      ("meter", "METER"), ("inch", "Inch"), ("kilosmoot", "KILOSMOOT"), ("microfoot", "MICROFOOT")]
ALL_STRINGS = ALL_STRINGS + [w for w, _ in CI if w not in ALL_STRINGS]


def canon_num(x):
    if x is None:
        return None
    if isinstance(x, bool):
        return "float"
    if isinstance(x, (int, F)):
        return F(x)
    return "float"


def ucd(c):
    return {str(k): F(v) for k, v in c.items()}


def err_kind(e):
    import pint
    if isinstance(e, pint.errors.DimensionalityError):
        return "KDim"
    if isinstance(e, pint.errors.UndefinedUnitError):
        return "KUndef"
    if isinstance(e, pint.errors.OffsetUnitCalculusError):
        return "KOffset"
    if isinstance(e, ValueError):
        return "KValue"
    return "KOther"


# ------------------------------------------------------------------ registries
# context PAIRS that agree on everything (name or anonymity, no rules, no defaults, ONE redefinition) but
# redefine the same unit to different values; 'rx' is registered with the first variant and can be
# replaced (remove_context + add_context) by a same-named context holding another one
CTX_VARIANTS = {"p500": 500, "p250": 250}


def make_ctx(name, variant):
    import pint
    c = pint.Context(name) if name else pint.Context()
    c.redefine(f"pound = {CTX_VARIANTS[variant]} * gram")
    return c


def enable_token(ureg, token):
    """bring a registry to the declarative state 'this context is active' (tokens of World.state)"""
    if token.startswith("anon:"):
        ureg.enable_contexts(make_ctx(None, token[5:]))
    elif token.startswith("rx@"):
        if token[3:] != "p500":
            ureg.remove_context("rx")
            ureg.add_context(make_ctx("rx", token[3:]))
        ureg.enable_contexts("rx")
    else:
        ureg.enable_contexts(token)


def add_contexts(ureg):
    import pint
    ureg.add_context(make_ctx("rx", "p500"))
    for name, redefs in CTX.items():
        if name in RULES:
            continue
        c = pint.Context(name)
        for n, s, ref in redefs:
            c.redefine(f"{n} = {s} * " + " * ".join(f"{k}**{v}" for k, v in ref.items()))
        ureg.add_context(c)


FLOAT_MARK = "__float__"      # pseudo-definition in the declarative state: the registry's numeric type is float


def new_registry(filename=None, nit=F):
    import pint
    if filename is None:
        ureg = pint.UnitRegistry(non_int_type=nit, cache_folder=None)
    else:
        ureg = pint.UnitRegistry(filename, non_int_type=nit, cache_folder=None)
    add_contexts(ureg)
    return ureg


def typed_magnitude(mtype, text):
    from decimal import Decimal
    if mtype == "int":
        return int(F(text))
    if mtype == "float":
        return float(F(text))
    if mtype == "Fraction":
        return F(text)
    return Decimal(text)


def canon_typed(x):
    """a magnitude WITH its Python type (floats to 12 significant digits: never compared bit for bit)"""
    from decimal import Decimal
    t = type(x).__name__
    if isinstance(x, bool):
        return (t, str(x))
    if isinstance(x, (int, F, Decimal)):
        return (t, str(x))
    if isinstance(x, float):
        return (t, f"{x:.12g}")
    return (t, "?")


class World:
    """the registry under test (a fork()ed copy of a never-queried registry), the optional second
    registry, the tracked quantity, and the declarative state"""

    def __init__(self, base):
        self.regs = [base, None]
        self.q = [None, None]
        self.rxvar = ["p500", "p500"]
        self.state = [(), (), "mks"], [(), (), "mks"]      # defs (sorted tuple), active (oldest first), default system

    def decl(self, r):
        d, a, s = self.state[r]
        return (tuple(d), tuple(a), s)

    def do(self, r, op):
        """apply op to registry r; returns the canonical answer"""
        import numpy as np
        ureg = self.regs[r]
        st = self.state[r]
        k = op[0]
        try:
            if k == "convert":
                return ("num", canon_num(ureg.convert(F(1), op[1], op[2])))
            if k == "parse":
                return ("unit", ucd(ureg.parse_units(op[1])._units))
            if k == "parse_ci":
                return ("unit", ucd(ureg.parse_units(op[1], case_sensitive=False)._units))
            if k == "root":
                f, u = ureg.get_root_units(op[1])
                return ("fac", canon_num(f), ucd(u._units))
            if k == "dim":
                return ("dim", ucd(ureg.get_dimensionality(op[1])))
            if k == "base":
                f, u = ureg.get_base_units(op[1], system=op[2])
                return ("fac", canon_num(f), ucd(u._units))
            if k == "compat":
                return ("names", sorted(next(iter(u._units)) for u in ureg.get_compatible_units(op[1])))
            if k == "define":
                ureg.define(DEFS[op[1]]["line"])
                st[0] = tuple(sorted(set(st[0]) | {op[1]}))
                return ("done",)
            if k == "enable_anon":
                ureg.enable_contexts(make_ctx(None, op[1]))
                st[1] = st[1] + ("anon:" + op[1],)
                return ("done",)
            if k == "readd":
                ureg.remove_context("rx")
                ureg.add_context(make_ctx("rx", op[1]))
                self.rxvar[r] = op[1]
                return ("done",)
            if k == "enable":
                ureg.enable_contexts(op[1])
                st[1] = st[1] + ((op[1] + "@" + self.rxvar[r]) if op[1] == "rx" else op[1],)
                return ("done",)
            if k == "disable":
                ureg.disable_contexts(1)
                st[1] = st[1][:-1]
                return ("done",)
            if k == "setsys":
                ureg.default_system = op[1]
                st[2] = op[1]
                return ("done",)
            if k == "qnew":
                self.q[r] = ureg.Quantity(np.array([1.0, 2.0]), op[1])
                return ("done",)
            if k == "qimul":
                if self.q[r] is None:
                    return ("err", "KOther")
                other = ureg.Quantity(1, op[1])
                self.q[r] *= other
                return ("done",)
            if k == "qdim":
                if self.q[r] is None:
                    return ("err", "KOther")
                return ("dim", ucd(self.q[r].dimensionality))
            if k == "qcheck":
                if self.q[r] is None:
                    return ("err", "KOther")
                return ("str", str(self.q[r].check(op[1])))
            # ---- oracle-only questions
            if k == "fmt":
                return ("str", format(ureg.parse_units(op[1]), op[2]))
            if k == "qfmt":
                return ("str", format(ureg.Quantity(F(op[2]), op[1]), op[3]))
            if k == "compact":
                x = ureg.Quantity(F(op[2]), op[1]).to_compact()
                return ("str", str((canon_num(x.magnitude), sorted(ucd(x._units).items()))))
            if k == "to":
                x = ureg.Quantity(F(op[3]), op[1]).to(op[2])
                return ("str", str((canon_num(x.magnitude), sorted(ucd(x._units).items()))))
            if k == "tconvert":
                return ("typed", canon_typed(ureg.convert(typed_magnitude(op[3], op[4]), op[1], op[2])))
            if k == "tto":
                x = ureg.Quantity(typed_magnitude(op[3], op[4]), op[1]).to(op[2])
                return ("typed", canon_typed(x.magnitude), sorted(ucd(x._units).items()))
            if k == "tcompact":
                x = ureg.Quantity(typed_magnitude(op[2], op[3]), op[1]).to_compact()
                return ("typed", canon_typed(x.magnitude), sorted(ucd(x._units).items()))
            if k == "compatible":
                return ("str", str(ureg.is_compatible_with(op[1], op[2])))
            if k == "contains":
                return ("str", str(op[1] in ureg))
            raise RuntimeError("unknown op " + repr(op))
        except Exception as e:      # noqa: BLE001 — every exception class is an observable outcome
            return ("err", err_kind(e))

    def step(self, op):
        """top-level operation: ('other', op) goes to the second registry, ('mkother',) creates it"""
        if op[0] == "usefloat":
            # the registry under test is the (never queried) FLOAT registry; only as first operation
            self.regs[0] = BASE_FLOAT
            self.q[0] = None
            self.state[0][:] = [(FLOAT_MARK,), (), "mks"]
            return 0, ("done",)
        if op[0] == "mkother":
            self.regs[1] = new_registry()
            self.q[1] = None
            self.state[1][:] = [(), (), "mks"]
            self.rxvar[1] = "p500"
            return 1, ("done",)
        if op[0] == "other":
            if self.regs[1] is None:
                self.regs[1] = new_registry()
            return 1, self.do(1, op[1])
        return 0, self.do(0, op)

    def qunits(self, r):
        return None if self.q[r] is None else ucd(self.q[r]._units)


def forked(fn, *args):
    """run fn(*args) in a fork()ed child; returns its (pickled) result"""
    rd, wr = os.pipe()
    pid = os.fork()
    if pid == 0:
        code = 0
        try:
            os.close(rd)
            data = pickle.dumps(("ok", fn(*args)))
        except BaseException as e:      # noqa: BLE001
            import traceback
            data = pickle.dumps(("exc", traceback.format_exc() + repr(e)))
            code = 1
        try:
            with os.fdopen(wr, "wb") as f:
                f.write(data)
        finally:
            os._exit(code)
    os.close(wr)
    with os.fdopen(rd, "rb") as f:
        data = f.read()
    os.waitpid(pid, 0)
    tag, val = pickle.loads(data)
    if tag != "ok":
        raise RuntimeError("child failed: " + val)
    return val


def parallel(fn, tasks, nproc=None):
    """map fn over tasks in up to nproc fork()ed workers (each worker is a copy of this process)"""
    nproc = max(1, min(nproc or NCPU, len(tasks)))
    if not tasks:
        return []
    chunks = [tasks[i::nproc] for i in range(nproc)]
    pipes = []
    for ch in chunks:
        rd, wr = os.pipe()
        pid = os.fork()
        if pid == 0:
            code = 0
            try:
                os.close(rd)
                data = pickle.dumps(("ok", [fn(t) for t in ch]))
            except BaseException as e:      # noqa: BLE001
                import traceback
                data = pickle.dumps(("exc", traceback.format_exc() + repr(e)))
                code = 1
            try:
                with os.fdopen(wr, "wb") as f:
                    f.write(data)
            finally:
                os._exit(code)
        os.close(wr)
        pipes.append((pid, rd))
    outs = []
    for pid, rd in pipes:
        with os.fdopen(rd, "rb") as f:
            data = f.read()
        os.waitpid(pid, 0)
        tag, val = pickle.loads(data)
        if tag != "ok":
            raise RuntimeError("worker failed: " + val)
        outs.append(val)
    res = [None] * len(tasks)
    for i, ch in enumerate(outs):
        for j, v in enumerate(ch):
            res[i + j * nproc] = v
    return res


# ------------------------------------------------------------------ the fresh-registry oracle
class Fresh:
    """answers of a freshly built registry.  One SERVER PROCESS per set of definitions: it builds
    its registry from definition files (default_en.txt + the defined lines), never queries it, and
    answers every question in a fork()ed copy after enabling the contexts and setting the default
    system.  Registries of different declarative states therefore never share a process image
    with each other or with the registries under test."""

    def __init__(self):
        self.dir = tempfile.mkdtemp(prefix="c13_")
        for n in ("default_en.txt", "constants_en.txt"):
            shutil.copy(REPO / "pint" / n, os.path.join(self.dir, n))
        self.servers = {}
        self.memo = {}
        self.builds = 0
        self.asked = 0

    def close(self):
        for defs, (pid, w, r, lock) in self.servers.items():
            try:
                os.write(w, (0).to_bytes(8, "big"))
                os.close(w)
                os.close(r)
                os.waitpid(pid, 0)
            except OSError:
                pass
        self.servers = {}
        shutil.rmtree(self.dir, ignore_errors=True)

    def deffile(self, defs):
        fn = os.path.join(self.dir, "reg_" + "_".join(defs) + ".txt")
        if not os.path.exists(fn):
            with open(fn, "w") as f:
                f.write("@import default_en.txt\n" + "".join(DEFS[d]["line"] + "\n" for d in defs if d != FLOAT_MARK))
        return fn

    def build(self, defs):
        """a file-built registry in THIS process (used by throw-away children only)"""
        return new_registry(self.deffile(tuple(defs)), float if FLOAT_MARK in defs else F)

    def server(self, defs):
        defs = tuple(defs)
        if defs in self.servers:
            return
        fn = self.deffile(defs)
        c2p_r, c2p_w = os.pipe()
        p2c_r, p2c_w = os.pipe()
        pid = os.fork()
        if pid == 0:
            try:
                os.close(c2p_r)
                os.close(p2c_w)
                self._serve(fn, p2c_r, c2p_w, float if FLOAT_MARK in defs else F)
            finally:
                os._exit(0)
        os.close(c2p_w)
        os.close(p2c_r)
        self.servers[defs] = (pid, p2c_w, c2p_r, os.path.join(self.dir, "lock_" + "_".join(defs)))
        self.builds += 1

    def _serve(self, fn, rfd, wfd, nit=F):
        ureg = new_registry(fn, nit)
        while True:
            hdr = _readn(rfd, 8)
            n = int.from_bytes(hdr, "big") if len(hdr) == 8 else 0
            if n == 0:
                return
            tasks = pickle.loads(_readn(rfd, n))
            res = parallel(lambda t: self._ask(ureg, t), tasks, nproc=4)
            out = pickle.dumps(res)
            os.write(wfd, len(out).to_bytes(8, "big"))
            _writeall(wfd, out)

    def prebuild(self):
        """a server for every set of definitions (so that fork()ed workers can use all of them)"""
        import itertools
        self.server((FLOAT_MARK,))
        names = sorted(DEFS)
        for n in range(len(names) + 1):
            for c in itertools.combinations(names, n):
                if (not ("blip" in c and "blip_t" in c) and ("am" not in c or len(c) == 1)
                        and (not any(x in PREFIX_DEFS for x in c) or len(c) == 1)):
                    self.server(c)

    @staticmethod
    def _ask(ureg, task):
        (active, system), q = task

        def child():
            import numpy as np
            for c in active:
                enable_token(ureg, c)
            if system != "mks":
                ureg.default_system = system
            w = World(ureg)
            if q[0] in ("qdim_of", "qcheck_of"):
                try:
                    qq = ureg.Quantity(np.array([1.0, 2.0]), ureg.UnitsContainer({k: (int(v) if v.denominator == 1 else v) for k, v in q[1].items()}))
                    if q[0] == "qdim_of":
                        return ("dim", ucd(qq.dimensionality))
                    return ("str", str(qq.check(q[2])))
                except Exception as e:      # noqa: BLE001
                    return ("err", err_kind(e))
            return w.do(0, q)
        return forked(child)

    def _call(self, groups):
        """groups: {defs: [task, ...]} -> {defs: [answer, ...]}; requests go out to all servers
        first, then the replies are collected; one lock per server (workers share the pipes)"""
        import fcntl
        locks = []
        try:
            for defs in sorted(groups):
                pid, w, r, lock = self.servers[defs]
                lf = open(lock, "w")
                fcntl.flock(lf, fcntl.LOCK_EX)
                locks.append(lf)
                out = pickle.dumps(groups[defs])
                os.write(w, len(out).to_bytes(8, "big"))
                _writeall(w, out)
            res = {}
            for defs in sorted(groups):
                pid, w, r, lock = self.servers[defs]
                n = int.from_bytes(_readn(r, 8), "big")
                res[defs] = pickle.loads(_readn(r, n))
            return res
        finally:
            for lf in locks:
                fcntl.flock(lf, fcntl.LOCK_UN)
                lf.close()

    def answers(self, tasks):
        """tasks: list of ((defs, active, system), question); returns the fresh answers (memoised)"""
        groups, seen = {}, set()
        for t in tasks:
            k = repr(t)
            if k not in self.memo and k not in seen:
                seen.add(k)
                (defs, active, system), q = t
                groups.setdefault(tuple(defs), []).append(((tuple(active), system), q))
        if groups:
            for defs in groups:
                self.server(defs)
            res = self._call(groups)
            for defs, ts in groups.items():
                for ((active, system), q), a in zip(ts, res[defs]):
                    self.memo[repr(((defs, active, system), q))] = a
                    self.asked += 1
        return [self.memo[repr(((tuple(t[0][0]), tuple(t[0][1]), t[0][2]), t[1]))] for t in tasks]

    def answer(self, state, q):
        return self.answers([(state, q)])[0]


def _readn(fd, n):
    buf = b""
    while len(buf) < n:
        c = os.read(fd, n - len(buf))
        if not c:
            break
        buf += c
    return buf


def _writeall(fd, data):
    mv = memoryview(data)
    while len(mv):
        k = os.write(fd, mv[:65536])
        mv = mv[k:]


QUERY_KINDS = {"tconvert", "tto", "tcompact", "convert", "parse", "parse_ci", "root", "dim", "base", "compat", "qdim", "qcheck", "fmt", "qfmt", "compact", "to",
               "compatible", "contains"}


def oracle_question(op, qunits):
    """the question put to the fresh registry for a real operation (None: nothing to ask)"""
    if op[0] == "qdim":
        return None if qunits is None else ("qdim_of", qunits)
    if op[0] == "qcheck":
        return None if qunits is None else ("qcheck_of", qunits, op[1])
    if op[0] in QUERY_KINDS:
        return op
    return None


# ------------------------------------------------------------------ histories on the real registry
BASE = None          # never-queried registry; histories run in fork()ed copies
BASE_FLOAT = None    # the same with float as numeric type


def run_history(ops):
    """returns per step: (registry index, answer, declarative state BEFORE the op, units of the tracked quantity)"""
    def child():
        w = World(BASE)
        out = []
        for op in ops:
            inner = op[1] if op[0] == "other" else op
            r = 1 if op[0] in ("other", "mkother") else 0
            if r == 1 and w.regs[1] is None and op[0] == "other":
                w.regs[1] = new_registry()
            before = w.decl(r)
            qu = w.qunits(r)
            rr, ans = w.step(op)
            out.append((rr, ans, before, qu, inner))
        return out
    return forked(child)


def explore(alphabet, depth, prefix, precreate=False):
    """all histories prefix + (<= depth-len(prefix) further ops), as a tree; fork() at every node.
    Returns the tree below prefix: list of nodes (op, r, ans, before, qunits, kids).
    precreate: the second registry exists from the start (built once, not at every first use)"""
    def child():
        w = World(BASE)
        if precreate:
            w.regs[1] = new_registry()
        recs = []
        for op in prefix:
            r = 1 if op[0] in ("other", "mkother") else 0
            if r == 1 and w.regs[1] is None and op[0] == "other":
                w.regs[1] = new_registry()
            before = w.decl(r)
            qu = w.qunits(r)
            rr, ans = w.step(op)
            recs.append((op, rr, ans, before, qu))

        def kids(level):
            if level >= depth:
                return []
            out = []
            for op in alphabet:
                def one(op=op):
                    r = 1 if op[0] in ("other", "mkother") else 0
                    if r == 1 and w.regs[1] is None and op[0] == "other":
                        w.regs[1] = new_registry()
                    before = w.decl(r)
                    qu = w.qunits(r)
                    rr, ans = w.step(op)
                    return (op, rr, ans, before, qu, kids(level + 1))
                out.append(forked(one))
            return out
        return recs, kids(len(prefix))
    return forked(child)


# ------------------------------------------------------------------ keys
def op_kind(op, klass, dflt="?"):
    """kind of an operation; dflt = the default system of its registry when it runs ("?" = unknown:
    every explicit system= counts).  An explicit system= equal to the default is the plain call."""
    k = op[0]
    if k == "other":
        return "other:" + op_kind(op[1], klass, dflt)
    if k == "mkother":
        return "other:create"
    if k == "usefloat":
        return "float-registry"
    if k == "enable_anon":
        return "enable[redef-anonymous]"
    if k == "readd":
        return "replace-context"
    if k in ("tconvert", "tto", "tcompact"):
        return {"tconvert": "convert", "tto": "quantity.to", "tcompact": "to_compact"}[k] + f"[{op[-2]}]"
    name = {"convert": "convert", "parse": "parse", "parse_ci": "parse[case-insensitive]", "root": "get_root_units", "dim": "get_dimensionality",
            "base": "get_base_units", "compat": "get_compatible_units", "define": "define", "enable": "enable",
            "disable": "disable", "setsys": "set_default_system", "qnew": "quantity.new", "qimul": "quantity.imul",
            "qdim": "quantity.dimensionality", "qcheck": "quantity.check", "fmt": "format", "qfmt": "format",
            "compact": "to_compact", "to": "quantity.to", "compatible": "is_compatible_with", "contains": "contains"}[k]
    if k == "base" and op[2] is not None and op[2] != dflt:
        name += "[system=]"
    if k == "setsys" and op[1] is None:
        name += "[None]"
    if k == "define" and DEFS[op[1]].get("prefix"):
        name += "[prefix]"
    if k == "enable":
        name += "[redef]" if op[1] in REDEF or op[1] == "rx" else "[rules]" if op[1] in RULES else "[plain]"
    return name


def kinds_of(ops, klass):
    """kinds along a history, tracking the default system of both registries"""
    d = ["mks", "mks"]
    out = []
    for op in ops:
        r = 1 if op[0] in ("other", "mkother") else 0
        inner = op[1] if op[0] == "other" else op
        out.append(op_kind(op, klass, d[r]))
        if op[0] == "mkother":
            d[1] = "mks"
        elif inner[0] == "setsys" and (inner[1] is None or inner[1] in SYSTEMS):
            d[r] = inner[1]
    return out


def query_qual(op, klass):
    """qualifier of the final query: the class of the strings it mentions"""
    inner = op[1] if op[0] == "other" else op
    strings = [x for x in inner[1:] if isinstance(x, str)]
    cl = {klass.get(s, "") for s in strings}
    if "doubly-prefixed" in cl:
        return "[doubly-prefixed]"
    if "shadowed" in cl:
        return "[shadowed]"
    if "defined" in cl:
        return "[defined]"
    return ""


def answer_qual(ops, real, fa):
    """what exactly differs between the two answers, where that identifies a mechanism:
    ':only-defined-units-missing' — both are compatible-units listings, the real one is the fresh one
    minus units that this very history added with define() (and nothing else differs)"""
    if real is None or fa is None or _inner(ops[-1])[0] != "compat":
        return ""
    if real[0] != "names" or fa[0] != "names":
        return ""
    r, f = set(real[1]), set(fa[1])
    defined = {DEFS[_inner(o)[1]]["keys"][0] for o in ops[:-1]
               if _inner(o)[0] == "define" and not DEFS[_inner(o)[1]].get("prefix")}
    if r < f and (f - r) <= defined:
        return ":only-defined-units-missing"
    return ""


def classify_strings():
    """class of every pool string, decided on a file-built registry that contains all of DEFS and
    was never queried (parse_unit_name does not write): 'doubly-prefixed' — some name in it is
    undefined there but reads as prefix + (prefix + unit), i.e. becomes resolvable once the inner
    prefixed name has been registered by a lookup; 'defined' — some name resolves to a unit of
    DEFS; '' otherwise.  Also returns the ParserHelper.from_string table.  Runs in a child."""
    from pint.util import ParserHelper
    fr = Fresh()
    try:
        ureg = fr.build(tuple(MAIN_DEFS))
        prefixes = [x for x in ureg._prefixes if x]
        out, tk = {}, {}
        for s in ALL_STRINGS:
            try:
                ph = ParserHelper.from_string(s, F)
                names = list(ph.keys())
                if ph.scale == 1:
                    tk[s] = [(n, F(ph[n])) for n in names]
            except Exception:      # noqa: BLE001
                names = []
            cl = ""
            for n in names:
                if n == "dimensionless":
                    continue
                cands = () if n in ureg._units else ureg.parse_unit_name(n)
                if n in ureg._units or cands:
                    uname = ureg._units[n].name if n in ureg._units else cands[0][1]
                    if uname in MAIN_DEFS and cl == "":
                        cl = "defined"
                    continue
                for p in prefixes:
                    if n.startswith(p):
                        rest = n[len(p):]
                        c = ureg.parse_unit_name(rest) if rest not in ureg._units else ()
                        if c and c[0][0]:
                            cl = "doubly-prefixed"
            out[s] = "shadowed" if s in SHADOW else cl
        return out, tk
    finally:
        fr.close()


def system_tables():
    """base-unit tables and members of the pool systems, and whether units defined outside any
    group end up in them (decided on a file-built registry with one extra definition). Child."""
    ureg = new_registry()
    fr = Fresh()
    try:
        r2 = fr.build(("smoot",))
        out = {}
        for s in SYSTEMS:
            sysobj = ureg._systems[s]
            base = {root: {k: F(v) for k, v in repl.items()} for root, repl in sysobj.base_units.items()}
            out[s] = (base, sorted(sysobj.members), "smoot" in r2._systems[s].members)
        return out
    finally:
        fr.close()


# ------------------------------------------------------------------ Coq terms
def cq(x):
    x = F(x)
    return f"(mkq ({x.numerator}) {x.denominator})"


def cul(d):
    return "[" + "; ".join(f"({coq_str(k)}, {cq(v)})" for k, v in sorted(d.items())) + "]"


def cfac(f):
    if f is None:
        return "FNone"
    if f == "float":
        return "FFloat"
    return f"(ex ({f.numerator}) {f.denominator})"


def coq_answer(a):
    t = a[0]
    if t == "unit":
        return f"(AUnit (mkuc {cul(a[1])}))"
    if t == "num":
        return f"(ANum {cfac(a[1])})"
    if t == "fac":
        return f"(AFac {cfac(a[1])} (mkuc {cul(a[2])}))"
    if t == "dim":
        return f"(ADim (mkuc {cul(a[1])}))"
    if t == "names":
        return "(ANames " + coq_list([coq_str(n) for n in a[1]]) + ")"
    if t == "done":
        return "ADone"
    if t == "err":
        return f"(AErr {a[1]})"
    return None


def copt(s):
    return "None" if s is None else f"(Some {coq_str(s)})"


def coq_op(op):
    """the model operation for a real operation, and whether its answer is comparable"""
    k = op[0]
    if k == "convert":
        return f"(OConvert (us {coq_str(op[1])}) (us {coq_str(op[2])}))", True
    if k == "parse":
        return f"(OParse {coq_str(op[1])})", True
    if k == "root":
        return f"(ORoot (us {coq_str(op[1])}))", True
    if k == "dim":
        return f"(ODim (us {coq_str(op[1])}))", True
    if k == "base":
        return f"(OBase (us {coq_str(op[1])}) {copt(op[2])})", True
    if k == "compat":
        return f"(OCompat (us {coq_str(op[1])}))", True
    if k == "define":
        if DEFS[op[1]].get("prefix"):
            return f"(ODefinePrefix {DEFS[op[1]]['coq']})", True
        return f"(ODefine {DEFS[op[1]]['coq']})", True
    if k == "enable":
        return f"(OEnable {coq_str(op[1])})", True
    if k == "disable":
        return "ODisable", True
    if k == "setsys":
        return f"(OSetSystem {copt(op[1])})", True
    if k == "qnew":
        return f"(OQNew (us {coq_str(op[1])}))", True
    if k == "qimul":
        return f"(OQImul (us {coq_str(op[1])}))", True
    if k == "qdim":
        return "OQDim", True
    return "OOther", False


def coq_node(op, ans, active_rules, kids):
    if op[0] == "mkother":
        return "Fresh2 " + coq_list(kids)
    if op[0] == "other":
        t, cmpb = coq_op(op[1])
        io = f"(true, {t})"
    else:
        t, cmpb = coq_op(op)
        io = f"(false, {t})"
    inner = op[1] if op[0] == "other" else op
    if active_rules and inner[0] in ("convert", "compat"):
        cmpb = False          # a context with transformation rules is active: not modelled
    e = coq_answer(ans) if cmpb else None
    return f"Node {io} {'None' if e is None else '(Some ' + e + ')'} " + coq_list(kids)


def header(systems, tk, qk):
    sy = "; ".join(
        f"({coq_str(n)}, mksys [" + "; ".join(f"({coq_str(r)}, mkuc {cul(repl)})" for r, repl in sorted(base.items())) + "] "
        + coq_list([coq_str(m) for m in members]) + f" {'true' if orph else 'false'})"
        for n, (base, members, orph) in systems.items())
    cx = "; ".join(f"({coq_str(n)}, [" + "; ".join(f"mkrd {coq_str(u)} ({s}) 1 {cul({k: F(v) for k, v in ref.items()})}" for u, s, ref in redefs) + "])"
                   for n, redefs in CTX.items())
    tkl = "; ".join(f"({coq_str(s)}, {cul_ordered(names)})" for s, names in tk.items())
    q = " ".join("true" if b else "false" for b in qk)
    return ("From PintV Require Import Model.UC Model.Eval Model.Registry Model.Cache Model.CacheRun Gen.DefaultDefs Gen.DefaultReg.\n"
            "Open Scope string_scope.\n"
            f"Definition systems0 := mksystems [{sy}].\n"
            f"Definition ctxs0 := mkctxs [{cx}].\n"
            f"Definition tk0 : list (string * list (string * Qc)) := [{tkl}].\n"
            f"Definition SU0 : setup := SU (QK {q}) tk0 (mkdecl systems0 ctxs0 (Some \"mks\")) default_dimeq.\n")


def cul_ordered(pairs):
    return "[" + "; ".join(f"({coq_str(k)}, {cq(v)})" for k, v in pairs) + "]"


# ------------------------------------------------------------------ generators
def random_ops(rng, n, model_only=True, with_other=True):
    ops = []
    defined_other = False
    have_q = False
    for i in range(n):
        x = rng.random()
        if x < 0.22:
            a, b = rng.choice(US_PARSED), rng.choice(US_PARSED)
            if rng.random() < 0.5:
                b = rng.choice(["meter", "foot", "inch", "yard", "mile", "km", "smoot"])
                a = rng.choice(["meter", "foot", "inch", "yard", "mile", "km", "smoot", "kiloinch", "blip", "kilosmoot"])
            op = ("convert", a, b)
        elif x < 0.32:
            op = ("parse", rng.choice(ALL_STRINGS))
        elif x < 0.40:
            op = ("root", rng.choice(US_PARSED))
        elif x < 0.46:
            op = ("dim", rng.choice(US_RAW))
        elif x < 0.58:
            op = ("base", rng.choice(US_RAW), rng.choice([None, None, None, "imperial", "mks", "cgs"]))
        elif x < 0.66:
            op = ("compat", rng.choice(US_RAW if model_only or rng.random() < 0.5 else ["meter", "hertz", "joule", "kelvin", "gram", "second"]))
        elif x < 0.71:
            op = ("define", rng.choice(MAIN_DEFS + MAIN_DEFS + PREFIX_DEFS))
        elif x < 0.79:
            op = ("enable", rng.choice(["ra", "rb", "rn", "ra", "rb"] + ([] if model_only else ["sp", "boltzmann", "energy", "sp"])))
        elif x < 0.86:
            op = ("disable",)
        elif x < 0.91:
            op = ("setsys", rng.choice(["imperial", "mks", "cgs", None]))
        elif x < 0.97:
            y = rng.random()
            if not have_q or y < 0.25:
                op = ("qnew", rng.choice(["meter", "km", "second", "smoot", "foot"]))
                have_q = True
            elif y < 0.55:
                op = ("qimul", rng.choice(["second", "meter", "hour", "km"]))
            else:
                op = ("qdim",) if model_only or rng.random() < 0.6 else ("qcheck", rng.choice(["[length]", "[time]", "[length] * [time]"]))
        else:
            op = ("mkother",) if with_other else ("disable",)
        if not model_only and rng.random() < 0.1:
            mt = rng.choice(MTYPES)
            a, b = rng.choice([("km", "meter"), ("meter", "km"), ("inch", "foot"), ("hour", "second")])
            op = rng.choice([("tto", a, b, mt, "3"), ("tconvert", a, b, mt, "3"), ("tcompact", a, mt, "1500")])
        elif not model_only and rng.random() < 0.3:
            y = rng.random()
            u = rng.choice(["meter", "km", "inch", "smoot", "mile/hour", "kiloinch", "foot", "blip", "kilosmoot"])
            if y < 0.3:
                op = ("fmt", u, rng.choice(FORMATS))
            elif y < 0.5:
                op = ("compact", rng.choice(["meter", "inch", "smoot", "foot", "second", "gram"]),
                      rng.choice(["1500", "1/1000", "3", "250000", "2e35", "3e-32", "5000"]))
            elif y < 0.7:
                op = ("to", u, rng.choice(["meter", "foot", "smoot", "km/hour", "hertz"]), rng.choice(["1", "5/2"]))
            elif y < 0.8:
                op = ("qfmt", u, rng.choice(["3", "1/2"]), rng.choice(["", "~", "~P"]))
            elif y < 0.85:
                op = ("compatible", u, rng.choice(["meter", "second", "hertz", "smoot"]))
            elif y < 0.95:
                w, q = rng.choice(CI)
                op = rng.choice([("parse", w), ("parse_ci", q), ("parse_ci", q), ("convert", w, "meter")])
            else:
                op = ("contains", rng.choice(ALL_STRINGS))
        if with_other and op[0] not in ("mkother",) and rng.random() < 0.12:
            op = ("other", op)
        ops.append(op)
    return ops


EXH_ALPHABET = [
    ("base", "foot", None), ("base", "foot", "imperial"), ("enable", "ra"), ("disable",),
    ("define", "smoot"), ("compat", "meter"), ("parse", "kiloinch"), ("parse", "millikiloinch"),
    ("convert", "smoot", "foot"), ("setsys", "imperial"), ("setsys", None), ("other", ("base", "foot", None)),
]

def isolation_histories():
    """two registries with DIFFERENT declarative states ask the same questions in turn: whatever
    is shared between registries by name (a class-level or module-level table) shows"""
    hs = []
    qs = [("convert", "blip", "meter"), ("convert", "blip", "second"), ("parse", "blip"), ("root", "blip"), ("dim", "blip"),
          ("base", "blip", None), ("compat", "blip"), ("root", "kiloblip"), ("convert", "kiloblip", "km")]
    for q in qs:
        hs.append([("define", "blip"), q, ("mkother",), ("other", ("define", "blip_t")), ("other", q), q, ("other", q)])
        hs.append([("mkother",), ("other", ("define", "blip_t")), ("other", q), ("define", "blip"), q, ("other", q), q])
    for q in [("parse", "zork"), ("dim", "zork"), ("root", "zork"), ("compat", "zork"), ("base", "zork", None), ("convert", "zork", "zork"),
              ("parse", "smt"), ("dim", "kilosmoot"), ("convert", "smoot", "meter")]:
        d = "zork" if "zork" in q[1] else "smoot"
        hs.append([("define", d), q, ("mkother",), ("other", q), q, ("other", q)])
        hs.append([("mkother",), ("other", ("define", d)), ("other", q), q, ("other", q), q])
    hs.append([("enable", "rb"), ("base", "foot", None), ("root", "foot"), ("convert", "foot", "meter"), ("mkother",),
               ("other", ("base", "foot", None)), ("other", ("root", "foot")), ("other", ("convert", "foot", "meter")), ("disable",),
               ("other", ("enable", "ra")), ("other", ("root", "inch")), ("root", "inch"), ("convert", "inch", "meter"),
               ("other", ("convert", "inch", "meter"))])
    hs.append([("setsys", "imperial"), ("base", "meter", None), ("compat", "meter"), ("mkother",), ("other", ("base", "meter", None)),
               ("other", ("compat", "meter")), ("other", ("setsys", "cgs")), ("other", ("base", "meter", None)), ("base", "meter", None)])
    hs.append([("qnew", "meter"), ("qdim",), ("mkother",), ("other", ("qnew", "second")), ("other", ("qdim",)), ("qdim",),
               ("parse", "kiloinch"), ("other", ("parse", "millikiloinch"))])
    # formatting (custom process-wide spec and built-in specs) in two registries with different definitions
    for spec in ["~c13x", "c13x", "~P", "", "~"]:
        for u in ["blip", "blip/millisecond", "kiloblip"]:
            hs.append([("define", "blip"), ("fmt", u, spec), ("mkother",), ("other", ("define", "blip_t")), ("other", ("fmt", u, spec)),
                       ("fmt", u, spec), ("qfmt", u, "3", spec), ("other", ("fmt", u, spec))])
    # case-insensitive lookup after an ordinary lookup of the same prefixed unit
    for w, q in CI:
        hs.append([("parse", w), ("parse_ci", q), ("convert", w, "meter"), ("parse_ci", q)])
        hs.append([("parse_ci", q), ("root", w), ("parse_ci", q)])
        hs.append([("enable", "ra"), ("parse", w), ("dim", w), ("disable",), ("parse_ci", q)])
        hs.append([("mkother",), ("other", ("parse", w)), ("parse_ci", q), ("other", ("parse_ci", q))])
    # a define that gives an old spelling a new reading (F104)
    for q in [("dim", "dam"), ("base", "dam", None), ("compat", "dam"), ("root", "dam"), ("parse", "dam"), ("convert", "dam", "meter")]:
        hs.append([q, ("define", "am"), q, ("root", "dam"), ("dim", "dam")])
    return hs


# the base-unit memo against systems x contexts: every sequence up to length 5 / 6
BASE_ALPHABET = [("base", "inch", None), ("base", "inch", "imperial"), ("enable", "ra"), ("disable",),
                 ("setsys", "imperial"), ("setsys", None)]


# get_compatible_units / conversions against combinations of contexts WITH transformation rules
# (compared with the fresh registry only): every sequence up to length 4 / 5
RULES_ALPHABET = [("enable", "sp"), ("enable", "boltzmann"), ("enable", "energy"), ("disable",),
                  ("compat", "meter"), ("compat", "joule"), ("compat", "kelvin"), ("to", "meter", "hertz", "1")]


# to_compact against later definitions (units and PREFIXES); compared with the fresh registry only
COMPACT_ALPHABET = [("compact", "meter", "1500"), ("compact", "meter", "2e35"), ("compact", "second", "3e-32"),
                    ("compact", "smoot", "5000"), ("define", "bronto"), ("define", "tiny"), ("define", "thousand"),
                    ("define", "smoot"), ("convert", "brontometer", "meter")]


# two registries with DIFFERENT definitions of blip, formatting with the custom (process-wide) spec
# and a built-in one in turn; compared with the fresh registry only
FORMAT2_ALPHABET = [("define", "blip"), ("other", ("define", "blip_t")),
                    ("fmt", "blip", "~c13x"), ("other", ("fmt", "blip", "~c13x")),
                    ("fmt", "blip/millisecond", "~c13x"), ("other", ("fmt", "kiloinch", "c13x")),
                    ("qfmt", "blip", "3", "~P")]


# magnitude TYPES as part of the question: the same ordered unit pair through to / convert / to_compact
# with int, float, Fraction and Decimal magnitudes; in the Fraction and in the float registry; answers
# compared with their Python type; fresh registry only
MTYPES = ["int", "float", "Fraction", "Decimal"]
TYPED_ALPHABET = ([("tto", "km", "meter", mt, "3") for mt in MTYPES]
                  + [("tconvert", "km", "meter", "Decimal", "3"), ("tconvert", "km", "meter", "float", "3"),
                     ("tcompact", "meter", "Decimal", "1500"), ("tcompact", "meter", "int", "1500")])


# pairs of DISTINCT contexts that agree on everything but the value of their one redefinition, enabled one
# after the other (both orders come with the tree); compared with the fresh registry only
CTXPAIR_ALPHABET = [("enable_anon", "p500"), ("enable_anon", "p250"), ("disable",),
                    ("convert", "stone", "gram"), ("base", "stone", None), ("root", "stone")]


def context_replacement_histories():
    """remove_context + add_context of a same-named context with another redefinition, around queries"""
    hs = []
    for q in [("convert", "stone", "gram"), ("base", "stone", None), ("root", "stone"), ("convert", "pound", "gram")]:
        hs.append([("enable", "rx"), q, ("disable",), ("readd", "p250"), ("enable", "rx"), q, ("disable",), q])
        hs.append([("readd", "p250"), ("enable", "rx"), q, ("disable",), ("readd", "p500"), ("enable", "rx"), q])
        hs.append([("enable", "rx"), ("disable",), ("readd", "p250"), ("enable", "rx"), q])
        hs.append([("enable", "rx"), q, ("readd", "p250"), ("enable", "rx"), q, ("disable",), q, ("disable",), q])
        hs.append([("enable_anon", "p500"), q, ("disable",), ("enable", "rx"), q, ("disable",), ("enable_anon", "p250"), q])
    return hs


WITNESSES = {
    # quirk index in QK: (history, description)
    0: [("parse", "kiloinch"), ("parse", "millikiloinch")],
    1: [("enable", "rb"), ("base", "foot", None), ("disable",), ("base", "foot", None)],
    2: [("base", "yard", "imperial"), ("base", "yard", None)],
    3: [("setsys", "imperial"), ("base", "meter", None), ("setsys", None), ("base", "meter", None)],
    4: [("define", "smoot"), ("compat", "meter")],
    5: [("qnew", "meter"), ("qdim",), ("qimul", "second"), ("qdim",)],
    6: [("enable", "rb"), ("define", "smoot"), ("disable",), ("parse", "smoot")],
}
QUIRK_NAMES = ["F3 q_lazy_visible", "F7 q_bcache_ctx_blind", "F100 q_bcache_sysarg", "F102 q_bcache_none_keeps",
               "F9 q_dimeq_static", "F101 q_objdim_stale", "F103 q_define_in_overlay"]


# ------------------------------------------------------------------ the check
def _inner(op):
    return op[1] if op[0] == "other" else op


def _names_of(op):
    """the unit names an operation mentions (strings split at operators), plus the keys a define adds"""
    import re
    inner = _inner(op)
    out = []
    for x in inner[1:]:
        if isinstance(x, str):
            out += [w for w in re.split(r"[^A-Za-z_]+", x) if w]
    if inner[0] == "define":
        out += DEFS[inner[1]]["keys"]
    more = []
    for w in out:
        for d in DEFS.values():
            for k in d["keys"]:
                if k in w and k != w:
                    more.append(k)
    return out + more


def is_subseq(small, big):
    it = iter(big)
    return all(any(x == y for y in it) for x in small)


class Checker:
    """turns discrepancies with the fresh-registry oracle into minimal histories and keys"""

    def __init__(self, ck, fresh, klass):
        self.ck = ck
        self.fresh = fresh
        self.klass = klass
        self.minimised = 0
        self.shortcuts = 0
        self.trials = 0
        self.memo = {}
        self.minimals = []      # (ops tuple, real, fresh, key)
        self.patterns = set()   # kind sequences of the minimal histories (final kind with qualifier)
        self.instantiated = 0
        self.found = {}         # key -> (desc, replay)
        self.unminimised = 0

    def discrepancy(self, ops):
        """does the LAST op of ops, a query, answer differently from the fresh registry?  Returns
        (real, fresh) or None"""
        k = repr(ops)
        if k in self.memo:
            return self.memo[k]
        self.trials += 1
        recs = run_history(ops)
        rr, ans, before, qu, inner = recs[-1]
        q = oracle_question(inner, qu)
        res = None
        if q is not None:
            fa = self.fresh.answer(before, q)
            res = None if fa == ans else (ans, fa)
        self.memo[k] = res
        return res

    def minimise(self, ops):
        """slicing, then delta debugging on the operation list (the last op, the query, stays):
        remove chunks of decreasing size while the discrepancy with the oracle persists"""
        cur = list(ops)
        last = cur[-1]
        r = 1 if last[0] in ("other", "mkother") else 0
        # slice 1: operations on the other registry
        cand = [o for o in cur[:-1] if (1 if o[0] in ("other", "mkother") else 0) == r] + [last]
        if len(cand) < len(cur) and self.discrepancy(cand) is not None:
            cur = cand
        # slice 2: queries that mention none of the names of the final question
        strs = set(_names_of(last))
        cand = [o for o in cur[:-1] if _inner(o)[0] not in QUERY_KINDS or strs & set(_names_of(o))] + [last]
        if len(cand) < len(cur) and self.discrepancy(cand) is not None:
            cur = cand
        n = max(1, (len(cur) - 1) // 2)
        while n >= 1:
            i = 0
            while i < len(cur) - 1:
                cand = cur[:i] + cur[min(i + n, len(cur) - 1):]
                if len(cand) < len(cur) and self.discrepancy(cand) is not None:
                    cur = cand
                else:
                    i += n
            n //= 2
        return cur

    def instantiate(self, hist, real, fa):
        """try the known minimal patterns on this history: a subsequence with the same kinds that ends
        in this question; one short run decides.  Returns (small, (real, fresh)) or None"""
        ks = kinds_of(hist, self.klass)
        final = ks[-1] + query_qual(hist[-1], self.klass)
        strs = set(_names_of(hist[-1]))
        tried = 0
        for pat in sorted(self.patterns, key=len):
            if pat[-1] != final:
                continue
            # candidate indices per pattern position, most related / latest first
            pos = []
            ok = True
            for kind in pat[:-1]:
                idx = [i for i in range(len(hist) - 1) if ks[i] == kind]
                if not idx:
                    ok = False
                    break
                idx.sort(key=lambda i: (0 if strs & set(_names_of(hist[i])) else 1, -i))
                pos.append(idx[:4])
            if not ok:
                continue
            import itertools
            for combo in itertools.islice(itertools.product(*pos), 8):
                if any(a >= b for a, b in zip(combo, combo[1:])):
                    continue
                cand = [hist[i] for i in combo] + [hist[-1]]
                tried += 1
                d = self.discrepancy(cand)
                if d is not None:
                    return cand, d
                if tried >= 24:
                    return None
        return None

    def key_of(self, ops, real=None, fa=None):
        ks = kinds_of(ops, self.klass)
        return ("history:" + "+".join(ks[:-1]) + "→" + ks[-1] + query_qual(ops[-1], self.klass)
                + answer_qual(ops, real, fa))

    def add_minimal(self, small, real, fa):
        key = self.key_of(small, real, fa)
        self.minimals.append((tuple(small), real, fa, key))
        ks = kinds_of(small, self.klass)
        self.patterns.add(tuple(ks[:-1]) + (ks[-1] + query_qual(small[-1], self.klass),))
        if key not in self.found or len(self.found[key][1]["history"]) > len(small):
            self.found[key] = (f"after {[list(o) for o in small[:-1]]} the question {list(small[-1])} is answered {real}; "
                               f"a freshly built registry in the same declarative state answers {fa}",
                               {"history": [list(o) for o in small], "real": repr(real), "fresh": repr(fa)})
        return key

    def shortcut(self, hist, real, fa):
        """a known minimal history with the same final question and the same pair of answers that is
        a subsequence of this one explains it"""
        for small, r0, f0, key in self.minimals:
            if small[-1] == hist[-1] and r0 == real and f0 == fa and len(small) <= len(hist) and is_subseq(small[:-1], hist[:-1]):
                return key
        return None

    def process(self, discrepancies, budget):
        """discrepancies: list of (ops, i, real, fresh).  Short histories first; each one is either
        explained by a known minimal history or minimised (in parallel)."""
        items = sorted(((list(ops[:i + 1]), real, fa) for ops, i, real, fa in discrepancies), key=lambda t: len(t[0]))
        seen = set()
        todo = []
        for hist, real, fa in items:
            sig = repr((hist, real, fa))
            if sig in seen:
                continue
            seen.add(sig)
            if len(hist) <= 2:
                self.add_minimal(hist, real, fa)
                continue
            if self.shortcut(hist, real, fa) is not None:
                self.shortcuts += 1
                continue
            todo.append((hist, real, fa))
        # rounds: minimise a batch in parallel, then retry the shortcut on the rest
        while todo:
            batch, rest = [], []
            sigs = set()
            for t in todo:
                sg = (repr(t[0][-1]), repr(t[1]), repr(t[2]))
                if sg in sigs or len(batch) >= 2 * NCPU:
                    rest.append(t)
                else:
                    sigs.add(sg)
                    batch.append(t)
            if self.minimised + len(batch) > budget:
                for hist, real, fa in todo:
                    self.unminimised += 1
                    ks = kinds_of(hist, self.klass)
                    key = "history:" + "+".join(sorted(set(ks[:-1]))) + "→" + ks[-1] + query_qual(hist[-1], self.klass) + ":unminimised"
                    self.found.setdefault(key, (f"history of {len(hist)} operations ending in {list(hist[-1])}: answered {real}, fresh registry {fa} (minimisation budget exhausted)",
                                                {"history": [list(o) for o in hist], "real": repr(real), "fresh": repr(fa)}))
                return
            for d in {tuple(sorted(set(x for o in t[0] for x in ([o[1]] if o[0] == "define" else [o[1][1]] if o[0] == "other" and o[1][0] == "define" else [])))) for t in batch}:
                pass
            self.fresh.prebuild()
            res = parallel(lambda t: self._min_one(t), batch)
            for small, d, trials, inst in res:
                if inst:
                    self.instantiated += 1
                else:
                    self.minimised += 1
                self.trials += trials
                self.add_minimal(small, d[0], d[1])
            todo = []
            for hist, real, fa in rest:
                if self.shortcut(hist, real, fa) is not None:
                    self.shortcuts += 1
                else:
                    todo.append((hist, real, fa))

    def _min_one(self, t):
        hist, real, fa = t
        t0 = self.trials
        got = self.instantiate(hist, real, fa)
        if got is not None:
            small = self.minimise(got[0])          # out of its context the candidate may shrink further
            d = self.discrepancy(small) or got[1]
            return small, d, self.trials - t0, True
        small = self.minimise(hist)
        d = self.discrepancy(small)
        if d is None:
            small, d = hist, (real, fa)
        return small, d, self.trials - t0, False


def flatten_tree(prefix_ops, nodes, out):
    """all (history, node) pairs of an exploration tree"""
    for op, rr, ans, before, qu, kids in nodes:
        h = prefix_ops + [op]
        out.append((h, rr, ans, before, qu))
        flatten_tree(h, kids, out)


def tree_term(nodes, active0):
    """Coq forest for exploration nodes; active0 = active contexts (registry 0, registry 1)"""
    terms = []
    for op, rr, ans, before, qu, kids in nodes:
        act = before[1]
        rules = any(c in RULES for c in act)
        terms.append(coq_node(op, ans, rules, tree_term(kids, None)))
    return terms


def run(ck):
    global BASE
    thorough = ck.tier == "thorough"
    rng = random.Random(ck.seed)
    ck.rule = ("real default registry (Fraction), every history run in a fork()ed copy of a never-queried registry; per step: "
               "answer vs Coq model (Cache.step) and vs a fresh registry built from definition files in the same declarative state "
               "(asked that one question in its own fork); random histories 40/200 ops over convert, parse, root/base units, "
               "dimensionality, compatible units, define x3, enable/disable x3 contexts, default_system x4, tracked ndarray quantity, "
               "second registry; exhaustive depth 3/4 over 12 ops; oracle-only stream with format/to_compact/to/contains and the "
               "spectroscopy, boltzmann and energy contexts (exhaustive depth 4/5 over 8 ops). non-trivial = distinct (history id, step)")
    ck.assumptions += ["contexts of the model carry unit redefinitions only; with a context with transformation rules (sp, boltzmann, energy) active convert / "
                       "get_compatible_units are compared with the fresh registry only",
                       "formatting, to_compact, Quantity.to, is_compatible_with, `in` are compared with the fresh registry only",
                       "F3 (lazily registered names are prefixable) is guarded by a model switch, its name-level theory is C08's"]
    ok = ck.coq_build(["Properties/C13.vo", "Model/CacheRun.vo", "Gen/DefaultReg.vo"])

    t0 = time.time()
    register_custom_format()
    klass, tk = forked(classify_strings)
    systems = forked(system_tables)
    BASE = new_registry()          # never queried in this process
    global BASE_FLOAT
    BASE_FLOAT = new_registry(None, float)
    fresh = Fresh()
    chk = Checker(ck, fresh, klass)
    try:
        _run(ck, rng, thorough, klass, tk, systems, fresh, chk, ok)
    finally:
        fresh.close()
    ck.extra["oracle_registries_built"] = fresh.builds
    ck.extra["oracle_questions_asked"] = fresh.asked
    ck.extra["histories_minimised"] = chk.minimised
    ck.extra["discrepancies_explained_by_a_known_minimal_history"] = chk.shortcuts
    ck.extra["discrepancies_explained_by_instantiating_a_known_pattern"] = chk.instantiated
    ck.extra["minimisation_trials"] = chk.trials
    ck.extra["harness_seconds"] = round(time.time() - t0, 1)


def _run(ck, rng, thorough, klass, tk, systems, fresh, chk, coq_ok):
    # ---- 1. the witnesses of the _refuted theorems select the model's defect switches
    qk = []
    disc = []
    T = {"start": time.time()}
    for i in range(7):
        h = WITNESSES[i]
        d = chk.discrepancy(h)
        qk.append(d is not None)
        ck.case(key=("witness", i), sample={"witness": QUIRK_NAMES[i], "history": [list(o) for o in h], "reproduces": d is not None})
        if d is not None:
            disc.append((h, len(h) - 1, d[0], d[1]))
    ck.extra["quirks_selected"] = {n: b for n, b in zip(QUIRK_NAMES, qk)}
    # stale per-object dimensionality as reported: q.check after in-place *=
    hq = [("qnew", "meter"), ("qdim",), ("qimul", "second"), ("qcheck", "[length]")]
    d = chk.discrepancy(hq)
    ck.extra["stale_check_after_imul"] = d is not None
    if d is not None:
        disc.append((hq, len(hq) - 1, d[0], d[1]))
    T["witnesses"] = time.time()

    # ---- 2. histories
    n_hist, n_len = (100, 200) if thorough else (56, 40)
    n_orc = 40 if thorough else 20
    depth = 4 if thorough else 3
    hists = [("rand", i, random_ops(random.Random(rng.random()), n_len)) for i in range(n_hist)]
    hists += [("orc", i, ([("usefloat",)] if i % 2 else []) + random_ops(random.Random(rng.random()), n_len, model_only=False))
              for i in range(n_orc)]
    for i, h in WITNESSES.items():
        hists.append(("wit", i, h))
    for i, h in enumerate(isolation_histories()):
        hists.append(("iso", i, h))
    for i, h in enumerate(context_replacement_histories()):
        hists.append(("orc", 1000 + i, h))
    recs = parallel(lambda t: run_history(t[2]), hists)
    # exhaustive exploration: one fork tree per first operation
    T["histories"] = time.time()
    trees = parallel(lambda op: explore(EXH_ALPHABET, depth, [op]), EXH_ALPHABET)
    depth_b = 5
    alpha_b = BASE_ALPHABET if thorough else [o for o in BASE_ALPHABET if not (o[0] == "base" and o[2] is not None)]
    roots_b = [[a, b] for a in alpha_b for b in alpha_b]
    trees_b = parallel(lambda pre: explore(alpha_b, depth_b, pre), roots_b)
    depth_r = 4          # (5 = 37 000 histories: too slow for the 20 min envelope under load)
    trees_r = parallel(lambda op: explore(RULES_ALPHABET, depth_r, [op]), RULES_ALPHABET)
    depth_f = 4
    trees_f = parallel(lambda op: explore(FORMAT2_ALPHABET, depth_f, [op], precreate=True), FORMAT2_ALPHABET)
    depth_t = 4 if thorough else 3
    trees_t = parallel(lambda op: explore(TYPED_ALPHABET, depth_t, [op]), TYPED_ALPHABET)
    trees_tf = parallel(lambda op: explore(TYPED_ALPHABET, depth_t + 1, [("usefloat",), op]), TYPED_ALPHABET)
    trees_x = parallel(lambda op: explore(CTXPAIR_ALPHABET, 4, [op]), CTXPAIR_ALPHABET)
    depth_c = 4 if thorough else 3
    trees_c = parallel(lambda op: explore(COMPACT_ALPHABET, depth_c, [op]), COMPACT_ALPHABET)
    T["exhaustive"] = time.time()

    # ---- 3. the fresh-registry oracle on every step
    tasks, where = [], []
    for (kind, hid, ops), rec in zip(hists, recs):
        for i, (rr, ans, before, qu, inner) in enumerate(rec):
            q = oracle_question(inner, qu)
            ck.case(key=(kind, hid, i))
            ck.count("op:" + op_kind(ops[i], klass))
            if q is not None:
                tasks.append((before, q))
                where.append((ops, i, ans))
    n_before_exh = len(tasks)
    flat = []
    for op0, (precs, kids) in zip(EXH_ALPHABET, trees):
        p = precs[0]
        flat.append(([op0], p[1], p[2], p[3], p[4]))
        flatten_tree([op0], kids, flat)
    n_general = len(flat)
    for pre, (precs, kids) in zip(roots_b, trees_b):
        p0, p1 = precs
        if pre[1] == alpha_b[0]:
            flat.append(([pre[0]], p0[1], p0[2], p0[3], p0[4]))
        flat.append((list(pre), p1[1], p1[2], p1[3], p1[4]))
        flatten_tree(list(pre), kids, flat)
    n_base = len(flat) - n_general
    for op0, (precs, kids) in zip(RULES_ALPHABET, trees_r):
        p = precs[0]
        flat.append(([op0], p[1], p[2], p[3], p[4]))
        flatten_tree([op0], kids, flat)
    n_rules = len(flat) - n_general - n_base
    for op0, (precs, kids) in zip(COMPACT_ALPHABET, trees_c):
        p = precs[0]
        flat.append(([op0], p[1], p[2], p[3], p[4]))
        flatten_tree([op0], kids, flat)
    for op0, (precs, kids) in zip(CTXPAIR_ALPHABET, trees_x):
        p = precs[0]
        flat.append(([op0], p[1], p[2], p[3], p[4]))
        flatten_tree([op0], kids, flat)
    n_compact = len(flat) - n_general - n_base - n_rules
    for op0, (precs, kids) in zip(FORMAT2_ALPHABET, trees_f):
        p = precs[0]
        flat.append(([op0], p[1], p[2], p[3], p[4]))
        flatten_tree([op0], kids, flat)
    n_fmt = len(flat) - n_general - n_base - n_rules - n_compact
    for op0, (precs, kids) in zip(TYPED_ALPHABET, trees_t):
        p = precs[0]
        flat.append(([op0], p[1], p[2], p[3], p[4]))
        flatten_tree([op0], kids, flat)
    for op0, (precs, kids) in zip(TYPED_ALPHABET, trees_tf):
        p = precs[1]
        flat.append(([("usefloat",), op0], p[1], p[2], p[3], p[4]))
        flatten_tree([("usefloat",), op0], kids, flat)
    ck.extra["exhaustive_histories"] = len(flat)
    ck.extra["exhaustive_depth"] = {"12-op alphabet": depth, f"{len(alpha_b)}-op base-units alphabet": depth_b,
                                    "8-op rule-contexts alphabet (oracle only)": depth_r,
                                    "9-op to_compact x definitions alphabet (oracle only)": depth_c, "6-op context-pairs alphabet (oracle only)": 4,
                                    "7-op two-registry formatting alphabet (oracle only)": depth_f,
                                    "8-op typed-magnitude alphabet, Fraction and float registry (oracle only)": depth_t}
    ck.extra["exhaustive_histories_by_alphabet"] = {"12-op alphabet": n_general, f"{len(alpha_b)}-op base-units alphabet": n_base,
                                                    "8-op rule-contexts alphabet (oracle only)": n_rules,
                                                    "9-op to_compact x definitions + 6-op context-pairs alphabets (oracle only)": n_compact,
                                                    "7-op two-registry formatting alphabet (oracle only)": n_fmt,
                                                    "8-op typed-magnitude alphabet, Fraction and float registry (oracle only)": len(flat) - n_general - n_base - n_rules - n_compact - n_fmt}
    for h, rr, ans, before, qu in flat:
        inner = h[-1][1] if h[-1][0] == "other" else h[-1]
        q = oracle_question(inner, qu)
        ck.case(key=("exh", repr(h)))
        if q is not None:
            tasks.append((before, q))
            where.append((h, len(h) - 1, ans))
    n_exh_tasks = len(tasks) - n_before_exh
    fa = fresh.answers(tasks)
    T["oracle"] = time.time()
    ndis = 0
    n_random_tasks = len(tasks) - n_exh_tasks
    table = {}
    for j, ((ops, i, ans), f) in enumerate(zip(where, fa)):
        if j >= n_random_tasks:
            table[repr(ops)] = (ans, f)
        if f != ans:
            ndis += 1
            if j < n_random_tasks:
                disc.append((ops, i, ans, f))
    # exhaustive histories: every subsequence of an explored history was explored too, so the
    # minimal discrepant sub-history is looked up, not re-run
    import itertools
    n_lookup = 0
    seen_min = set()
    for j in range(n_random_tasks, len(where)):
        ops, i, ans = where[j]
        if fa[j] == ans:
            continue
        best = None
        body = ops[:-1]
        for n in range(0, len(body) + 1):
            for idx in itertools.combinations(range(len(body)), n):
                cand = [body[k] for k in idx] + [ops[-1]]
                rf = table.get(repr(cand))
                if rf is not None and rf[0] != rf[1]:
                    best = (cand, rf)
                    break
            if best:
                break
        if best is None:
            disc.append((ops, i, ans, fa[j]))
        elif repr(best[0]) not in seen_min:
            seen_min.add(repr(best[0]))
            chk.add_minimal(best[0], best[1][0], best[1][1])
            n_lookup += 1
    ck.extra["exhaustive_discrepancies_minimised_by_lookup"] = n_lookup
    chk.process(disc, 600 if thorough else 150)
    T["minimise"] = time.time()
    ck.count("oracle-compared-steps", len(tasks))
    ck.count("oracle-discrepant-steps", ndis)
    for key, (desc, rp) in sorted(chk.found.items()):
        ck.violation(key, desc, rp)
    ck.extra["violation_keys"] = sorted(chk.found)

    # ---- 4. the model, inside Coq
    hdr = header(systems, tk, qk)
    cases, descs = [], []
    for (kind, hid, ops), rec in zip(hists, recs):
        if kind == "orc":
            continue
        term = None
        for op, (rr, ans, before, qu, inner) in reversed(list(zip(ops, rec))):
            rules = any(c in RULES for c in before[1])
            term = coq_node(op, ans, rules, [] if term is None else [term])
        cases.append(f"HRun SU0 [{term}]")
        descs.append({"history": [list(o) for o in ops], "answers": [repr(r[1]) for r in rec]})
    for op0, (precs, kids) in zip(EXH_ALPHABET, trees):
        p = precs[0]
        cases.append("HRun SU0 [" + coq_node(op0, p[2], False, tree_term(kids, None)) + "]")
        descs.append({"exhaustive_tree_rooted_at": list(op0)})
    for pre, (precs, kids) in zip(roots_b, trees_b):
        p0, p1 = precs
        inner = coq_node(pre[1], p1[2], False, tree_term(kids, None))
        cases.append("HRun SU0 [" + coq_node(pre[0], p0[2], False, [inner]) + "]")
        descs.append({"exhaustive_tree_rooted_at": [list(pre[0]), list(pre[1])]})
    bad = ck.coq_mismatches("c13", hdr, cases, "c13_ok", shard=max(1, len(cases) // (2 * NCPU) + 1)) if coq_ok else None
    T["coq"] = time.time()
    ks = list(T)
    ck.extra["phase_seconds"] = {b: round(T[b] - T[a], 1) for a, b in zip(ks, ks[1:])}
    ck.extra["model_vs_impl_cases"] = len(cases)
    ck.extra["model_vs_impl_disagreements"] = None if bad is None else len(bad)
    if bad:
        first = bad[0]
        detail = ck.coq_show(hdr, f"c13_bad ({cases[first]})")
        ck.broken.append(f"correspondence CacheRun.c13_ok: {len(bad)} disagreeing cases, first: {json.dumps(descs[first])[:600]}")
        unknown = [k for k in chk.found if ck._match_known(k) is None]
        if not unknown:
            ck.violation("correspondence", "model (Cache.step) and implementation disagree; the fresh-registry oracle found nothing new",
                         {"first_disagreement": descs[first], "model_says": detail[-1500:], "n": len(bad)}, no_input=True)


def replay(ck, path):
    global BASE
    rp = json.load(open(path))
    print(json.dumps(rp, indent=1))
    h = [tuple(tuple(x) if isinstance(x, list) else x for x in o) for o in rp.get("replay", {}).get("history", [])]
    if not h:
        return 0
    register_custom_format()
    klass, tk = forked(classify_strings)
    BASE = new_registry()
    global BASE_FLOAT
    BASE_FLOAT = new_registry(None, float)
    fresh = Fresh()
    try:
        chk = Checker(ck, fresh, klass)
        d = chk.discrepancy(h)
        print("reproduces:", d is not None, d)
        return 1 if d is not None else 0
    finally:
        fresh.close()
