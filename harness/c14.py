"""C14 — systems and groups select base units and members exactly as declared.

Theorems: coq/Properties/C14.v over Model/Groups.v and Model/Systems.v (closure membership,
memo invariant over every edit sequence, acyclicity / fuel bound, system members, base units,
default system, restricted compatible units, attribute lookup).

Correspondence K (Model/GroupsRun.v): every step below is executed on the real pint (Fraction
registry, exact) and the observed result is embedded in a Coq term; the differ runs inside Coq.
  * bundled registry: members of every group and system; every canonical unit x {no system, SI,
    mks, cgs, atomic, Planck, imperial, US}: get_base_units + to_base_units; restricted
    compatible-unit queries; ureg.sys.<system>.<unit>; random compound quantities;
    sequences of default_system changes / group edits with queries in between;
  * generated definition files (small registry, random group graphs and system rule sets in
    both rule forms) with random edit / query sequences, including failing edits.
Property oracles (pint alone): membership = independently computed closure; system members =
union of its groups' closures after edits; base units: only declared base units + unreplaced
root units, same dimensionality, value preserved, idempotent, cached answer = cache-free answer
(immediacy of default_system); restricted compatible units = same-dimension members;
attribute lookup = the system's variant when it exists.
"""
from __future__ import annotations

import json
import logging
import os
import random
import signal
import tempfile
from fractions import Fraction as F
from pathlib import Path

from . import t1_defs
from .common import coq_bool, coq_list, coq_opt, coq_q, coq_str, coq_uc

logging.getLogger("pint").setLevel(logging.ERROR)

SYSTEMS = [None, "SI", "mks", "cgs", "atomic", "Planck", "imperial", "US"]
QUIRKS = ["F10", "F11", "F65", "F66", "F67", "F68"]


def header(qk):
    q = " ".join(coq_bool(qk[k]) for k in QUIRKS)
    return ("From PintV Require Import Model.UC Model.Eval Model.Registry Model.UCRun Model.Groups Model.Systems "
            "Model.GroupsRun Gen.DefaultDefs Gen.DefaultReg.\nOpen Scope string_scope.\n"
            f"Definition QKv := QK {q}.\n"
            "Definition dst := fst (build_state QKv default_reg default_raw default_groups default_systems default_defaults).\n"
            "Definition dtbl := dimeq_table default_reg.\n"
            "Definition ok (c : c14case) : bool := c14_ok QKv default_reg dst dtbl c.\n")


# ------------------------------------------------------------------ helpers
def registry(filename=None):
    import pint
    if filename is None:
        return pint.UnitRegistry(non_int_type=F, cache_folder=None)
    return pint.UnitRegistry(filename, non_int_type=F, cache_folder=None)


def ucd(container):
    container = getattr(container, "_units", container)      # a Unit (the no-system path returns one) or a container
    return {k: F(v) for k, v in container.items()}


def mkuc(ureg, d):
    return ureg.UnitsContainer({k: (int(v) if F(v).denominator == 1 else F(v)) for k, v in d.items()})


def jd(d):
    return {k: str(F(v)) for k, v in sorted(d.items())}


def unjd(d):
    return {k: F(v) for k, v in d.items()}


def registry_ci():
    import pint
    return pint.UnitRegistry(non_int_type=F, cache_folder=None, case_sensitive=False)


def attr_spellings(u, sysname, rng, canon, n_extra):
    """names to ask a system for: every stem that has a `<system>_<stem>` variant, in every spelling of the
    plain unit (name, symbol, aliases), each also as a plural; plurals and prefixed forms of other names —
    i.e. strings the registry resolves although they are no literal key of its unit table"""
    keys = list(u._units)
    stems = sorted({k[len(sysname) + 1:] for k in keys if k.startswith(sysname + "_") and len(k) > len(sysname) + 1})
    out = []
    for st in stems:
        out += [st, st + "s"]
        try:
            plain = u.get_name(st)
        except Exception:      # noqa: BLE001
            continue
        for k in keys:
            if u._units[k].name == plain and k.isidentifier():
                out += [k, k + "s"]
    extra = rng.sample(canon, min(n_extra, len(canon)))
    out += [x + "s" for x in extra] + ["kilo" + x for x in extra[:5]] + ["milli" + x + "s" for x in extra[:3]]
    out += ["kilo" + st for st in stems[:4]] + ["milli" + st + "s" for st in stems[:3]]
    return list(dict.fromkeys(out))


class Hang(Exception):
    pass


def _alarm(signum, frame):
    raise Hang("pint did not return within the time limit")


def guarded(fn, *a, **kw):
    """run a pint call under a wall-clock limit (a cyclic group graph makes pint loop forever)"""
    old = signal.signal(signal.SIGALRM, _alarm)
    signal.alarm(20)
    try:
        return fn(*a, **kw)
    finally:
        signal.alarm(0)
        signal.signal(signal.SIGALRM, old)


def xerr(e):
    import pint
    if isinstance(e, RecursionError):
        return "XRec"
    if isinstance(e, pint.errors.UndefinedUnitError):
        return "XUndef"
    if isinstance(e, pint.errors.DimensionalityError):
        return "XDim"
    if isinstance(e, pint.errors.DefinitionSyntaxError):
        return "XSyntax"
    if isinstance(e, KeyError):
        return "XKey"
    if isinstance(e, ValueError):
        return "XValue"
    if isinstance(e, AttributeError):
        return "XAttr"
    return "XOther"


def c_strs(xs):
    return coq_list([coq_str(x) for x in xs])


def c_oset(r):
    return f"(OSErr {r[1]})" if r[0] == "err" else f"(OSet {c_strs(sorted(r[1]))})"


def c_ounit(r):
    return coq_opt(r[1] if r[0] == "err" else None)


def c_fac(f):
    if isinstance(f, (int, F)) and not isinstance(f, bool):
        return f"(FExact {coq_q(F(f))})"
    return "FFloat"


def c_obase(r, exact=True):
    if r[0] == "range":
        return "OBRange"
    if r[0] == "err":
        return f"(OBErr {r[1]})"
    return f"(OB {c_fac(r[1]) if exact else 'FFloat'} {coq_uc(r[2])})"


def c_ostr(s):
    return coq_opt(None if s is None else coq_str(s))


def is_exact(x):
    return isinstance(x, (int, F)) and not isinstance(x, bool)


def finite(x):
    """usable as a float: neither overflowed nor underflowed"""
    import math
    try:
        y = float(x)
    except (OverflowError, ValueError):
        return False
    return math.isfinite(y) and (y != 0.0 or x == 0) and abs(y) > 1e-290


def close(a, b, exact=True):
    if a == b:
        return True
    if exact and is_exact(a) and is_exact(b):
        return False
    try:
        a, b = float(a), float(b)
    except OverflowError:
        return True         # outside the double range: nothing to compare numerically
    return abs(a - b) <= 1e-7 * max(abs(a), abs(b), 1e-300)


# ------------------------------------------------------------------ the implementation side
class World:
    """One registry plus the book-keeping the oracles need.  `apply(op)` executes one JSON-able
    step on pint, appends the Coq term of the step (with the observation) and runs the oracles."""

    def __init__(self, ureg, fails, label, regtext=None):
        self.u = ureg
        self.fails = fails            # list of (key, description, replay dict)
        self.label = label
        self.regtext = regtext
        self.log = []                 # JSON ops so far (the replay)
        self.terms = []
        self.failed_edit = {}         # group -> description of the last failing multi-argument edit
        self.sys_snapshot = {}        # system -> (its memo when first seen filled, edit counter then)
        self.clock = 0                # counts group edits
        self.foreign = set()          # input units answered for an explicit non-default system since the last cache reset
        self.cached_before_none = set()   # input units cached when default_system was set to None
        self.cyclic = False
        self.counts = {}

    # ---- independent notions (the property's own words, computed from the raw attributes)
    def closure(self, g, seen=None):
        d = self.u._groups
        seen, todo, out = set(), [g], set()
        while todo:
            n = todo.pop()
            if n in seen or n not in d:
                continue
            seen.add(n)
            out |= d[n]._unit_names
            todo += list(d[n]._used_groups)
        return out

    def ancestors(self, g):
        d = self.u._groups
        out, todo = set(), [g]
        while todo:
            n = todo.pop()
            if n in out or n not in d:
                continue
            out.add(n)
            todo += [k for k, v in d.items() if n in v._used_groups]
        return out

    def has_cycle(self):
        d = self.u._groups
        color = {}

        def visit(n):
            color[n] = 1
            for m in d[n]._used_groups:
                if m not in d:
                    continue
                if color.get(m) == 1 or (m not in color and visit(m)):
                    return True
            color[n] = 2
            return False
        return any(visit(n) for n in list(d) if n not in color)

    def sys_union(self, s):
        out = set()
        for g in self.u._systems[s]._used_groups:
            if g in self.u._groups:
                out |= self.closure(g)
        return out

    def fail(self, key, desc):
        self.fails.append((key, desc, {"registry": self.regtext or "default", "ops": list(self.log)}))

    def call(self, fn, *a, **kw):
        try:
            return ("ok", guarded(fn, *a, **kw))
        except Hang as e:
            self.fail("hang:" + self.log[-1][0], f"{self.log[-1]} never returned")
            self.cyclic = True
            return ("err", "XOther")
        except Exception as e:      # noqa: BLE001 — the class is the observation
            return ("err", xerr(e))

    # ---- oracles
    def tainted_below(self, g):
        """the failing edit (F66) whose stale memo can reach group g: g is the edited group or uses it"""
        return next((self.failed_edit[a] for a in sorted(self.failed_edit) if g in self.ancestors(a)), None)

    def check_group_members(self, g, got):
        want = self.closure(g)
        if set(got) == want:
            return
        why = self.tainted_below(g)
        if why:
            self.fail("group-members:stale-after-failed-edit:" + why,
                      f"members of {g} is off the closure (extra {sorted(set(got) - want)[:3]} missing {sorted(want - set(got))[:3]}) "
                      f"after the failing {why}: the edit kept its partial effect and skipped invalidate_members")
        else:
            self.fail("group-members:not-closure",
                      f"members of group {g}: extra {sorted(set(got) - want)[:4]} missing {sorted(want - set(got))[:4]}")

    def sys_tainted(self, s):
        for g in self.u._systems[s]._used_groups:
            todo, seen = [g], set()
            while todo:
                n = todo.pop()
                if n in seen or n not in self.u._groups:
                    continue
                seen.add(n)
                todo += list(self.u._groups[n]._used_groups)
            for n in sorted(seen):
                if n in self.failed_edit:
                    return self.failed_edit[n]
        return None

    def check_sys_members(self, s, got):
        want = self.sys_union(s)
        if set(got) == want:
            return
        snap = self.sys_snapshot.get(s)
        if snap is not None and snap[1] < self.clock and set(got) == snap[0]:
            self.fail("system-members:stale-after-group-edit",
                      f"members of system {s} is still the set computed before the last group edit "
                      f"(extra {sorted(set(got) - want)[:3]} missing {sorted(want - set(got))[:3]} w.r.t. the union of its groups' members)")
            return
        why = self.sys_tainted(s)
        if why:
            self.fail("group-members:stale-after-failed-edit:" + why,
                      f"members of system {s} built from a group memo left stale by the failing {why}")
        else:
            self.fail("system-members:not-union",
                      f"members of system {s}: extra {sorted(set(got) - want)[:4]} missing {sorted(want - set(got))[:4]}")

    def conv_exact(self, src, dst):
        """does pint stay in exact arithmetic when converting src -> dst (the conversion factor is no float)"""
        if src == dst:
            return True
        try:
            return is_exact(self.u._get_conversion_factor(mkuc(self.u, src), mkuc(self.u, dst)))
        except Exception:      # noqa: BLE001
            return False

    def base_exact(self, d, b):
        """exactness of a get_base_units answer: exact root factor and exact conversion root units -> b"""
        try:
            fu, ru = self.u._get_root_units(mkuc(self.u, d), check_nonmult=False)
        except Exception:      # noqa: BLE001
            return False
        return is_exact(fu) and self.conv_exact(ucd(ru), b)

    def value_scope(self, d, b, sysname, conv_is_exact=True):
        """which value oracle applies to the conversion d -> b under `sysname`:
        'exact'  every factor involved is an exact rational in the Fraction registry (source, answer, every
                 declared base unit of the system): exact equality is demanded;
        'float'  some factor went through a non-integer power (planck_*, alpha-dependent atomic units …) and is a
                 float even here: numerical comparison with a relative tolerance;
        'skip'   float factors raised to powers that leave the double range (intermediate products become
                 denormal / inf and conversions are no longer multiplicative to better than 1e-4): out of scope,
                 like the units C01/C02 exclude from the exactness clause"""
        import math
        u = self.u
        names = dict(d)
        for k, v in b.items():
            names[k] = max(abs(F(v)), abs(F(names.get(k, 0))))
        decl = []
        if sysname in u._systems:
            decl = [k for rep in u._systems[sysname].base_units.values() for k in rep]
        exact, load = True, 0.0
        try:
            for n in list(names) + decl:
                f, _ = u._get_root_units(mkuc(u, {n: 1}), check_nonmult=False)
                if not is_exact(f):
                    exact = False
                if n in names and f:
                    load += abs(float(names[n])) * abs(math.log10(abs(float(f))))
        except Exception:      # noqa: BLE001 — OverflowError of Fraction ** float and the like
            return "skip"
        if exact and conv_is_exact:
            return "exact"          # rational unit factors and pint stayed in exact arithmetic for this conversion
        return "float" if load < 200 else "skip"

    def float_range(self, d, sysname):
        """an exception raised inside float arithmetic (OverflowError of Fraction ** float, inf -> Fraction …):
        some unit of the input or some base unit of the system has a float factor even in the Fraction registry"""
        u = self.u
        names = list(d)
        if sysname in u._systems:
            names += [k for rep in u._systems[sysname].base_units.values() for k in rep]
            if any(F(v).denominator != 1 for rep in u._systems[sysname].base_units.values() for v in rep.values()):
                return True
        for n in names:
            try:
                f, _ = u._get_root_units(mkuc(u, {n: 1}), check_nonmult=False)
            except Exception:      # noqa: BLE001
                return False        # an undefined name: not a float matter
            if not is_exact(f):
                return True
        return False

    def system_guard(self, s):
        """rules whose new unit has a single root dimension: every replacement has one component"""
        return all(len(v) == 1 for v in self.u._systems[s].base_units.values())

    def rule_broken(self, s):
        """some replacement does not have the dimensionality of the root unit it replaces"""
        u = self.u
        for old, new in u._systems[s].base_units.items():
            try:
                if u.get_dimensionality(mkuc(u, ucd(u.UnitsContainer(new)))) != u.get_dimensionality(mkuc(u, {old: 1})):
                    return True
            except Exception:      # noqa: BLE001
                return True
        return False

    def check_base(self, d, sysname, res, cached_path, exact=True):
        """soundness of one get_base_units answer (sysname = the effective system, None = no system)"""
        u = self.u
        uc = mkuc(u, d)
        tag = sysname or "none"
        if res[0] == "err":
            if res[1] == "XDim" and sysname in u._systems and self.rule_broken(sysname):
                self.fail("rule-inversion:new-old-multi-component:dimerror",
                          f"get_base_units({d}) under system {sysname} raises DimensionalityError: the table "
                          f"{ {k: dict(v) for k, v in u._systems[sysname].base_units.items()} } does not solve the rule equations")
            elif res[1] in ("XUndef", "XValue") and (res[1] == "XUndef" or sysname not in u._systems):
                pass        # undefined input unit / unknown system: the declared failure
            else:
                self.fail(f"base-units:raises:{res[1]}", f"get_base_units({d}) under {tag} raised {res[1]}")
            return
        f, b = res[1], res[2]
        scope = self.value_scope(d, b, sysname, exact)
        exact = scope == "exact"
        try:
            fu, ru = u._get_root_units(uc, check_nonmult=False)
            fb, rb = u._get_root_units(mkuc(u, b), check_nonmult=False)
        except Exception as e:      # noqa: BLE001
            if exact:
                self.fail("base-units:result-not-resolvable", f"{d} -> {b}: {type(e).__name__}")
            else:
                self.count("float-range")      # Fraction ** float overflow in pint's own expansion
            return
        ru, rb = ucd(ru), ucd(rb)
        if scope == "skip" or (not exact and not (finite(f) and finite(fu) and finite(fb))):
            self.count("float-range")      # overflow / underflow of float factors: nothing to say about the value
            fu = fb = f = 1
            scope = "skip"
        if sysname is None:
            if b != ru or not close(f, fu, exact):
                self.fail("base-units:no-system-not-root", f"no system: {d} -> {f}, {b}; root units are {fu}, {ru}")
            return
        table = u._systems[sysname].base_units
        if self.system_guard(sysname):
            declared = {k for v in table.values() for k in v}
            allowed = declared | (set(ru) - set(table))
            if not set(b) <= allowed:
                self.fail("base-units:foreign-unit:" + ("cached" if cached_path else "computed"),
                          f"{d} under {sysname} -> {b}: {sorted(set(b) - allowed)} is neither a declared base unit nor an unreplaced root unit")
                return
        if u.get_dimensionality(mkuc(u, b)) != u.get_dimensionality(uc):
            self.fail("base-units:dimensionality", f"{d} under {sysname} -> {b} has another dimensionality")
            return
        if rb != ru or not close(f * fb, fu, exact and is_exact(fb)):
            self.fail("base-units:value", f"{d} under {sysname} -> {f} {b}: {f}*[{fb} {rb}] is not [{fu} {ru}]")
            return
        r2 = self.call(u._get_base_units, mkuc(u, b), False, sysname)
        if r2[0] == "ok":
            f2, b2 = r2[1]
            if ucd(b2) != b or (scope != "skip" and (exact or finite(f2)) and not close(f2, 1, exact)):
                self.fail("base-units:idempotence", f"{b} under {sysname} -> {f2} {ucd(b2)}")
        elif exact or r2[1] not in ("XValue", "XOther"):
            self.fail("base-units:idempotence", f"{b} under {sysname} raises {r2[1]}")
        else:
            self.count("float-range")

    def check_cached(self, d, sysname, res):
        """the answer that may come from the cache must be the cache-free answer"""
        u = self.u
        r2 = self.call(u._get_base_units, mkuc(u, d), False, sysname)
        same = (r2[0] == res[0] == "err") or (r2[0] == res[0] == "ok" and ucd(r2[1][1]) == res[2] and close(r2[1][0], res[1]))
        if same:
            return True
        key = frozenset(d.items())
        got = res[2] if res[0] == "ok" else res[1]
        want = ucd(r2[1][1]) if r2[0] == "ok" else r2[1]
        if key in self.foreign:
            self.fail("base-units:stale-cache:after-explicit-system-query",
                      f"get_base_units({d}) under default system {sysname} answers {got} (expected {want}) after the "
                      "same units were asked for with an explicit other system: that answer was written to the default system's cache")
        elif sysname is None and key in self.cached_before_none:
            self.fail("base-units:stale-cache:after-default-none",
                      f"default_system = None, yet get_base_units({d}) still answers {got} (root units {want}): "
                      "the setter does not clear the cache for a falsy name")
        else:
            self.fail("base-units:stale-cache:after-default-change",
                      f"get_base_units({d}) under default system {sysname} answers {got}, the cache-free answer is {want}")
        return False

    def same_dim_among(self, cand, d):
        u = self.u
        dim = u.get_dimensionality(mkuc(u, d))
        want = set()
        for n in cand:
            try:
                if n in self.universe and u.get_dimensionality(mkuc(u, {n: 1})) == dim:
                    want.add(n)
            except Exception:      # noqa: BLE001 — junk member names are no units
                pass
        return want

    def check_compat(self, d, gos, res):
        u = self.u
        eff = gos or u.default_system
        if res[0] == "err":
            if res[1] == "XValue" and eff and eff not in u._systems and eff not in u._groups:
                return
            if res[1] in ("XUndef",):
                return
            self.fail(f"compatible:raises:{res[1]}", f"get_compatible_units({d}, {gos}) raised {res[1]}")
            return
        got = set(res[1])
        if not d:
            want = set()
        elif not eff:
            want = self.same_dim_among(set(self.canon), d)
        elif eff in u._systems:
            want = self.same_dim_among(self.sys_union(eff), d)
        else:
            want = self.same_dim_among(self.closure(eff), d)
        if got == want:
            return
        if eff in u._systems:
            snap = self.sys_snapshot.get(eff)
            if snap is not None and snap[1] < self.clock and got == self.same_dim_among(snap[0], d):
                self.fail("system-members:stale-after-group-edit",
                          f"get_compatible_units({d}, {eff}) uses the members of the system computed before the last group edit: "
                          f"extra {sorted(got - want)[:3]} missing {sorted(want - got)[:3]}")
                return
            why = self.sys_tainted(eff)
        else:
            why = self.tainted_below(eff)
        if why:
            self.fail("group-members:stale-after-failed-edit:" + why,
                      f"get_compatible_units({d}, {eff}) uses members left stale by the failing {why}")
            return
        self.fail("compatible:not-exact", f"get_compatible_units({d}, {gos}): extra {sorted(got - want)[:4]} missing {sorted(want - got)[:4]}")

    # ---- bookkeeping shared by the edits
    def setup_names(self):
        u = self.u
        seen, out = set(), []
        for dfn in u._units.values():
            if dfn.name not in seen:
                seen.add(dfn.name)
                out.append(dfn.name)
        self.canon = out
        # names that _build_cache lists as dimensional equivalents: unprefixed canonical names
        self.universe = set().union(*u._cache.dimensional_equivalents.values()) if u._cache.dimensional_equivalents else set()

    def count(self, k):
        self.counts[k] = self.counts.get(k, 0) + 1

    # ---- one step
    def apply(self, op):
        try:
            self.apply1(op)
        finally:
            # remember when each system memo was filled (F10 shows as: still that value after later group edits)
            for s, so in self.u._systems.items():
                if so._computed_members is None:
                    self.sys_snapshot.pop(s, None)
                elif s not in self.sys_snapshot:
                    self.sys_snapshot[s] = (set(so._computed_members), self.clock)

    def apply1(self, op):
        u = self.u
        self.log.append(op)
        kind = op[0]
        self.count(kind)
        if kind == "members":
            g = op[1]
            r = self.call(lambda: sorted(u._groups[g].members))
            self.terms.append(f"PMembers {coq_str(g)} {c_oset(r)}")
            if r[0] == "ok":
                self.check_group_members(g, r[1])
            elif not (r[1] == "XKey" and g not in u._groups) and not self.cyclic:
                self.fail("group-members:raises:" + r[1], f"members of {g} raised {r[1]}")
        elif kind == "sysmembers":
            s = op[1]
            r = self.call(lambda: sorted(u._systems[s].members))
            self.terms.append(f"PSysMembers {coq_str(s)} {c_oset(r)}")
            if r[0] == "ok":
                self.check_sys_members(s, r[1])
        elif kind in ("add_units", "remove_units", "add_groups", "remove_groups"):
            g, names = op[1], op[2]
            grp = u._groups.get(g)
            before = None if grp is None else (set(grp._unit_names), set(grp._used_groups))
            r = self.call(lambda: getattr(u._groups[g], kind)(*names))
            ctor = {"add_units": "PAddUnits", "remove_units": "PRemoveUnits", "add_groups": "PAddGroups",
                    "remove_groups": "PRemoveGroups"}[kind]
            self.terms.append(f"{ctor} {coq_str(g)} {c_strs(names)} {c_ounit(r)}")
            self.clock += 1
            if grp is not None:
                after = (set(grp._unit_names), set(grp._used_groups))
                if r[0] == "err" and after != before and any(
                        u._groups[a]._computed_members is not None for a in self.ancestors(g)):
                    self.failed_edit[g] = f"{kind}:{r[1]}"
                elif r[0] == "ok":
                    self.failed_edit.pop(g, None)
                if r[0] == "err" and r[1] == "XRec":
                    self.cyclic = True
                    if kind == "add_groups" and g in names:
                        self.fail("add-groups:self-reference-accepted",
                                  f"{g}.add_groups({g!r}) passes the cycle check, stores the self reference "
                                  f"(_used_groups={sorted(grp._used_groups)}) and dies with RecursionError in invalidate_members")
                    else:
                        self.fail("add-groups:cycle-created", f"{g}.{kind}({names}) raised RecursionError")
                elif self.has_cycle():
                    self.cyclic = True
                    self.fail("add-groups:cycle-created", f"{g}.{kind}({names}) left a cyclic group graph")
        elif kind == "get_group":
            g = op[1]
            existed = g in u._groups
            r = self.call(lambda: u.get_group(g, True))
            self.terms.append(f"PGetGroup {coq_str(g)} {c_ounit(r)}")
            self.clock += 1
            if r[0] == "ok" and not existed and (g not in u._groups or (g != "root" and g not in u._groups["root"]._used_groups)):
                self.fail("get-group:not-registered", f"get_group({g}) did not register the group under root")
        elif kind in ("sys_add_groups", "sys_remove_groups"):
            s, names = op[1], op[2]
            r = self.call(lambda: getattr(u._systems[s], kind[4:])(*names))
            self.terms.append(f"{'PSysAddGroups' if kind == 'sys_add_groups' else 'PSysRemoveGroups'} {coq_str(s)} {c_strs(names)} {c_ounit(r)}")
        elif kind == "new_system":
            name, using, rules = op[1], op[2], op[3]
            lines = [f"@system {name}" + (" using " + ", ".join(using) if using else "")] + rules
            r = self.call(lambda: u.System.from_lines(lines, u.get_root_units, F))
            # from_lines goes through the text parser: no "using" means the root group
            self.terms.append(f"PNewSystem {coq_str(name)} {c_strs(using or ['root'])} {c_strs(rules)} {c_ounit(r)}")
            if r[0] == "ok":
                self.sys_snapshot.pop(name, None)
                self.check_rules(name, rules)
        elif kind == "set_default":
            name = op[1]
            # cache keys are unit containers, or (container, active-context key) since the repair of F7
            cached = {frozenset(ucd(k[0] if isinstance(k, tuple) else k).items()) for k in u._base_units_cache}

            def setter():
                u.default_system = name
            r = self.call(setter)
            self.terms.append(f"PSetDefault {c_ostr(name)} {c_ounit(r)}")
            if r[0] == "ok":
                if name:
                    self.foreign = set()
                    self.cached_before_none = set()
                else:
                    self.cached_before_none = cached
                if u.default_system != name:
                    self.fail("default-system:not-set", f"default_system = {name!r} reads back {u.default_system!r}")
            elif not (r[1] == "XValue" and name not in u._systems):
                self.fail("default-system:raises:" + r[1], f"default_system = {name!r} raised {r[1]}")
        elif kind == "base":
            d, chk, sysname = unjd(op[1]), op[2], op[3]
            eff = sysname if sysname is not None else (u.default_system or None)
            r = self.call(u._get_base_units, mkuc(u, d), chk, sysname)
            r = (r[0], r[1][0], ucd(r[1][1])) if r[0] == "ok" else r
            exact = r[0] == "ok" and self.base_exact(d, r[2])
            if r[0] == "err" and r[1] in ("XValue", "XOther") and (eff is None or eff in u._systems) and self.float_range(d, eff):
                r = ("range",)
                self.count("float-range")
            self.terms.append(f"PBase {coq_uc(d)} {coq_bool(chk)} {c_ostr(sysname)} {c_obase(r, exact)}")
            if r[0] == "range":
                return
            cached_path = chk and (sysname is None or sysname == u.default_system)
            fine = True
            if cached_path and (eff is None or eff in u._systems):
                fine = self.check_cached(d, eff, r)
            if fine and (eff is None or eff in u._systems or r[0] == "ok"):
                self.check_base(d, eff, r, cached_path, exact)
            if chk and sysname is not None and sysname != (u.default_system or None) and r[0] == "ok":
                self.foreign.add(frozenset(d.items()))
        elif kind == "to_base":
            m, d = F(op[1]), unjd(op[2])
            eff = u.default_system or None
            q = u.Quantity(m, mkuc(u, d))
            r = self.call(q.to_base_units)
            r = ("ok", r[1].magnitude, ucd(r[1]._units)) if r[0] == "ok" else r
            exact = r[0] == "ok" and self.conv_exact(d, r[2])
            if r[0] == "err" and r[1] in ("XValue", "XOther") and (eff is None or eff in u._systems) and self.float_range(d, eff):
                r = ("range",)
                self.count("float-range")
            self.terms.append(f"PToBase {coq_q(m)} {coq_uc(d)} {c_obase(r, exact)}")
            if r[0] == "range":
                return
            if r[0] == "ok":
                fine = True
                scope = self.value_scope(d, r[2], eff, exact)
                exact = scope == "exact"
                if eff is None or eff in u._systems:
                    r2 = self.call(u._get_base_units, mkuc(u, d), False, eff)
                    if r2[0] == "ok" and ucd(r2[1][1]) != r[2]:
                        fine = self.check_cached(d, eff, ("ok", None, r[2]))
                if fine:
                    if scope == "skip" or (not exact and not finite(r[1])):
                        self.count("float-range")
                        return
                    back = self.call(u.Quantity(r[1], mkuc(u, r[2])).to, mkuc(u, d))
                    if back[0] == "err" and not exact and back[1] in ("XValue", "XOther"):
                        self.count("float-range")      # inf / nan inside the float conversion
                        return
                    if back[0] != "ok" or not close(back[1].magnitude, m, exact):
                        self.fail("to-base-units:value", f"{m} {d} -> {r[1]} {r[2]} converts back to {back[1].magnitude if back[0] == 'ok' else back[1]}")
                    again = self.call(u._get_base_units, mkuc(u, r[2]), False, eff)       # cache-free
                    if again[0] == "err" and not exact and again[1] in ("XValue", "XOther"):
                        self.count("float-range")
                        return
                    if again[0] != "ok" or ucd(again[1][1]) != r[2] or not close(again[1][0], 1, exact):
                        self.fail("to-base-units:idempotence", f"{r[1]} {r[2]} is not a fixed point of to_base_units")
            elif not (r[1] == "XDim" and eff in u._systems and self.rule_broken(eff)) and r[1] != "XUndef":
                self.fail("to-base-units:raises:" + r[1], f"Q({m}, {d}).to_base_units() raised {r[1]}")
            elif r[1] == "XDim":
                self.fail("rule-inversion:new-old-multi-component:dimerror",
                          f"Q({m}, {d}).to_base_units() under {eff} raises DimensionalityError (inverted rule table)")
        elif kind == "compat":
            d, gos = unjd(op[1]), op[2]
            r = self.call(lambda: sorted(str(x) for x in u.get_compatible_units(mkuc(u, d), gos)))
            self.terms.append(f"PCompat {coq_uc(d)} {c_ostr(gos)} {c_oset(r)}")
            self.check_compat(d, gos, r)
        elif kind == "attr":
            s, item = op[1], op[2]
            r = self.call(lambda: ucd(getattr(getattr(u.sys, s), item)._units))
            if r[0] == "ok":
                names = list(r[1])
                n = names[0] if names else ""
                if len(names) > 1 or (names and r[1][n] != 1):
                    self.fail("sys-attr:not-a-unit", f"ureg.sys.{s}.{item} = {r[1]}")
                self.terms.append(f"PAttr {coq_str(s)} {coq_str(item)} (ON {coq_str(n)})")
                variant = s + "_" + item
                try:
                    want = u.get_name(variant)
                except Exception:      # noqa: BLE001
                    try:
                        want = u.get_name(item)
                    except Exception:      # noqa: BLE001
                        want = None
                if want is None or want != n:
                    self.fail("sys-attr:wrong-variant", f"ureg.sys.{s}.{item} = {n!r}, expected {want!r}")
            else:
                self.terms.append(f"PAttr {coq_str(s)} {coq_str(item)} (ONErr {r[1]})")
                defined = False
                for cand in (s + "_" + item, item):
                    try:
                        u.get_name(cand)
                        defined = True
                    except Exception:      # noqa: BLE001
                        pass
                if defined and s in u._systems and not item.startswith("_") and not item.endswith("__"):
                    self.fail("sys-attr:raises:" + r[1], f"ureg.sys.{s}.{item} raised {r[1]}")
        elif kind == "gstate":
            g = op[1]
            grp = u._groups[g]
            memo = None if grp._computed_members is None else sorted(grp._computed_members)
            self.terms.append(f"PGroupState {coq_str(g)} {c_strs(sorted(grp._unit_names))} {c_strs(sorted(grp._used_groups))} "
                              f"{c_strs(sorted(grp._used_by))} {coq_opt(None if memo is None else c_strs(memo))}")
            # _used_by mirrors _used_groups
            for k, v in u._groups.items():
                if (g in v._used_groups) != (k in grp._used_by):
                    self.fail("group-state:used-by-inconsistent", f"{k} uses {g}: {g in v._used_groups}, {g}._used_by has {k}: {k in grp._used_by}")
        elif kind == "sstate":
            s = op[1]
            so = u._systems[s]
            memo = None if so._computed_members is None else sorted(so._computed_members)
            tbl = coq_list([f"({coq_str(k)}, {coq_uc(ucd(u.UnitsContainer(v)))})" for k, v in sorted(so.base_units.items())])
            self.terms.append(f"PSysState {coq_str(s)} {tbl} {c_strs(sorted(so._used_groups))} {coq_opt(None if memo is None else c_strs(memo))}")
        elif kind == "def_ctx":
            # oracle-only steps (no model term): a context with a unit redefinition, which makes pint
            # switch to a per-context cache object while it is active
            import pint
            c = pint.Context(op[1])
            c.redefine(op[2])
            u.add_context(c)
            self.terms.append("(* context defined *)")
            self.oracle_only = True
        elif kind == "enter_ctx":
            r = self.call(u.enable_contexts, op[1])
            self.terms.append("(* context enabled *)")
        elif kind == "exit_ctx":
            r = self.call(u.disable_contexts)
            self.terms.append("(* context disabled *)")
        else:
            raise ValueError(kind)

    def check_rules(self, name, rules):
        """oracle for System.from_definition: the replacement of every rule solves it (it has the
        dimensionality of the root unit it replaces)"""
        u = self.u
        table = u._systems[name].base_units
        for line in rules:
            parts = [p.strip() for p in line.split(":")]
            new = parts[0]
            if len(parts) == 2:
                olds = [parts[1]] if parts[1] in table and new in table[parts[1]] else []
            else:
                olds = [o for o, rep in table.items() if set(rep) == {new}]
            for old in olds:
                rep = table[old]
                try:
                    ok = u.get_dimensionality(mkuc(u, ucd(u.UnitsContainer(rep)))) == u.get_dimensionality(mkuc(u, {old: 1}))
                except Exception:      # noqa: BLE001
                    ok = False
                if not ok:
                    if len(parts) == 2 and len(rep) > 1:
                        self.fail("rule-inversion:new-old-multi-component",
                                  f"rule '{line}' gives {old} = {dict(rep)}, which does not have the dimensionality of {old}")
                    else:
                        self.fail("rule-inversion:other", f"rule '{line}' gives {old} = {dict(rep)}")

    def case(self):
        if self.regtext is None:
            return f"KDefault {coq_list(self.terms)}"
        return self.gen_prefix + " " + coq_list(self.terms)


# ------------------------------------------------------------------ defect switches (DESIGN.md §2.6)
def detect_quirks(fails):
    """Replay the witness of every listed deviation on the implementation; the model then runs with
    exactly the deviations pint shows.  Each witness that reproduces is also reported (matched against
    known_findings/C14.json by key)."""
    qk = {}
    # F10: system memo survives a group edit
    w = World(registry(), fails, "witness-F10")
    w.setup_names()
    w.apply(["sysmembers", "US"])
    w.apply(["add_units", "USCSLiquidVolume", ["liter"]])
    n = len(fails)
    w.apply(["sysmembers", "US"])
    qk["F10"] = any(k == "system-members:stale-after-group-edit" for k, _, _ in fails[n:])
    # F11: new:old rule with a multi-component new unit
    w = World(registry(), fails, "witness-F11")
    w.setup_names()
    n = len(fails)
    w.apply(["new_system", "w11", ["international"], ["newton: gram"]])
    tbl = w.u._systems["w11"].base_units.get("gram", {}) if "w11" in w.u._systems else {}
    qk["F11"] = F(tbl.get("second", 2)) == F(1, 2)
    if qk["F11"]:
        w.apply(["base", jd({"pound": F(1)}), True, "w11"])
    # F65: self reference passes the cycle check
    w = World(registry(), fails, "witness-F65")
    w.setup_names()
    w.apply(["get_group", "w65"])
    w.apply(["add_groups", "w65", ["w65"]])
    qk["F65"] = "w65" in w.u._groups["w65"]._used_groups
    # F66: failing multi-argument edit keeps its partial effect and the stale memo
    w = World(registry(), fails, "witness-F66")
    w.setup_names()
    w.apply(["get_group", "w66"])
    w.apply(["add_units", "w66", ["meter", "inch"]])
    w.apply(["members", "w66"])
    w.apply(["remove_units", "w66", ["meter", "no_such_unit"]])
    n = len(fails)
    w.apply(["members", "w66"])
    qk["F66"] = any(k.startswith("group-members:stale-after-failed-edit") for k, _, _ in fails[n:])
    # F67: the cache of the default system is written by a query for another system
    w = World(registry(), fails, "witness-F67")
    w.setup_names()
    w.apply(["base", jd({"foot": F(1)}), True, "cgs"])
    n = len(fails)
    w.apply(["base", jd({"foot": F(1)}), True, None])
    qk["F67"] = any(k == "base-units:stale-cache:after-explicit-system-query" for k, _, _ in fails[n:])
    # F68: default_system = None keeps the cache
    w = World(registry(), fails, "witness-F68")
    w.setup_names()
    w.apply(["base", jd({"pound": F(1)}), True, None])
    w.apply(["set_default", None])
    n = len(fails)
    w.apply(["base", jd({"pound": F(1)}), True, None])
    qk["F68"] = any(k == "base-units:stale-cache:after-default-none" for k, _, _ in fails[n:])
    return qk


# ------------------------------------------------------------------ generated definition files
PRELUDE = """\
kilo- = 1000 = k-
deci- = 0.1 = d-
milli- = 0.001 = m-
meter = [length] = m = metre
second = [time] = s
gram = [mass] = g
ampere = [current] = A
radian = []
inch = 0.0254 * meter = in_
foot = 12 * inch = ft
yard = 3 * foot
minute = 60 * second = min_
hour = 60 * minute
pound = 453.59237 * gram = lb
newton = kilogram * meter / second ** 2 = N
joule = newton * meter = J
hertz = 1 / second = Hz
liter = decimeter ** 3 = L
gee = 9.80665 * meter / second ** 2
coulomb = ampere * second = C
knot = 1852 * meter / hour
sqm = meter ** 2
turn = 6.25 * radian
"""
BASE_UNITS = ["meter", "second", "gram", "ampere", "radian"]
PRELUDE_UNITS = ["meter", "second", "gram", "ampere", "radian", "inch", "foot", "yard", "minute", "hour", "pound",
                 "newton", "joule", "hertz", "liter", "gee", "coulomb", "knot", "sqm", "turn"]
SCALES = ["2", "3", "5", "10", "0.5", "0.25", "1.5", "12", "100", "7"]


def gen_registry(rng, idx):
    """a definition file: prelude + random groups (each defining some units, using earlier groups) +
    random systems (rules in both forms; the multi-component new:old rules are where F11 lives)"""
    units = list(PRELUDE_UNITS)
    lines = [PRELUDE]
    ngroups = rng.randint(2, 6)
    gnames = [f"G{idx}_{i}" for i in range(ngroups)]
    groups = {}
    free = []
    counter = 0

    def new_unit():
        nonlocal counter
        counter += 1
        name = f"u{counter}"
        k = rng.randint(1, 2)
        parts = []
        for _ in range(k):
            b = rng.choice(units)
            e = rng.choice([1, 1, 1, 2, -1])
            parts.append(b if e == 1 else f"{b} ** {e}" if e > 0 else f"{b} ** ({e})")
        rhs = rng.choice(SCALES) + " * " + " * ".join(parts)
        units.append(name)
        return name, f"{name} = {rhs}"
    for _ in range(rng.randint(0, 3)):
        n, l = new_unit()
        free.append(n)
        lines.append(l)
    for i, g in enumerate(gnames):
        using = rng.sample(gnames[:i], rng.randint(0, min(2, i))) if i else []
        body = []
        mem = []
        for _ in range(rng.randint(0, 3)):
            n, l = new_unit()
            body.append("    " + l)
            mem.append(n)
        groups[g] = (using, mem)
        lines.append(f"@group {g}" + (" using " + ", ".join(using) if using else ""))
        lines += body
        lines.append("@end")
    dg = rng.choice(["Dflt", "Dflt", gnames[0]])
    # systems
    single = {  # new unit -> the root unit it stands on (single root dimension)
        "meter": "meter", "inch": "meter", "foot": "meter", "yard": "meter", "sqm": "meter", "liter": "meter",
        "second": "second", "minute": "second", "hour": "second", "hertz": "second",
        "gram": "gram", "pound": "gram", "kilogram": "gram", "ampere": "ampere", "radian": "radian", "turn": "radian"}
    multi = [("newton", "gram"), ("newton", "meter"), ("joule", "gram"), ("gee", "meter"), ("knot", "meter"),
             ("knot", "second"), ("coulomb", "ampere"), ("coulomb", "second"), ("newton", "second"), ("gee", "second")]
    snames = [f"S{idx}_{i}" for i in range(rng.randint(1, 3))]
    systems = {}
    variant_lines = []
    for s in snames:
        using = rng.sample(gnames + [dg], rng.randint(0, 2))
        using = list(dict.fromkeys(using))
        rules, taken = [], set()
        for _ in range(rng.randint(1, 4)):
            if rng.random() < 0.25:
                new, old = rng.choice(multi)
                form = f"{new}: {old}" if rng.random() < 0.7 else f"{new}:{old}"
            else:
                new = rng.choice(list(single))
                old = single[new]
                form = new if rng.random() < 0.6 else f"{new} : {old}"
            if old in taken:
                continue
            taken.add(old)
            rules.append(form)
        systems[s] = (using, rules)
        # the system's own variant of some units (`<system>_<unit>`), as imperial_pint / US_ton in pint's file
        for base in rng.sample(["foot", "pound", "liter", "knot", "hour"], rng.randint(0, 2)):
            vname = f"{s}_{base}"
            variant_lines.append(f"{vname} = {rng.choice(SCALES)} * {base}")
            units.append(vname)
        lines.append(f"@system {s}" + (" using " + ", ".join(using) if using else ""))
        lines += ["    " + r for r in rules]
        lines.append("@end")
    dflt = rng.choice(snames)
    lines += variant_lines
    text = "@defaults\n    group = " + dg + "\n    system = " + dflt + "\n@end\n" + "\n".join(lines) + "\n"
    return text, dict(units=units, groups=gnames + [dg], systems=snames, multi=multi, single=single)


def coq_gen_prefix(text, tmpdir, idx):
    p = Path(tmpdir) / f"gen{idx}.txt"
    p.write_text(text, encoding="utf-8")
    parsed = t1_defs.parse_file(p)
    raw = coq_list([t1_defs.coq_rawdef(d) for d in parsed["defs"]])
    grp = coq_list([f"({coq_str(g['name'])}, {c_strs(g['using'])}, {c_strs(g['units'])})" for g in parsed["groups"]])
    sys_ = coq_list([f"({coq_str(g['name'])}, {c_strs(g['using'])}, {c_strs(g['rules'])})" for g in parsed["systems"]])
    dfl = coq_list([f"({coq_str(k)}, {coq_str(v)})" for k, v in sorted(parsed["defaults"].items())])
    return f"KGen {raw} {grp} {sys_} {dfl}", str(p)


def rnd_units(rng, names, k=None):
    out = {}
    for _ in range(k or rng.randint(1, 3)):
        out[rng.choice(names)] = F(rng.choice([1, 1, 1, 2, -1, -2, 3]))
    return {k_: v for k_, v in out.items() if v != 0}


def random_ops(rng, w, info, nops, allow_selfloop):
    """drive one world with a random edit / query sequence (mostly valid, some malformed)"""
    u = w.u
    units = info["units"]

    def gname(bad=0.06):
        return "nosuch" if rng.random() < bad else rng.choice(sorted(k for k in u._groups))

    def sname(bad=0.05):
        return "nosuchsys" if rng.random() < bad else rng.choice(sorted(u._systems))

    def query():
        r = rng.random()
        if r < 0.3:
            w.apply(["members", gname(0.03)])
        elif r < 0.5:
            w.apply(["sysmembers", sname(0.03)])
        elif r < 0.75:
            gos = rng.choice([None, sname(), gname(), gname()])
            w.apply(["compat", jd(rnd_units(rng, units, 1) if rng.random() < 0.9 else {}), gos])
        elif r < 0.86:
            w.apply(["base", jd(rnd_units(rng, units)), rng.random() < 0.85, rng.choice([None, None, sname()])])
        elif r < 0.93:
            # a name as the parser accepts it: plain, plural, prefixed, symbol / alias, junk
            base = rng.choice(units + ["ft", "lb", "in_", "min_", "N", "zork"])
            base = base.split("_", 2)[-1] if base.startswith("S") and rng.random() < 0.7 else base   # stem of a variant
            item = rng.choice([base, base, base + "s", "kilo" + base, "milli" + base + "s"])
            if item.isidentifier():
                w.apply(["attr", sname(0.03), item])
        else:
            w.apply(["to_base", str(F(rng.randint(1, 40), rng.choice([1, 2, 3, 7]))), jd(rnd_units(rng, units))])

    for _ in range(nops):
        if w.cyclic:
            return
        r = rng.random()
        if r < 0.16:
            g = gname()
            w.apply(["add_units", g, rng.sample(units, rng.randint(1, 3)) + (["zork"] if rng.random() < 0.1 else [])])
        elif r < 0.28:
            g = gname()
            own = sorted(u._groups[g]._unit_names) if g in u._groups else []
            pick = rng.sample(own, min(len(own), rng.randint(1, 2)))
            if rng.random() < 0.3:
                pick.insert(rng.randint(0, len(pick)), rng.choice(units + ["zork"]))
            w.apply(["remove_units", g, pick or [rng.choice(units)]])
        elif r < 0.42:
            g = gname()
            names = [gname(0.1) for _ in range(rng.randint(1, 3))]
            names = [n for n in names if n != g]        # the self reference is a scenario of its own
            if names:
                w.apply(["add_groups", g, names])
                if rng.random() < 0.5 and g in u._groups:
                    w.apply(["gstate", g])
        elif r < 0.52:
            g = gname()
            used = sorted(u._groups[g]._used_groups) if g in u._groups else []
            pick = rng.sample(used, min(len(used), rng.randint(1, 2)))
            if rng.random() < 0.3:
                pick.insert(rng.randint(0, len(pick)), gname(0.3))
            if pick:
                w.apply(["remove_groups", g, pick])
                if rng.random() < 0.5 and g in u._groups:
                    w.apply(["gstate", g])
        elif r < 0.57:
            w.apply(["get_group", rng.choice(["X1", "X2", "X3", gname(0)])])
        elif r < 0.63:
            s = sname()
            names = [gname(0.15) for _ in range(rng.randint(1, 2))]
            w.apply(["sys_add_groups" if rng.random() < 0.6 else "sys_remove_groups", s, names])
        elif r < 0.70:
            w.apply(["set_default", rng.choice([sname(), sname(), None])])
        elif r < 0.76 and "multi" in info:
            rules = []
            for _ in range(rng.randint(1, 3)):
                x = rng.random()
                if x < 0.35:
                    new, old = rng.choice(info["multi"])
                    rules.append(f"{new}: {old}")
                elif x < 0.8:
                    new = rng.choice(list(info["single"]))
                    rules.append(new if rng.random() < 0.5 else f"{new}:{info['single'][new]}")
                else:
                    rules.append(rng.choice(["newton", "zork", "meter: zork", "meter: second", "foot: inch", "joule : meter : gram", "sqm: second"]))
            name = rng.choice(["T1", "T2", sname(0)])
            w.apply(["new_system", name, [gname(0.1) for _ in range(rng.randint(0, 2))], rules])
            if name in u._systems:
                w.apply(["sstate", name])
        else:
            query()
        if rng.random() < 0.6:
            query()
    if allow_selfloop and not w.cyclic:
        g = rng.choice(sorted(k for k in u._groups if k != "root"))
        w.apply(["add_groups", g, [g]])
        w.apply(["gstate", g])
        w.apply(["members", g])


# ------------------------------------------------------------------ the check
def run(ck):
    rng = random.Random(ck.seed)
    thorough = ck.tier == "thorough"
    ck.rule = ("bundled registry (Fraction): members of all 17 groups and 7 systems; every canonical unit x {no system, SI, mks, cgs, "
               "atomic, Planck, imperial, US}: get_base_units and to_base_units; restricted compatible-unit queries for sampled units x "
               "every group/system; ureg.sys.<system>.<name> for every canonical name, aliases and junk; random compound quantities; "
               "random sequences of default_system changes, group edits (add/remove units and groups, failing edits included) and queries; "
               "generated definition files (random group DAGs, systems with both rule forms) with random sequences. "
               "non-trivial = distinct (kind, system, units / names) steps")
    ck.assumptions += ["Fraction registry: exact; the 29 units with irrational root factors are compared as 'float' (class only) and their value oracles use a 1e-9 relative bound",
                       "registries whose base units are non-multiplicative are outside the model (none exists in pint's files)",
                       "names added to groups are canonical unprefixed unit names or junk: prefixed units are never listed by get_compatible_units (C13's F9)",
                       "a cyclic group graph (only reachable through F65) ends a sequence: pint loops forever on it"]
    import time
    phases, t_last = {}, [time.time()]

    def phase(name):
        now = time.time()
        phases[name] = round(now - t_last[0], 1)
        t_last[0] = now
    ck.extra["phase_seconds"] = phases
    fails = []
    qk = detect_quirks(fails)
    phase("witnesses")
    ck.extra["quirks_reproduced"] = qk
    ok = ck.coq_build(["Properties/C14.vo", "Model/GroupsRun.vo", "Gen/DefaultReg.vo"])
    phase("coq build")
    hdr = header(qk)
    cases, descs = [], []

    def add(world, key, nontrivial=True):
        cases.append(world.case())
        descs.append({"label": world.label, "registry": world.regtext or "default", "ops": list(world.log)})
        ck.case(key=key, nontrivial=nontrivial, sample={"label": world.label, "ops": world.log[:3]} if len(ck.samples) < 6 else None, n=len(world.log))
        for k, v in world.counts.items():
            ck.count("step:" + k, v)

    ureg = registry()
    w0 = World(ureg, fails, "probe")
    w0.setup_names()
    canon = list(w0.canon)
    mult = [n for n in canon if ureg._units[n].is_multiplicative]
    positive = {}
    for n in mult:
        f, _ = ureg._get_root_units(mkuc(ureg, {n: 1}), check_nonmult=False)
        positive[n] = f > 0

    # ---- (i) members of every bundled group and system (fresh registry: no memo yet; then again, memoised)
    w = World(registry(), fails, "bundled-members")
    w.setup_names()
    for g in sorted(w.u._groups):
        w.apply(["members", g])
        w.apply(["gstate", g])
    for g in sorted(w.u._groups):
        w.apply(["members", g])
    add(w, ("members", "bundled-groups"))
    w = World(registry(), fails, "bundled-system-members")
    w.setup_names()
    for s in sorted(w.u._systems):
        w.apply(["sysmembers", s])
        w.apply(["sstate", s])
        w.apply(["sysmembers", s])
    add(w, ("members", "bundled-systems"))

    phase("bundled members")
    # ---- (ii) every canonical unit under every system
    for sysname in SYSTEMS:
        w = None
        for i, n in enumerate(canon):
            if i % 40 == 0:
                if w is not None:
                    add(w, ("base", str(sysname), i))
                w = World(ureg, fails, f"base:{sysname}")
                w.canon, w.universe = w0.canon, w0.universe
                w.apply(["set_default", sysname])
            w.apply(["base", jd({n: F(1)}), True, None])
            if n in positive:
                # quick tier: the quantity-level step for every fourth unit, rotating with the system
                if thorough or (i + SYSTEMS.index(sysname)) % 4 == 0:
                    w.apply(["to_base", str(F(rng.randint(1, 60), rng.choice([1, 1, 2, 3, 8]))), jd({n: F(1)})])
            elif not ureg._units[n].is_logarithmic:
                # offset units: quantity-level oracles only (the offset calculus is C06's)
                q = ureg.Quantity(F(rng.randint(1, 60)), n)
                try:
                    b = q.to_base_units()
                    if not close(b.to(n).magnitude, q.magnitude, exact=False):
                        fails.append(("to-base-units:value", f"{q.magnitude} {n} under {sysname}", {"unit": n, "system": sysname}))
                except Exception as e:      # noqa: BLE001
                    fails.append(("to-base-units:raises:" + xerr(e), f"{n} under {sysname}", {"unit": n, "system": sysname}))
            ck.case(key=("unit-system", n, str(sysname)))
        add(w, ("base", str(sysname), "last"))
    ureg.default_system = "mks"

    phase("unit x system")
    # ---- (iii) restricted compatible units
    names = rng.sample(mult, 60 if thorough else 8) + ["meter", "pound", "gallon", "pint", "foot", "ton", "hundredweight", "second", "radian"][:9 if thorough else 5]
    scopes = [None] + sorted(ureg._groups) + sorted(ureg._systems) + ["nosuch"]
    w = World(registry(), fails, "compat")
    w.canon, w.universe = w0.canon, w0.universe
    for k, n in enumerate(names):
        # quick tier: every system, a sample of the groups (all scopes for the first name)
        use = scopes if (thorough or k == 0) else \
            [None] + sorted(ureg._systems) + rng.sample(sorted(ureg._groups), 6) + ["nosuch"]
        for sc in use:
            w.apply(["compat", jd({n: F(1)}), sc])
        if k % 3 == 2:
            add(w, ("compat", n))
            w = World(w.u, fails, "compat")
            w.canon, w.universe = w0.canon, w0.universe
    w.apply(["compat", jd({}), "imperial"])
    w.apply(["compat", jd({"meter": F(1), "second": F(-1)}), "US"])
    w.apply(["compat", jd({"foot": F(3)}), "imperial"])
    add(w, ("compat", "tail"))

    phase("compatible")
    # ---- (iv) ureg.sys.<system>.<name>
    spell = list(ureg._units.keys())
    for s in [x for x in SYSTEMS if x]:
        # every canonical name for the systems that have variants (imperial_*, US_*); a sample elsewhere in the quick tier
        full = thorough or s in ("imperial", "US")
        items = (list(canon) if full else rng.sample(canon, 40)) + rng.sample(spell, 80 if thorough else 20) \
            + ["zork", "_private", "x__", "kilometer", "millipint", "dimensionless", "pint", "ton", "gallon", "hundredweight"]
        items += attr_spellings(ureg, s, rng, canon, 60 if thorough else 15)
        w = World(ureg, fails, f"attr:{s}")
        w.canon, w.universe = w0.canon, w0.universe
        for i, it in enumerate(items):
            if not it.isidentifier():
                continue
            w.apply(["attr", s, it])
            if i % 120 == 119:
                add(w, ("attr", s, i))
                w = World(ureg, fails, f"attr:{s}")
                w.canon, w.universe = w0.canon, w0.universe
        add(w, ("attr", s, "last"))
    # a case-insensitive registry resolves other letter cases of the variant as well (oracles only: the
    # model's name resolution is the case-sensitive one)
    uci = registry_ci()
    for s_ in ("imperial", "US", "cgs"):
        w = World(uci, fails, f"attr-ci:{s_}")
        w.setup_names()
        for it in attr_spellings(uci, s_, rng, canon, 5):
            for form in {it, it.upper(), it.capitalize(), it.swapcase()}:
                if form.isidentifier():
                    w.apply(["attr", s_, form])
        ck.case(key=("attr-ci", s_), n=len(w.log))
        ck.count("oracle-only:attr-case-insensitive", len(w.log))
    w = World(ureg, fails, "attr:nosuch")
    w.canon, w.universe = w0.canon, w0.universe
    w.apply(["attr", "nosuch", "meter"])
    w.apply(["attr", "_SI", "meter"])
    add(w, ("attr", "nosuch"))

    phase("sys attr")
    # ---- (v) random compound quantities under every system
    pool = [n for n in mult if positive[n] and not n.startswith("delta_")]
    for sysname in SYSTEMS:
        w = World(ureg, fails, f"compound:{sysname}")
        w.canon, w.universe = w0.canon, w0.universe
        w.apply(["set_default", sysname])
        for _ in range(120 if thorough else 12):
            d = rnd_units(rng, pool)
            if not d:
                continue
            w.apply(["base", jd(d), True, None])
            w.apply(["to_base", str(F(rng.randint(1, 99), rng.choice([1, 4, 5, 9]))), jd(d)])
            w.apply(["base", jd(d), rng.random() < 0.5, rng.choice([x for x in SYSTEMS if x])])
        add(w, ("compound", str(sysname)))
    ureg.default_system = "mks"

    phase("compound")
    # ---- (vi) sequences on the bundled registry
    dinfo = dict(units=[n for n in pool if n in w0.universe][:160] + ["pint", "gallon", "ton", "foot", "pound"])
    for k in range(24 if thorough else 6):
        w = World(registry(), fails, f"seq-default:{k}")
        w.setup_names()
        random_ops(rng, w, dinfo, 30 if thorough else 16, allow_selfloop=(k % 3 == 0))
        add(w, ("seq-default", k))

    # ---- (vi-b) default_system assigned while a redefining context is active (oracles only: the
    #      context machinery is C12's model; here only "takes effect immediately" is decided)
    probe_units = ["meter", "pound", "gallon", "newton", "inch", "yard", "stone", "acre"]
    sysn = [x for x in SYSTEMS if x]
    for k in range(len(sysn) if thorough else 3):
        s1, s2 = (sysn[k], sysn[(k + 2) % len(sysn)]) if thorough else rng.sample(sysn, 2)
        w = World(registry(), fails, f"ctx-default:{s1}->{s2}")
        w.setup_names()
        w.apply(["def_ctx", "c14redef", "fortnight = 15 * day"])
        w.apply(["set_default", s1])
        for n in probe_units:
            w.apply(["base", jd({n: F(1)}), True, None])
        w.apply(["enter_ctx", "c14redef"])
        w.apply(["set_default", s2])
        w.apply(["exit_ctx"])
        for n in probe_units:
            w.apply(["base", jd({n: F(1)}), True, None])
            w.apply(["to_base", "3", jd({n: F(1)})])
        ck.case(key=("ctx-default", s1, s2), n=len(w.log))
        ck.count("oracle-only:ctx-default", len(w.log))
    phase("sequences default")
    # ---- (vii) generated definition files
    ngen = 300 if thorough else 30
    tmpdir = tempfile.mkdtemp(prefix="c14_")
    try:
        for k in range(ngen):
            text, info = gen_registry(rng, k)
            prefix, path = coq_gen_prefix(text, tmpdir, k)
            try:
                ug = registry(path)
            except Exception as e:      # noqa: BLE001
                fails.append(("generated-file:load:" + xerr(e), "pint could not load a generated definition file", {"registry": text}))
                continue
            w = World(ug, fails, f"gen:{k}", regtext=text)
            w.gen_prefix = prefix
            w.setup_names()
            for s in sorted(ug._systems):
                w.apply(["sstate", s])
                w.check_rules(s, [r.strip() for r in text.split(f"@system {s}")[1].split("@end")[0].splitlines()[1:] if r.strip()])
            for g in sorted(ug._groups):
                w.apply(["gstate", g])
            # every unit under every system of the file
            for s in sorted(ug._systems) + [None]:
                w.apply(["set_default", s])
                for n in info["units"]:
                    w.apply(["base", jd({n: F(1)}), True, None])
                    if rng.random() < 0.3:
                        w.apply(["to_base", str(F(rng.randint(1, 30), rng.choice([1, 2, 3]))), jd({n: F(1)})])
            random_ops(rng, w, info, 40 if thorough else 30, allow_selfloop=(k % 4 == 0))
            add(w, ("gen", k))
            os.unlink(path)
    finally:
        for f in Path(tmpdir).glob("*"):
            f.unlink()
        os.rmdir(tmpdir)

    phase("generated")
    # ---- differ inside Coq
    # deal the runs out over the shards by estimated cost (set-heavy steps on the bundled registry dominate)
    def cost(d):
        wgt = {"members": 30, "sysmembers": 30, "compat": 20, "gstate": 8, "sstate": 8, "add_units": 30, "remove_units": 30,
               "add_groups": 30, "remove_groups": 30, "get_group": 30}
        k = 1 if d["registry"] == "default" else 0.05
        return sum(k * wgt.get(o[0], 1) + 1 for o in d["ops"])
    nsh = max(1, min(16, len(cases)))
    order = sorted(range(len(cases)), key=lambda i: -cost(descs[i]))
    bins = [order[i::nsh] for i in range(nsh)]
    per = max(len(b) for b in bins)
    perm = [i for b in bins for i in b + [b[-1]] * (per - len(b))]      # pad so that shard boundaries fall between bins
    bad = ck.coq_mismatches("c14", hdr, [cases[i] for i in perm], "ok", shard=per) if ok else None
    if bad is not None:
        bad = sorted({perm[j] for j in bad})
    phase("coq differ")
    ck.extra["model_vs_impl_cases"] = len(cases)
    ck.extra["model_vs_impl_steps"] = sum(len(d["ops"]) for d in descs)
    ck.extra["model_vs_impl_disagreements"] = None if bad is None else len(bad)
    seen = set()
    for key, desc, rp in fails:
        if key not in seen:
            seen.add(key)
            ck.violation(key, desc, rp)
    if bad:
        first = descs[bad[0]]
        import re
        where = ck.coq_show(hdr, f"c14_first_bad QKv default_reg dst dtbl ({cases[bad[0]]})")
        mm = re.search(r"Some (\d+)%N", where)
        idx = int(mm.group(1)) if mm else -1
        step = first["ops"][idx] if 0 <= idx < len(first["ops"]) else "(state construction)"
        ck.broken.append(f"correspondence GroupsRun.c14_ok: {len(bad)} disagreeing runs, first: {first['label']} step {idx}: {step}")
        if not ck.violations:
            ck.violation("correspondence", "model and implementation disagree; no unlisted property oracle failed",
                         {"label": first["label"], "registry": first["registry"], "ops": first["ops"][:idx + 1] if idx >= 0 else first["ops"],
                          "first_bad_step": idx, "step": step, "n": len(bad)},
                         no_input=True)


def replay(ck, path):
    """re-execute the recorded steps on pint with the oracles switched on"""
    data = json.loads(Path(path).read_text())
    rp = data.get("replay", {})
    print(json.dumps({k: v for k, v in data.items() if k != "replay"}, indent=1))
    if "ops" not in rp:
        print(json.dumps(rp, indent=1, default=str))
        return 0
    fails = []
    unlisted = 0
    tmp = None
    if rp.get("registry", "default") == "default":
        u = registry()
    else:
        tmp = tempfile.NamedTemporaryFile("w", suffix=".txt", delete=False, encoding="utf-8")
        tmp.write(rp["registry"])
        tmp.close()
        u = registry(tmp.name)
    try:
        w = World(u, fails, "replay", regtext=None if tmp is None else rp["registry"])
        w.setup_names()
        for op in rp["ops"]:
            n = len(fails)
            w.apply(op)
            print("step", op, "->", w.terms[-1][:200])
            for k, d, _ in fails[n:]:
                kn = ck._match_known(k)
                if kn is None:
                    unlisted += 1
                print("   ORACLE FAILS" + (f" (known finding {kn['id']})" if kn else " (VIOLATION)") + ":", k, "-", d)
    finally:
        if tmp is not None:
            os.unlink(tmp.name)
    return 1 if unlisted else 0
